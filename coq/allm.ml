
(** val negb : bool -> bool **)

let negb = function
| true -> false
| false -> true

type nat =
| O
| S of nat

(** val fst : ('a1 * 'a2) -> 'a1 **)

let fst = function
| (x, _) -> x

(** val snd : ('a1 * 'a2) -> 'a2 **)

let snd = function
| (_, y) -> y

(** val length : 'a1 list -> nat **)

let rec length = function
| [] -> O
| _ :: l' -> S (length l')

(** val app : 'a1 list -> 'a1 list -> 'a1 list **)

let rec app l m =
  match l with
  | [] -> m
  | a :: l1 -> a :: (app l1 m)

type comparison =
| Eq
| Lt
| Gt

(** val add : nat -> nat -> nat **)

let rec add n0 m =
  match n0 with
  | O -> m
  | S p -> S (add p m)

(** val mul : nat -> nat -> nat **)

let rec mul n0 m =
  match n0 with
  | O -> O
  | S p -> add m (mul p m)

(** val nth_error : 'a1 list -> nat -> 'a1 option **)

let rec nth_error l = function
| O -> (match l with
        | [] -> None
        | x :: _ -> Some x)
| S n1 -> (match l with
           | [] -> None
           | _ :: l0 -> nth_error l0 n1)

(** val rev : 'a1 list -> 'a1 list **)

let rec rev = function
| [] -> []
| x :: l' -> app (rev l') (x :: [])

(** val flat_map : ('a1 -> 'a2 list) -> 'a1 list -> 'a2 list **)

let rec flat_map f = function
| [] -> []
| x :: t -> app (f x) (flat_map f t)

(** val fold_left : ('a1 -> 'a2 -> 'a1) -> 'a2 list -> 'a1 -> 'a1 **)

let rec fold_left f l a0 =
  match l with
  | [] -> a0
  | b :: t -> fold_left f t (f a0 b)

(** val fold_right : ('a2 -> 'a1 -> 'a1) -> 'a1 -> 'a2 list -> 'a1 **)

let rec fold_right f a0 = function
| [] -> a0
| b :: t -> f b (fold_right f a0 t)

type positive =
| XI of positive
| XO of positive
| XH

type n =
| N0
| Npos of positive

module Pos =
 struct
  type mask =
  | IsNul
  | IsPos of positive
  | IsNeg
 end

module Coq_Pos =
 struct
  (** val succ : positive -> positive **)

  let rec succ = function
  | XI p -> XO (succ p)
  | XO p -> XI p
  | XH -> XO XH

  (** val add : positive -> positive -> positive **)

  let rec add x y =
    match x with
    | XI p ->
      (match y with
       | XI q -> XO (add_carry p q)
       | XO q -> XI (add p q)
       | XH -> XO (succ p))
    | XO p ->
      (match y with
       | XI q -> XI (add p q)
       | XO q -> XO (add p q)
       | XH -> XI p)
    | XH -> (match y with
             | XI q -> XO (succ q)
             | XO q -> XI q
             | XH -> XO XH)

  (** val add_carry : positive -> positive -> positive **)

  and add_carry x y =
    match x with
    | XI p ->
      (match y with
       | XI q -> XI (add_carry p q)
       | XO q -> XO (add_carry p q)
       | XH -> XI (succ p))
    | XO p ->
      (match y with
       | XI q -> XO (add_carry p q)
       | XO q -> XI (add p q)
       | XH -> XO (succ p))
    | XH ->
      (match y with
       | XI q -> XI (succ q)
       | XO q -> XO (succ q)
       | XH -> XI XH)

  (** val pred_double : positive -> positive **)

  let rec pred_double = function
  | XI p -> XI (XO p)
  | XO p -> XI (pred_double p)
  | XH -> XH

  type mask = Pos.mask =
  | IsNul
  | IsPos of positive
  | IsNeg

  (** val succ_double_mask : mask -> mask **)

  let succ_double_mask = function
  | IsNul -> IsPos XH
  | IsPos p -> IsPos (XI p)
  | IsNeg -> IsNeg

  (** val double_mask : mask -> mask **)

  let double_mask = function
  | IsPos p -> IsPos (XO p)
  | x0 -> x0

  (** val double_pred_mask : positive -> mask **)

  let double_pred_mask = function
  | XI p -> IsPos (XO (XO p))
  | XO p -> IsPos (XO (pred_double p))
  | XH -> IsNul

  (** val sub_mask : positive -> positive -> mask **)

  let rec sub_mask x y =
    match x with
    | XI p ->
      (match y with
       | XI q -> double_mask (sub_mask p q)
       | XO q -> succ_double_mask (sub_mask p q)
       | XH -> IsPos (XO p))
    | XO p ->
      (match y with
       | XI q -> succ_double_mask (sub_mask_carry p q)
       | XO q -> double_mask (sub_mask p q)
       | XH -> IsPos (pred_double p))
    | XH -> (match y with
             | XH -> IsNul
             | _ -> IsNeg)

  (** val sub_mask_carry : positive -> positive -> mask **)

  and sub_mask_carry x y =
    match x with
    | XI p ->
      (match y with
       | XI q -> succ_double_mask (sub_mask_carry p q)
       | XO q -> double_mask (sub_mask p q)
       | XH -> IsPos (pred_double p))
    | XO p ->
      (match y with
       | XI q -> double_mask (sub_mask_carry p q)
       | XO q -> succ_double_mask (sub_mask_carry p q)
       | XH -> double_pred_mask p)
    | XH -> IsNeg

  (** val mul : positive -> positive -> positive **)

  let rec mul x y =
    match x with
    | XI p -> add y (XO (mul p y))
    | XO p -> XO (mul p y)
    | XH -> y

  (** val iter : ('a1 -> 'a1) -> 'a1 -> positive -> 'a1 **)

  let rec iter f x = function
  | XI n' -> f (iter f (iter f x n') n')
  | XO n' -> iter f (iter f x n') n'
  | XH -> f x

  (** val compare_cont : comparison -> positive -> positive -> comparison **)

  let rec compare_cont r x y =
    match x with
    | XI p ->
      (match y with
       | XI q -> compare_cont r p q
       | XO q -> compare_cont Gt p q
       | XH -> Gt)
    | XO p ->
      (match y with
       | XI q -> compare_cont Lt p q
       | XO q -> compare_cont r p q
       | XH -> Gt)
    | XH -> (match y with
             | XH -> r
             | _ -> Lt)

  (** val compare : positive -> positive -> comparison **)

  let compare =
    compare_cont Eq

  (** val eqb : positive -> positive -> bool **)

  let rec eqb p q =
    match p with
    | XI p0 -> (match q with
                | XI q0 -> eqb p0 q0
                | _ -> false)
    | XO p0 -> (match q with
                | XO q0 -> eqb p0 q0
                | _ -> false)
    | XH -> (match q with
             | XH -> true
             | _ -> false)

  (** val coq_Nsucc_double : n -> n **)

  let coq_Nsucc_double = function
  | N0 -> Npos XH
  | Npos p -> Npos (XI p)

  (** val coq_Ndouble : n -> n **)

  let coq_Ndouble = function
  | N0 -> N0
  | Npos p -> Npos (XO p)

  (** val coq_lor : positive -> positive -> positive **)

  let rec coq_lor p q =
    match p with
    | XI p0 ->
      (match q with
       | XI q0 -> XI (coq_lor p0 q0)
       | XO q0 -> XI (coq_lor p0 q0)
       | XH -> p)
    | XO p0 ->
      (match q with
       | XI q0 -> XI (coq_lor p0 q0)
       | XO q0 -> XO (coq_lor p0 q0)
       | XH -> XI p0)
    | XH -> (match q with
             | XO q0 -> XI q0
             | _ -> q)

  (** val coq_land : positive -> positive -> n **)

  let rec coq_land p q =
    match p with
    | XI p0 ->
      (match q with
       | XI q0 -> coq_Nsucc_double (coq_land p0 q0)
       | XO q0 -> coq_Ndouble (coq_land p0 q0)
       | XH -> Npos XH)
    | XO p0 ->
      (match q with
       | XI q0 -> coq_Ndouble (coq_land p0 q0)
       | XO q0 -> coq_Ndouble (coq_land p0 q0)
       | XH -> N0)
    | XH -> (match q with
             | XO _ -> N0
             | _ -> Npos XH)

  (** val coq_lxor : positive -> positive -> n **)

  let rec coq_lxor p q =
    match p with
    | XI p0 ->
      (match q with
       | XI q0 -> coq_Ndouble (coq_lxor p0 q0)
       | XO q0 -> coq_Nsucc_double (coq_lxor p0 q0)
       | XH -> Npos (XO p0))
    | XO p0 ->
      (match q with
       | XI q0 -> coq_Nsucc_double (coq_lxor p0 q0)
       | XO q0 -> coq_Ndouble (coq_lxor p0 q0)
       | XH -> Npos (XI p0))
    | XH ->
      (match q with
       | XI q0 -> Npos (XO q0)
       | XO q0 -> Npos (XI q0)
       | XH -> N0)

  (** val shiftl : positive -> n -> positive **)

  let shiftl p = function
  | N0 -> p
  | Npos n1 -> iter (fun x -> XO x) p n1

  (** val of_succ_nat : nat -> positive **)

  let rec of_succ_nat = function
  | O -> XH
  | S x -> succ (of_succ_nat x)
 end

module N =
 struct
  (** val succ_double : n -> n **)

  let succ_double = function
  | N0 -> Npos XH
  | Npos p -> Npos (XI p)

  (** val double : n -> n **)

  let double = function
  | N0 -> N0
  | Npos p -> Npos (XO p)

  (** val add : n -> n -> n **)

  let add n0 m =
    match n0 with
    | N0 -> m
    | Npos p -> (match m with
                 | N0 -> n0
                 | Npos q -> Npos (Coq_Pos.add p q))

  (** val sub : n -> n -> n **)

  let sub n0 m =
    match n0 with
    | N0 -> N0
    | Npos n' ->
      (match m with
       | N0 -> n0
       | Npos m' ->
         (match Coq_Pos.sub_mask n' m' with
          | Coq_Pos.IsPos p -> Npos p
          | _ -> N0))

  (** val mul : n -> n -> n **)

  let mul n0 m =
    match n0 with
    | N0 -> N0
    | Npos p -> (match m with
                 | N0 -> N0
                 | Npos q -> Npos (Coq_Pos.mul p q))

  (** val compare : n -> n -> comparison **)

  let compare n0 m =
    match n0 with
    | N0 -> (match m with
             | N0 -> Eq
             | Npos _ -> Lt)
    | Npos n' -> (match m with
                  | N0 -> Gt
                  | Npos m' -> Coq_Pos.compare n' m')

  (** val eqb : n -> n -> bool **)

  let eqb n0 m =
    match n0 with
    | N0 -> (match m with
             | N0 -> true
             | Npos _ -> false)
    | Npos p -> (match m with
                 | N0 -> false
                 | Npos q -> Coq_Pos.eqb p q)

  (** val leb : n -> n -> bool **)

  let leb x y =
    match compare x y with
    | Gt -> false
    | _ -> true

  (** val ltb : n -> n -> bool **)

  let ltb x y =
    match compare x y with
    | Lt -> true
    | _ -> false

  (** val min : n -> n -> n **)

  let min n0 n' =
    match compare n0 n' with
    | Gt -> n'
    | _ -> n0

  (** val div2 : n -> n **)

  let div2 = function
  | N0 -> N0
  | Npos p0 -> (match p0 with
                | XI p -> Npos p
                | XO p -> Npos p
                | XH -> N0)

  (** val pos_div_eucl : positive -> n -> n * n **)

  let rec pos_div_eucl a b =
    match a with
    | XI a' ->
      let (q, r) = pos_div_eucl a' b in
      let r' = succ_double r in
      if leb b r' then ((succ_double q), (sub r' b)) else ((double q), r')
    | XO a' ->
      let (q, r) = pos_div_eucl a' b in
      let r' = double r in
      if leb b r' then ((succ_double q), (sub r' b)) else ((double q), r')
    | XH ->
      (match b with
       | N0 -> (N0, (Npos XH))
       | Npos p -> (match p with
                    | XH -> ((Npos XH), N0)
                    | _ -> (N0, (Npos XH))))

  (** val div_eucl : n -> n -> n * n **)

  let div_eucl a b =
    match a with
    | N0 -> (N0, N0)
    | Npos na -> (match b with
                  | N0 -> (N0, a)
                  | Npos _ -> pos_div_eucl na b)

  (** val modulo : n -> n -> n **)

  let modulo a b =
    snd (div_eucl a b)

  (** val coq_lor : n -> n -> n **)

  let coq_lor n0 m =
    match n0 with
    | N0 -> m
    | Npos p -> (match m with
                 | N0 -> n0
                 | Npos q -> Npos (Coq_Pos.coq_lor p q))

  (** val coq_land : n -> n -> n **)

  let coq_land n0 m =
    match n0 with
    | N0 -> N0
    | Npos p -> (match m with
                 | N0 -> N0
                 | Npos q -> Coq_Pos.coq_land p q)

  (** val coq_lxor : n -> n -> n **)

  let coq_lxor n0 m =
    match n0 with
    | N0 -> m
    | Npos p -> (match m with
                 | N0 -> n0
                 | Npos q -> Coq_Pos.coq_lxor p q)

  (** val shiftl : n -> n -> n **)

  let shiftl a n0 =
    match a with
    | N0 -> N0
    | Npos a0 -> Npos (Coq_Pos.shiftl a0 n0)

  (** val shiftr : n -> n -> n **)

  let shiftr a = function
  | N0 -> a
  | Npos p -> Coq_Pos.iter div2 a p

  (** val of_nat : nat -> n **)

  let of_nat = function
  | O -> N0
  | S n' -> Npos (Coq_Pos.of_succ_nat n')
 end

(** val w64 : n -> n **)

let w64 x =
  N.coq_land x (Npos (XI (XI (XI (XI (XI (XI (XI (XI (XI (XI (XI (XI (XI (XI
    (XI (XI (XI (XI (XI (XI (XI (XI (XI (XI (XI (XI (XI (XI (XI (XI (XI (XI
    (XI (XI (XI (XI (XI (XI (XI (XI (XI (XI (XI (XI (XI (XI (XI (XI (XI (XI
    (XI (XI (XI (XI (XI (XI (XI (XI (XI (XI (XI (XI (XI
    XH))))))))))))))))))))))))))))))))))))))))))))))))))))))))))))))))

(** val add64 : n -> n -> n **)

let add64 a b =
  w64 (N.add a b)

(** val rotl64 : n -> n -> n **)

let rotl64 x b =
  w64
    (N.coq_lor (N.shiftl x b)
      (N.shiftr x (N.sub (Npos (XO (XO (XO (XO (XO (XO XH))))))) b)))

type st = { v0 : n; v1 : n; v2 : n; v3 : n }

(** val sipround : st -> st **)

let sipround s =
  let v4 = add64 s.v0 s.v1 in
  let v5 = rotl64 s.v1 (Npos (XI (XO (XI XH)))) in
  let v6 = N.coq_lxor v5 v4 in
  let v7 = rotl64 v4 (Npos (XO (XO (XO (XO (XO XH)))))) in
  let v8 = add64 s.v2 s.v3 in
  let v9 = rotl64 s.v3 (Npos (XO (XO (XO (XO XH))))) in
  let v10 = N.coq_lxor v9 v8 in
  let v11 = add64 v7 v10 in
  let v12 = rotl64 v10 (Npos (XI (XO (XI (XO XH))))) in
  let v13 = N.coq_lxor v12 v11 in
  let v14 = add64 v8 v6 in
  let v15 = rotl64 v6 (Npos (XI (XO (XO (XO XH))))) in
  let v16 = N.coq_lxor v15 v14 in
  let v17 = rotl64 v14 (Npos (XO (XO (XO (XO (XO XH)))))) in
  { v0 = v11; v1 = v16; v2 = v17; v3 = v13 }

(** val absorb : st -> n -> st **)

let absorb s m =
  let s0 = { v0 = s.v0; v1 = s.v1; v2 = s.v2; v3 = (N.coq_lxor s.v3 m) } in
  let s1 = sipround (sipround s0) in
  { v0 = (N.coq_lxor s1.v0 m); v1 = s1.v1; v2 = s1.v2; v3 = s1.v3 }

(** val le_word : n list -> n **)

let rec le_word = function
| [] -> N0
| b :: r ->
  N.add b
    (N.mul (Npos (XO (XO (XO (XO (XO (XO (XO (XO XH))))))))) (le_word r))

(** val blocks : nat -> st -> n list -> st * n list **)

let rec blocks fuel s bs =
  match fuel with
  | O -> (s, bs)
  | S f ->
    (match bs with
     | [] -> (s, bs)
     | b0 :: l ->
       (match l with
        | [] -> (s, bs)
        | b1 :: l0 ->
          (match l0 with
           | [] -> (s, bs)
           | b2 :: l1 ->
             (match l1 with
              | [] -> (s, bs)
              | b3 :: l2 ->
                (match l2 with
                 | [] -> (s, bs)
                 | b4 :: l3 ->
                   (match l3 with
                    | [] -> (s, bs)
                    | b5 :: l4 ->
                      (match l4 with
                       | [] -> (s, bs)
                       | b6 :: l5 ->
                         (match l5 with
                          | [] -> (s, bs)
                          | b7 :: r ->
                            blocks f
                              (absorb s
                                (le_word
                                  (b0 :: (b1 :: (b2 :: (b3 :: (b4 :: (b5 :: (b6 :: (b7 :: []))))))))))
                              r))))))))

(** val le_bytes : nat -> n -> n list **)

let rec le_bytes n0 x =
  match n0 with
  | O -> []
  | S n' ->
    (N.coq_land x (Npos (XI (XI (XI (XI (XI (XI (XI XH))))))))) :: (le_bytes
                                                                    n'
                                                                    (N.shiftr
                                                                    x (Npos
                                                                    (XO (XO
                                                                    (XO
                                                                    XH))))))

(** val siphash24_128 : n -> n -> n list -> n list **)

let siphash24_128 k0 k1 msg =
  let s = { v0 =
    (N.coq_lxor k0 (Npos (XI (XO (XI (XO (XI (XI (XI (XO (XI (XO (XI (XO (XO
      (XI (XI (XO (XI (XI (XO (XO (XI (XI (XI (XO (XO (XO (XO (XO (XI (XI (XI
      (XO (XI (XO (XI (XO (XO (XI (XI (XO (XI (XO (XI (XI (XO (XI (XI (XO (XI
      (XI (XI (XI (XO (XI (XI (XO (XI (XI (XO (XO (XI (XI
      XH))))))))))))))))))))))))))))))))))))))))))))))))))))))))))))))));
    v1 =
    (N.coq_lxor
      (N.coq_lxor k1 (Npos (XI (XO (XI (XI (XO (XI (XI (XO (XI (XI (XI (XI
        (XO (XI (XI (XO (XO (XO (XI (XO (XO (XI (XI (XO (XO (XI (XI (XI (XO
        (XI (XI (XO (XI (XO (XO (XO (XO (XI (XI (XO (XO (XI (XO (XO (XI (XI
        (XI (XO (XI (XI (XI (XI (XO (XI (XI (XO (XO (XO (XI (XO (XO (XI
        XH))))))))))))))))))))))))))))))))))))))))))))))))))))))))))))))))
      (Npos (XO (XI (XI (XI (XO (XI (XI XH))))))))); v2 =
    (N.coq_lxor k0 (Npos (XI (XO (XO (XO (XO (XI (XI (XO (XO (XI (XO (XO (XI
      (XI (XI (XO (XI (XO (XI (XO (XO (XI (XI (XO (XO (XI (XI (XI (XO (XI (XI
      (XO (XI (XO (XI (XO (XO (XI (XI (XO (XI (XI (XI (XO (XO (XI (XI (XO (XI
      (XO (XO (XI (XI (XI (XI (XO (XO (XO (XI (XI (XO (XI
      XH))))))))))))))))))))))))))))))))))))))))))))))))))))))))))))))));
    v3 =
    (N.coq_lxor k1 (Npos (XI (XI (XO (XO (XI (XI (XI (XO (XI (XO (XI (XO (XO
      (XI (XI (XO (XO (XO (XI (XO (XI (XI (XI (XO (XI (XO (XO (XI (XI (XI (XI
      (XO (XO (XI (XO (XO (XO (XI (XI (XO (XO (XO (XI (XO (XO (XI (XI (XO (XI
      (XO (XI (XO (XO (XI (XI (XO (XO (XO (XI (XO (XI (XI
      XH)))))))))))))))))))))))))))))))))))))))))))))))))))))))))))))))) }
  in
  let (s0, tail) = blocks (length msg) s msg in
  let b =
    N.coq_lor
      (N.shiftl
        (N.modulo (N.of_nat (length msg)) (Npos (XO (XO (XO (XO (XO (XO (XO
          (XO XH)))))))))) (Npos (XO (XO (XO (XI (XI XH))))))) (le_word tail)
  in
  let s1 = absorb s0 b in
  let s2 = { v0 = s1.v0; v1 = s1.v1; v2 =
    (N.coq_lxor s1.v2 (Npos (XO (XI (XI (XI (XO (XI (XI XH))))))))); v3 =
    s1.v3 }
  in
  let s3 = sipround (sipround (sipround (sipround s2))) in
  let h1 = N.coq_lxor (N.coq_lxor s3.v0 s3.v1) (N.coq_lxor s3.v2 s3.v3) in
  let s4 = { v0 = s3.v0; v1 =
    (N.coq_lxor s3.v1 (Npos (XI (XO (XI (XI (XI (XO (XI XH))))))))); v2 =
    s3.v2; v3 = s3.v3 }
  in
  let s5 = sipround (sipround (sipround (sipround s4))) in
  let h2 = N.coq_lxor (N.coq_lxor s5.v0 s5.v1) (N.coq_lxor s5.v2 s5.v3) in
  app (le_bytes (S (S (S (S (S (S (S (S O)))))))) h1)
    (le_bytes (S (S (S (S (S (S (S (S O)))))))) h2)

type 'a res =
| Ok of 'a
| Panic of nat
| Fuel

(** val bind : 'a1 res -> ('a1 -> 'a2 res) -> 'a2 res **)

let bind r f =
  match r with
  | Ok a -> f a
  | Panic w -> Panic w
  | Fuel -> Fuel

(** val assert0 : bool -> nat -> unit res **)

let assert0 b w =
  if b then Ok () else Panic w

type ('digest, 'v) tok =
| TD of 'digest
| TK of n
| TV of 'v

type ('digest, 'v) page =
| Page of n * 'digest option * ('digest, 'v) node list
   * ('digest, 'v) page option
and ('digest, 'v) node =
| Node of n * 'v * ('digest, 'v) page option

(** val plvl : ('a1, 'a2) page -> n **)

let plvl = function
| Page (l, _, _, _) -> l

(** val pnodes : ('a1, 'a2) page -> ('a1, 'a2) node list **)

let pnodes = function
| Page (_, _, ns, _) -> ns

(** val phigh : ('a1, 'a2) page -> ('a1, 'a2) page option **)

let phigh = function
| Page (_, _, _, h) -> h

(** val pcache : ('a1, 'a2) page -> 'a1 option **)

let pcache = function
| Page (_, c, _, _) -> c

(** val nkey : ('a1, 'a2) node -> n **)

let nkey = function
| Node (k, _, _) -> k

(** val nval : ('a1, 'a2) node -> 'a2 **)

let nval = function
| Node (_, v, _) -> v

(** val nlt : ('a1, 'a2) node -> ('a1, 'a2) page option **)

let nlt = function
| Node (_, _, l) -> l

(** val set_lt :
    ('a1, 'a2) node -> ('a1, 'a2) page option -> ('a1, 'a2) node **)

let set_lt n0 l =
  let Node (k, v, _) = n0 in Node (k, v, l)

(** val set_val : ('a1, 'a2) node -> 'a2 -> ('a1, 'a2) node **)

let set_val n0 v =
  let Node (k, _, l) = n0 in Node (k, v, l)

(** val max_key : ('a1, 'a2) page -> n option **)

let max_key p =
  match rev (pnodes p) with
  | [] -> None
  | n0 :: _ -> Some (nkey n0)

(** val min_key : ('a1, 'a2) page -> n option **)

let min_key p =
  match pnodes p with
  | [] -> None
  | n0 :: _ -> Some (nkey n0)

(** val nonempty : ('a1, 'a2) page -> bool **)

let nonempty p =
  match pnodes p with
  | [] -> false
  | _ :: _ -> true

(** val olt : n option -> n -> bool **)

let olt a k =
  match a with
  | Some x -> N.ltb x k
  | None -> false

(** val ogt : n option -> n -> bool **)

let ogt a k =
  match a with
  | Some x -> N.ltb k x
  | None -> false

(** val is_none : 'a1 option -> bool **)

let is_none = function
| Some _ -> false
| None -> true

(** val insert_high_page :
    ('a1, 'a2) page -> ('a1, 'a2) page -> ('a1, 'a2) page res **)

let insert_high_page p h =
  bind
    (assert0 (is_none (phigh p)) (S (S (S (S (S (S (S (S (S (S (S (S (S (S (S
      (S (S (S (S (S (S (S (S (S (S (S (S (S (S (S (S (S (S (S (S (S (S (S (S
      (S (S (S (S (S (S (S (S (S (S (S (S (S (S (S (S (S (S (S (S (S (S (S (S
      (S (S (S (S (S (S (S (S (S (S (S (S
      O))))))))))))))))))))))))))))))))))))))))))))))))))))))))))))))))))))))))))))
    (fun _ ->
    bind
      (assert0 (nonempty h) (S (S (S (S (S (S (S (S (S (S (S (S (S (S (S (S
        (S (S (S (S (S (S (S (S (S (S (S (S (S (S (S (S (S (S (S (S (S (S (S
        (S (S (S (S (S (S (S (S (S (S (S (S (S (S (S (S (S (S (S (S (S (S (S
        (S (S (S (S (S (S (S (S (S (S (S (S (S (S
        O)))))))))))))))))))))))))))))))))))))))))))))))))))))))))))))))))))))))))))))
      (fun _ -> Ok (Page ((plvl p), None, (pnodes p), (Some h)))))

type ('digest, 'v) ret2 =
  (('digest, 'v) page option * ('digest, 'v) page option) res

(** val orec :
    (('a1, 'a2) page -> n -> ('a1, 'a2) ret2) -> ('a1, 'a2) page option -> n
    -> ('a1, 'a2) ret2 **)

let orec rec0 o k =
  match o with
  | Some p -> rec0 p k
  | None -> Ok (None, None)

(** val split_go :
    bool -> (('a1, 'a2) page -> n -> ('a1, 'a2) ret2) -> n -> 'a1 option ->
    ('a1, 'a2) page option -> n -> ('a1, 'a2) node list -> ('a1, 'a2) node
    list -> ('a1, 'a2) ret2 **)

let rec split_go fixed rec0 lvl c hp k pre = function
| [] ->
  bind
    (assert0 (olt (match pre with
                   | [] -> None
                   | n0 :: _ -> Some (nkey n0)) k) (S (S (S (S (S (S (S (S (S
      (S (S (S (S (S (S (S (S (S (S (S (S (S (S (S (S (S (S (S (S (S (S (S (S
      (S (S (S (S (S (S (S (S (S (S (S (S (S (S (S (S (S (S (S (S (S (S (S (S
      (S (S (S (S (S (S (S (S (S (S (S (S (S (S (S (S (S (S (S (S (S (S (S (S
      (S (S (S (S (S (S (S (S (S (S (S (S (S (S (S (S (S (S (S (S (S (S (S (S
      (S (S (S (S (S (S (S (S (S (S (S (S (S (S (S (S (S (S (S (S (S (S (S (S
      (S (S (S (S (S (S (S (S (S (S (S (S (S (S (S (S (S (S (S (S (S (S (S (S
      (S (S (S (S (S (S (S (S (S (S (S (S (S (S (S (S (S (S (S (S (S (S (S (S
      (S (S (S (S (S (S (S (S (S (S (S (S (S (S (S (S (S (S (S (S (S (S (S (S
      (S (S (S (S (S (S (S (S (S (S (S (S (S (S (S (S (S (S (S (S (S (S (S (S
      (S (S (S (S (S (S (S (S (S (S (S (S (S (S (S (S (S (S (S (S (S (S (S (S
      (S (S (S (S (S (S (S (S (S (S (S (S (S (S (S (S (S (S (S (S (S (S (S (S
      (S (S (S (S (S (S (S (S (S (S (S (S (S (S (S (S (S (S (S (S (S (S (S (S
      (S (S (S (S (S (S (S (S (S (S (S (S (S (S (S (S (S (S (S (S (S (S (S (S
      (S (S (S (S (S (S (S (S (S (S (S (S (S (S (S (S (S (S (S (S (S (S (S (S
      (S (S (S (S (S (S (S (S (S (S (S (S (S (S (S (S (S (S (S (S (S (S (S (S
      (S (S (S (S (S (S (S (S (S (S (S (S (S (S (S (S (S (S (S (S (S (S (S (S
      (S (S (S (S
      O))))))))))))))))))))))))))))))))))))))))))))))))))))))))))))))))))))))))))))))))))))))))))))))))))))))))))))))))))))))))))))))))))))))))))))))))))))))))))))))))))))))))))))))))))))))))))))))))))))))))))))))))))))))))))))))))))))))))))))))))))))))))))))))))))))))))))))))))))))))))))))))))))))))))))))))))))))))))))))))))))))))))))))))))))))))))))))))))))))))))))))))))))))))))))))))))))))))))))))))
    (fun _ ->
    bind (orec rec0 hp k) (fun ab ->
      let (lth, hp') = ab in
      let c' =
        if fixed
        then (match hp' with
              | Some _ -> None
              | None -> c)
        else (match lth with
              | Some _ -> (match hp' with
                           | Some _ -> None
                           | None -> c)
              | None -> c)
      in
      Ok ((Some (Page (lvl, c', (rev pre), lth))), hp')))
| n0 :: rest ->
  if N.leb k (nkey n0)
  then (match pre with
        | [] ->
          bind
            (assert0 (N.ltb k (nkey n0)) (S (S (S (S (S (S (S (S (S (S (S (S
              (S (S (S (S (S (S (S (S (S (S (S (S (S (S (S (S (S (S (S (S (S
              (S (S (S (S (S (S (S (S (S (S (S (S (S (S (S (S (S (S (S (S (S
              (S (S (S (S (S (S (S (S (S (S (S (S (S (S (S (S (S (S (S (S (S
              (S (S (S (S (S (S (S (S (S (S (S (S (S (S (S (S (S (S (S (S (S
              (S (S (S (S (S (S (S (S (S (S (S (S (S (S (S (S (S (S (S (S (S
              (S (S (S (S (S (S (S (S (S (S (S (S (S (S (S (S (S (S (S (S (S
              (S (S (S (S (S (S (S (S (S (S (S (S (S (S (S (S (S (S (S (S (S
              (S (S (S (S (S (S (S (S (S (S (S (S (S (S (S (S (S (S (S (S (S
              (S (S (S (S (S (S (S (S (S (S (S (S (S (S (S (S (S (S (S (S (S
              (S (S (S (S (S (S (S (S (S (S (S (S (S (S (S (S (S (S (S (S (S
              (S (S (S (S (S (S (S (S (S (S (S (S (S (S (S (S (S (S (S (S (S
              (S (S (S (S (S (S (S (S (S (S (S (S (S (S (S (S (S (S (S (S (S
              (S (S (S (S (S (S (S (S (S (S (S (S (S (S (S (S (S (S (S (S (S
              (S (S (S (S (S (S (S (S (S (S (S (S (S (S (S (S (S (S (S (S (S
              (S (S (S (S (S (S (S (S (S (S (S (S (S (S (S (S (S (S (S (S (S
              (S (S (S (S (S (S (S (S (S (S (S (S (S (S (S (S (S (S (S (S (S
              (S (S (S (S (S (S (S (S (S (S (S (S (S (S (S (S (S (S (S (S (S
              (S (S (S (S (S (S (S (S
              O))))))))))))))))))))))))))))))))))))))))))))))))))))))))))))))))))))))))))))))))))))))))))))))))))))))))))))))))))))))))))))))))))))))))))))))))))))))))))))))))))))))))))))))))))))))))))))))))))))))))))))))))))))))))))))))))))))))))))))))))))))))))))))))))))))))))))))))))))))))))))))))))))))))))))))))))))))))))))))))))))))))))))))))))))))))))))))))))))))))))))))))))))))))))))
            (fun _ ->
            bind (orec rec0 (nlt n0) k) (fun ab ->
              let (l, newlt) = ab in
              (match l with
               | Some v ->
                 Ok ((Some v), (Some (Page (lvl, None,
                   ((set_lt n0 newlt) :: rest), hp))))
               | None ->
                 Ok (None, (Some (Page (lvl, c, ((set_lt n0 newlt) :: rest),
                   hp)))))))
        | _ :: _ ->
          let gte0 = Page (lvl, None, (n0 :: rest), None) in
          bind
            (assert0 (ogt (max_key gte0) k) (S (S (S (S (S (S (S (S (S (S (S
              (S (S (S (S (S (S (S (S (S (S (S (S (S (S (S (S (S (S (S (S (S
              (S (S (S (S (S (S (S (S (S (S (S (S (S (S (S (S (S (S (S (S (S
              (S (S (S (S (S (S (S (S (S (S (S (S (S (S (S (S (S (S (S (S (S
              (S (S (S (S (S (S (S (S (S (S (S (S (S (S (S (S (S (S (S (S (S
              (S (S (S (S (S (S (S (S (S (S (S (S (S (S (S (S (S (S (S (S (S
              (S (S (S (S (S (S (S (S (S (S (S (S (S (S (S (S (S (S (S (S (S
              (S (S (S (S (S (S (S (S (S (S (S (S (S (S (S (S (S (S (S (S (S
              (S (S (S (S (S (S (S (S (S (S (S (S (S (S (S (S (S (S (S (S (S
              (S (S (S (S (S (S (S (S (S (S (S (S (S (S (S (S (S (S (S (S (S
              (S (S (S (S (S (S (S (S (S (S (S (S (S (S (S (S (S (S (S (S (S
              (S (S (S (S (S (S (S (S (S (S (S (S (S (S (S (S (S (S (S (S (S
              (S (S (S (S (S (S (S (S (S (S (S (S (S (S (S (S (S (S (S (S (S
              (S (S (S (S (S (S (S (S (S (S (S (S (S (S (S (S (S (S (S (S (S
              (S (S (S (S (S (S (S (S (S (S (S (S (S (S (S (S (S (S (S (S (S
              (S (S (S (S (S (S (S (S (S (S (S (S (S (S (S (S (S (S (S (S (S
              (S (S (S (S (S (S (S (S (S (S (S (S (S (S (S (S (S (S (S (S (S
              (S (S (S (S (S (S (S (S (S (S (S (S (S (S (S (S (S (S (S (S (S
              (S (S (S (S (S (S (S (S (S (S (S (S (S (S (S (S (S (S (S (S (S
              (S (S (S (S (S (S (S (S (S (S (S (S (S (S (S (S (S (S (S (S (S
              (S (S (S (S (S (S (S (S (S (S (S (S (S (S (S (S (S (S (S (S (S
              (S (S (S (S (S (S (S (S (S (S (S (S (S (S (S (S (S (S (S
              O)))))))))))))))))))))))))))))))))))))))))))))))))))))))))))))))))))))))))))))))))))))))))))))))))))))))))))))))))))))))))))))))))))))))))))))))))))))))))))))))))))))))))))))))))))))))))))))))))))))))))))))))))))))))))))))))))))))))))))))))))))))))))))))))))))))))))))))))))))))))))))))))))))))))))))))))))))))))))))))))))))))))))))))))))))))))))))))))))))))))))))))))))))))))))))))))))))))))))))))))))))))))))))))))))))))))))))))))))))))))))))))))))))
            (fun _ ->
            bind
              (match hp with
               | Some h ->
                 bind
                   (assert0 (nonempty h) (S (S (S (S (S (S (S (S (S (S (S (S
                     (S (S (S (S (S (S (S (S (S (S (S (S (S (S (S (S (S (S (S
                     (S (S (S (S (S (S (S (S (S (S (S (S (S (S (S (S (S (S (S
                     (S (S (S (S (S (S (S (S (S (S (S (S (S (S (S (S (S (S (S
                     (S (S (S (S (S (S (S (S (S (S (S (S (S (S (S (S (S (S (S
                     (S (S (S (S (S (S (S (S (S (S (S (S (S (S (S (S (S (S (S
                     (S (S (S (S (S (S (S (S (S (S (S (S (S (S (S (S (S (S (S
                     (S (S (S (S (S (S (S (S (S (S (S (S (S (S (S (S (S (S (S
                     (S (S (S (S (S (S (S (S (S (S (S (S (S (S (S (S (S (S (S
                     (S (S (S (S (S (S (S (S (S (S (S (S (S (S (S (S (S (S (S
                     (S (S (S (S (S (S (S (S (S (S (S (S (S (S (S (S (S (S (S
                     (S (S (S (S (S (S (S (S (S (S (S (S (S (S (S (S (S (S (S
                     (S (S (S (S (S (S (S (S (S (S (S (S (S (S (S (S (S (S (S
                     (S (S (S (S (S (S (S (S (S (S (S (S (S (S (S (S (S (S (S
                     (S (S (S (S (S (S (S (S (S (S (S (S (S (S (S (S (S (S (S
                     (S (S (S (S (S (S (S (S (S (S (S (S (S (S (S (S (S (S (S
                     (S (S (S (S (S (S (S (S (S (S (S (S (S (S (S (S (S (S (S
                     (S (S (S (S (S (S (S (S (S (S (S (S (S (S (S (S (S (S (S
                     (S (S (S (S (S (S (S (S (S (S (S (S (S (S (S (S (S (S (S
                     (S (S (S (S (S (S (S (S (S (S (S (S (S (S (S (S (S (S (S
                     (S (S (S (S (S (S (S (S (S (S (S (S (S (S (S (S (S (S (S
                     (S (S (S (S (S (S (S (S (S (S (S (S (S (S (S (S (S (S (S
                     (S (S (S (S (S (S (S (S (S (S (S (S (S (S (S (S (S (S (S
                     (S (S (S (S (S (S (S (S (S (S (S (S (S (S (S (S (S (S (S
                     (S (S (S (S (S (S
                     O))))))))))))))))))))))))))))))))))))))))))))))))))))))))))))))))))))))))))))))))))))))))))))))))))))))))))))))))))))))))))))))))))))))))))))))))))))))))))))))))))))))))))))))))))))))))))))))))))))))))))))))))))))))))))))))))))))))))))))))))))))))))))))))))))))))))))))))))))))))))))))))))))))))))))))))))))))))))))))))))))))))))))))))))))))))))))))))))))))))))))))))))))))))))))))))))))))))))))))))))))))))))))))))))))))))))))))))))))))))))))))))))))))))))
                   (fun _ ->
                   bind
                     (assert0 (N.ltb (plvl h) lvl) (S (S (S (S (S (S (S (S (S
                       (S (S (S (S (S (S (S (S (S (S (S (S (S (S (S (S (S (S
                       (S (S (S (S (S (S (S (S (S (S (S (S (S (S (S (S (S (S
                       (S (S (S (S (S (S (S (S (S (S (S (S (S (S (S (S (S (S
                       (S (S (S (S (S (S (S (S (S (S (S (S (S (S (S (S (S (S
                       (S (S (S (S (S (S (S (S (S (S (S (S (S (S (S (S (S (S
                       (S (S (S (S (S (S (S (S (S (S (S (S (S (S (S (S (S (S
                       (S (S (S (S (S (S (S (S (S (S (S (S (S (S (S (S (S (S
                       (S (S (S (S (S (S (S (S (S (S (S (S (S (S (S (S (S (S
                       (S (S (S (S (S (S (S (S (S (S (S (S (S (S (S (S (S (S
                       (S (S (S (S (S (S (S (S (S (S (S (S (S (S (S (S (S (S
                       (S (S (S (S (S (S (S (S (S (S (S (S (S (S (S (S (S (S
                       (S (S (S (S (S (S (S (S (S (S (S (S (S (S (S (S (S (S
                       (S (S (S (S (S (S (S (S (S (S (S (S (S (S (S (S (S (S
                       (S (S (S (S (S (S (S (S (S (S (S (S (S (S (S (S (S (S
                       (S (S (S (S (S (S (S (S (S (S (S (S (S (S (S (S (S (S
                       (S (S (S (S (S (S (S (S (S (S (S (S (S (S (S (S (S (S
                       (S (S (S (S (S (S (S (S (S (S (S (S (S (S (S (S (S (S
                       (S (S (S (S (S (S (S (S (S (S (S (S (S (S (S (S (S (S
                       (S (S (S (S (S (S (S (S (S (S (S (S (S (S (S (S (S (S
                       (S (S (S (S (S (S (S (S (S (S (S (S (S (S (S (S (S (S
                       (S (S (S (S (S (S (S (S (S (S (S (S (S (S (S (S (S (S
                       (S (S (S (S (S (S (S (S (S (S (S (S (S (S (S (S (S (S
                       (S (S (S (S (S (S (S (S (S (S (S (S (S (S (S (S (S (S
                       (S (S (S (S (S (S (S (S (S (S (S (S (S (S (S (S (S (S
                       (S (S (S (S (S (S (S (S (S (S (S (S (S (S (S
                       O)))))))))))))))))))))))))))))))))))))))))))))))))))))))))))))))))))))))))))))))))))))))))))))))))))))))))))))))))))))))))))))))))))))))))))))))))))))))))))))))))))))))))))))))))))))))))))))))))))))))))))))))))))))))))))))))))))))))))))))))))))))))))))))))))))))))))))))))))))))))))))))))))))))))))))))))))))))))))))))))))))))))))))))))))))))))))))))))))))))))))))))))))))))))))))))))))))))))))))))))))))))))))))))))))))))))))))))))))))))))))))))))))))))))))
                     (fun _ ->
                     bind
                       (assert0 (ogt (min_key h) k) (S (S (S (S (S (S (S (S
                         (S (S (S (S (S (S (S (S (S (S (S (S (S (S (S (S (S
                         (S (S (S (S (S (S (S (S (S (S (S (S (S (S (S (S (S
                         (S (S (S (S (S (S (S (S (S (S (S (S (S (S (S (S (S
                         (S (S (S (S (S (S (S (S (S (S (S (S (S (S (S (S (S
                         (S (S (S (S (S (S (S (S (S (S (S (S (S (S (S (S (S
                         (S (S (S (S (S (S (S (S (S (S (S (S (S (S (S (S (S
                         (S (S (S (S (S (S (S (S (S (S (S (S (S (S (S (S (S
                         (S (S (S (S (S (S (S (S (S (S (S (S (S (S (S (S (S
                         (S (S (S (S (S (S (S (S (S (S (S (S (S (S (S (S (S
                         (S (S (S (S (S (S (S (S (S (S (S (S (S (S (S (S (S
                         (S (S (S (S (S (S (S (S (S (S (S (S (S (S (S (S (S
                         (S (S (S (S (S (S (S (S (S (S (S (S (S (S (S (S (S
                         (S (S (S (S (S (S (S (S (S (S (S (S (S (S (S (S (S
                         (S (S (S (S (S (S (S (S (S (S (S (S (S (S (S (S (S
                         (S (S (S (S (S (S (S (S (S (S (S (S (S (S (S (S (S
                         (S (S (S (S (S (S (S (S (S (S (S (S (S (S (S (S (S
                         (S (S (S (S (S (S (S (S (S (S (S (S (S (S (S (S (S
                         (S (S (S (S (S (S (S (S (S (S (S (S (S (S (S (S (S
                         (S (S (S (S (S (S (S (S (S (S (S (S (S (S (S (S (S
                         (S (S (S (S (S (S (S (S (S (S (S (S (S (S (S (S (S
                         (S (S (S (S (S (S (S (S (S (S (S (S (S (S (S (S (S
                         (S (S (S (S (S (S (S (S (S (S (S (S (S (S (S (S (S
                         (S (S (S (S (S (S (S (S (S (S (S (S (S (S (S (S (S
                         (S (S (S (S (S (S (S (S (S (S (S (S (S (S (S (S (S
                         (S (S (S (S (S (S (S (S (S (S (S (S (S (S (S (S (S
                         (S (S (S (S (S (S (S (S (S (S (S (S (S (S (S (S (S
                         (S (S (S (S (S (S (S
                         O))))))))))))))))))))))))))))))))))))))))))))))))))))))))))))))))))))))))))))))))))))))))))))))))))))))))))))))))))))))))))))))))))))))))))))))))))))))))))))))))))))))))))))))))))))))))))))))))))))))))))))))))))))))))))))))))))))))))))))))))))))))))))))))))))))))))))))))))))))))))))))))))))))))))))))))))))))))))))))))))))))))))))))))))))))))))))))))))))))))))))))))))))))))))))))))))))))))))))))))))))))))))))))))))))))))))))))))))))))))))))))))))))))))))))
                       (fun _ -> insert_high_page gte0 h)))
               | None -> Ok gte0) (fun gte1 ->
              bind (orec rec0 (nlt n0) k) (fun ab ->
                let (lkh, newlt) = ab in
                let gte = Page (lvl, None, ((set_lt n0 newlt) :: rest),
                  (phigh gte1))
                in
                let ltp = Page (lvl, None, (rev pre), None) in
                bind
                  (assert0 (nonempty ltp) (S (S (S (S (S (S (S (S (S (S (S (S
                    (S (S (S (S (S (S (S (S (S (S (S (S (S (S (S (S (S (S (S
                    (S (S (S (S (S (S (S (S (S (S (S (S (S (S (S (S (S (S (S
                    (S (S (S (S (S (S (S (S (S (S (S (S (S (S (S (S (S (S (S
                    (S (S (S (S (S (S (S (S (S (S (S (S (S (S (S (S (S (S (S
                    (S (S (S (S (S (S (S (S (S (S (S (S (S (S (S (S (S (S (S
                    (S (S (S (S (S (S (S (S (S (S (S (S (S (S (S (S (S (S (S
                    (S (S (S (S (S (S (S (S (S (S (S (S (S (S (S (S (S (S (S
                    (S (S (S (S (S (S (S (S (S (S (S (S (S (S (S (S (S (S (S
                    (S (S (S (S (S (S (S (S (S (S (S (S (S (S (S (S (S (S (S
                    (S (S (S (S (S (S (S (S (S (S (S (S (S (S (S (S (S (S (S
                    (S (S (S (S (S (S (S (S (S (S (S (S (S (S (S (S (S (S (S
                    (S (S (S (S (S (S (S (S (S (S (S (S (S (S (S (S (S (S (S
                    (S (S (S (S (S (S (S (S (S (S (S (S (S (S (S (S (S (S (S
                    (S (S (S (S (S (S (S (S (S (S (S (S (S (S (S (S (S (S (S
                    (S (S (S (S (S (S (S (S (S (S (S (S (S (S (S (S (S (S (S
                    (S (S (S (S (S (S (S (S (S (S (S (S (S (S (S (S (S (S (S
                    (S (S (S (S (S (S (S (S (S (S (S (S (S (S (S (S (S (S (S
                    (S (S (S (S (S (S (S (S (S (S (S (S (S (S (S (S (S (S (S
                    (S (S (S (S (S (S (S (S (S (S (S (S (S (S (S (S (S (S (S
                    (S (S (S (S (S (S (S (S (S (S (S (S (S (S (S (S (S (S (S
                    (S (S (S (S (S (S (S (S (S (S (S (S (S (S (S (S (S (S (S
                    (S (S (S (S (S (S (S (S (S (S (S (S (S (S (S (S (S (S (S
                    (S (S (S (S (S (S (S (S (S (S (S (S (S (S (S (S (S (S (S
                    (S (S (S (S (S (S (S (S (S (S (S (S (S (S (S (S (S (S (S
                    (S (S (S (S (S
                    O))))))))))))))))))))))))))))))))))))))))))))))))))))))))))))))))))))))))))))))))))))))))))))))))))))))))))))))))))))))))))))))))))))))))))))))))))))))))))))))))))))))))))))))))))))))))))))))))))))))))))))))))))))))))))))))))))))))))))))))))))))))))))))))))))))))))))))))))))))))))))))))))))))))))))))))))))))))))))))))))))))))))))))))))))))))))))))))))))))))))))))))))))))))))))))))))))))))))))))))))))))))))))))))))))))))))))))))))))))))))))))))))))))))))))))))))))))))))))
                  (fun _ ->
                  bind
                    (assert0 (olt (max_key ltp) k) (S (S (S (S (S (S (S (S (S
                      (S (S (S (S (S (S (S (S (S (S (S (S (S (S (S (S (S (S
                      (S (S (S (S (S (S (S (S (S (S (S (S (S (S (S (S (S (S
                      (S (S (S (S (S (S (S (S (S (S (S (S (S (S (S (S (S (S
                      (S (S (S (S (S (S (S (S (S (S (S (S (S (S (S (S (S (S
                      (S (S (S (S (S (S (S (S (S (S (S (S (S (S (S (S (S (S
                      (S (S (S (S (S (S (S (S (S (S (S (S (S (S (S (S (S (S
                      (S (S (S (S (S (S (S (S (S (S (S (S (S (S (S (S (S (S
                      (S (S (S (S (S (S (S (S (S (S (S (S (S (S (S (S (S (S
                      (S (S (S (S (S (S (S (S (S (S (S (S (S (S (S (S (S (S
                      (S (S (S (S (S (S (S (S (S (S (S (S (S (S (S (S (S (S
                      (S (S (S (S (S (S (S (S (S (S (S (S (S (S (S (S (S (S
                      (S (S (S (S (S (S (S (S (S (S (S (S (S (S (S (S (S (S
                      (S (S (S (S (S (S (S (S (S (S (S (S (S (S (S (S (S (S
                      (S (S (S (S (S (S (S (S (S (S (S (S (S (S (S (S (S (S
                      (S (S (S (S (S (S (S (S (S (S (S (S (S (S (S (S (S (S
                      (S (S (S (S (S (S (S (S (S (S (S (S (S (S (S (S (S (S
                      (S (S (S (S (S (S (S (S (S (S (S (S (S (S (S (S (S (S
                      (S (S (S (S (S (S (S (S (S (S (S (S (S (S (S (S (S (S
                      (S (S (S (S (S (S (S (S (S (S (S (S (S (S (S (S (S (S
                      (S (S (S (S (S (S (S (S (S (S (S (S (S (S (S (S (S (S
                      (S (S (S (S (S (S (S (S (S (S (S (S (S (S (S (S (S (S
                      (S (S (S (S (S (S (S (S (S (S (S (S (S (S (S (S (S (S
                      (S (S (S (S (S (S (S (S (S (S (S (S (S (S (S (S (S (S
                      (S (S (S (S (S (S (S (S (S (S (S (S (S (S (S (S (S (S
                      (S (S (S (S (S (S (S (S (S (S (S (S (S (S (S (S (S (S
                      (S (S (S (S (S (S (S (S (S (S (S (S (S (S (S
                      O)))))))))))))))))))))))))))))))))))))))))))))))))))))))))))))))))))))))))))))))))))))))))))))))))))))))))))))))))))))))))))))))))))))))))))))))))))))))))))))))))))))))))))))))))))))))))))))))))))))))))))))))))))))))))))))))))))))))))))))))))))))))))))))))))))))))))))))))))))))))))))))))))))))))))))))))))))))))))))))))))))))))))))))))))))))))))))))))))))))))))))))))))))))))))))))))))))))))))))))))))))))))))))))))))))))))))))))))))))))))))))))))))))))))))))))))))))))))))))
                    (fun _ ->
                    match lkh with
                    | Some h ->
                      bind
                        (assert0 (N.ltb (plvl h) lvl) (S (S (S (S (S (S (S (S
                          (S (S (S (S (S (S (S (S (S (S (S (S (S (S (S (S (S
                          (S (S (S (S (S (S (S (S (S (S (S (S (S (S (S (S (S
                          (S (S (S (S (S (S (S (S (S (S (S (S (S (S (S (S (S
                          (S (S (S (S (S (S (S (S (S (S (S (S (S (S (S (S (S
                          (S (S (S (S (S (S (S (S (S (S (S (S (S (S (S (S (S
                          (S (S (S (S (S (S (S (S (S (S (S (S (S (S (S (S (S
                          (S (S (S (S (S (S (S (S (S (S (S (S (S (S (S (S (S
                          (S (S (S (S (S (S (S (S (S (S (S (S (S (S (S (S (S
                          (S (S (S (S (S (S (S (S (S (S (S (S (S (S (S (S (S
                          (S (S (S (S (S (S (S (S (S (S (S (S (S (S (S (S (S
                          (S (S (S (S (S (S (S (S (S (S (S (S (S (S (S (S (S
                          (S (S (S (S (S (S (S (S (S (S (S (S (S (S (S (S (S
                          (S (S (S (S (S (S (S (S (S (S (S (S (S (S (S (S (S
                          (S (S (S (S (S (S (S (S (S (S (S (S (S (S (S (S (S
                          (S (S (S (S (S (S (S (S (S (S (S (S (S (S (S (S (S
                          (S (S (S (S (S (S (S (S (S (S (S (S (S (S (S (S (S
                          (S (S (S (S (S (S (S (S (S (S (S (S (S (S (S (S (S
                          (S (S (S (S (S (S (S (S (S (S (S (S (S (S (S (S (S
                          (S (S (S (S (S (S (S (S (S (S (S (S (S (S (S (S (S
                          (S (S (S (S (S (S (S (S (S (S (S (S (S (S (S (S (S
                          (S (S (S (S (S (S (S (S (S (S (S (S (S (S (S (S (S
                          (S (S (S (S (S (S (S (S (S (S (S (S (S (S (S (S (S
                          (S (S (S (S (S (S (S (S (S (S (S (S (S (S (S (S (S
                          (S (S (S (S (S (S (S (S (S (S (S (S (S (S (S (S (S
                          (S (S (S (S (S (S (S (S (S (S (S (S (S (S (S (S (S
                          (S (S (S (S (S (S (S (S (S (S (S (S (S (S (S (S (S
                          (S (S (S (S (S (S (S (S (S (S (S (S (S (S (S (S (S
                          (S (S (S (S (S (S (S (S (S (S (S
                          O)))))))))))))))))))))))))))))))))))))))))))))))))))))))))))))))))))))))))))))))))))))))))))))))))))))))))))))))))))))))))))))))))))))))))))))))))))))))))))))))))))))))))))))))))))))))))))))))))))))))))))))))))))))))))))))))))))))))))))))))))))))))))))))))))))))))))))))))))))))))))))))))))))))))))))))))))))))))))))))))))))))))))))))))))))))))))))))))))))))))))))))))))))))))))))))))))))))))))))))))))))))))))))))))))))))))))))))))))))))))))))))))))))))))))))))))))))))))))))))))
                        (fun _ ->
                        bind
                          (assert0 (olt (max_key h) k) (S (S (S (S (S (S (S
                            (S (S (S (S (S (S (S (S (S (S (S (S (S (S (S (S
                            (S (S (S (S (S (S (S (S (S (S (S (S (S (S (S (S
                            (S (S (S (S (S (S (S (S (S (S (S (S (S (S (S (S
                            (S (S (S (S (S (S (S (S (S (S (S (S (S (S (S (S
                            (S (S (S (S (S (S (S (S (S (S (S (S (S (S (S (S
                            (S (S (S (S (S (S (S (S (S (S (S (S (S (S (S (S
                            (S (S (S (S (S (S (S (S (S (S (S (S (S (S (S (S
                            (S (S (S (S (S (S (S (S (S (S (S (S (S (S (S (S
                            (S (S (S (S (S (S (S (S (S (S (S (S (S (S (S (S
                            (S (S (S (S (S (S (S (S (S (S (S (S (S (S (S (S
                            (S (S (S (S (S (S (S (S (S (S (S (S (S (S (S (S
                            (S (S (S (S (S (S (S (S (S (S (S (S (S (S (S (S
                            (S (S (S (S (S (S (S (S (S (S (S (S (S (S (S (S
                            (S (S (S (S (S (S (S (S (S (S (S (S (S (S (S (S
                            (S (S (S (S (S (S (S (S (S (S (S (S (S (S (S (S
                            (S (S (S (S (S (S (S (S (S (S (S (S (S (S (S (S
                            (S (S (S (S (S (S (S (S (S (S (S (S (S (S (S (S
                            (S (S (S (S (S (S (S (S (S (S (S (S (S (S (S (S
                            (S (S (S (S (S (S (S (S (S (S (S (S (S (S (S (S
                            (S (S (S (S (S (S (S (S (S (S (S (S (S (S (S (S
                            (S (S (S (S (S (S (S (S (S (S (S (S (S (S (S (S
                            (S (S (S (S (S (S (S (S (S (S (S (S (S (S (S (S
                            (S (S (S (S (S (S (S (S (S (S (S (S (S (S (S (S
                            (S (S (S (S (S (S (S (S (S (S (S (S (S (S (S (S
                            (S (S (S (S (S (S (S (S (S (S (S (S (S (S (S (S
                            (S (S (S (S (S (S (S (S (S (S (S (S (S (S (S (S
                            (S (S (S (S (S (S (S (S (S (S (S (S (S (S (S (S
                            (S (S (S (S (S (S (S (S (S (S (S (S (S (S (S (S
                            (S (S (S (S (S (S (S (S (S (S (S (S (S (S (S (S
                            (S (S (S (S (S (S (S (S
                            O))))))))))))))))))))))))))))))))))))))))))))))))))))))))))))))))))))))))))))))))))))))))))))))))))))))))))))))))))))))))))))))))))))))))))))))))))))))))))))))))))))))))))))))))))))))))))))))))))))))))))))))))))))))))))))))))))))))))))))))))))))))))))))))))))))))))))))))))))))))))))))))))))))))))))))))))))))))))))))))))))))))))))))))))))))))))))))))))))))))))))))))))))))))))))))))))))))))))))))))))))))))))))))))))))))))))))))))))))))))))))))))))))))))))))))))))))))))))))))))))
                          (fun _ ->
                          bind
                            (assert0 (nonempty h) (S (S (S (S (S (S (S (S (S
                              (S (S (S (S (S (S (S (S (S (S (S (S (S (S (S (S
                              (S (S (S (S (S (S (S (S (S (S (S (S (S (S (S (S
                              (S (S (S (S (S (S (S (S (S (S (S (S (S (S (S (S
                              (S (S (S (S (S (S (S (S (S (S (S (S (S (S (S (S
                              (S (S (S (S (S (S (S (S (S (S (S (S (S (S (S (S
                              (S (S (S (S (S (S (S (S (S (S (S (S (S (S (S (S
                              (S (S (S (S (S (S (S (S (S (S (S (S (S (S (S (S
                              (S (S (S (S (S (S (S (S (S (S (S (S (S (S (S (S
                              (S (S (S (S (S (S (S (S (S (S (S (S (S (S (S (S
                              (S (S (S (S (S (S (S (S (S (S (S (S (S (S (S (S
                              (S (S (S (S (S (S (S (S (S (S (S (S (S (S (S (S
                              (S (S (S (S (S (S (S (S (S (S (S (S (S (S (S (S
                              (S (S (S (S (S (S (S (S (S (S (S (S (S (S (S (S
                              (S (S (S (S (S (S (S (S (S (S (S (S (S (S (S (S
                              (S (S (S (S (S (S (S (S (S (S (S (S (S (S (S (S
                              (S (S (S (S (S (S (S (S (S (S (S (S (S (S (S (S
                              (S (S (S (S (S (S (S (S (S (S (S (S (S (S (S (S
                              (S (S (S (S (S (S (S (S (S (S (S (S (S (S (S (S
                              (S (S (S (S (S (S (S (S (S (S (S (S (S (S (S (S
                              (S (S (S (S (S (S (S (S (S (S (S (S (S (S (S (S
                              (S (S (S (S (S (S (S (S (S (S (S (S (S (S (S (S
                              (S (S (S (S (S (S (S (S (S (S (S (S (S (S (S (S
                              (S (S (S (S (S (S (S (S (S (S (S (S (S (S (S (S
                              (S (S (S (S (S (S (S (S (S (S (S (S (S (S (S (S
                              (S (S (S (S (S (S (S (S (S (S (S (S (S (S (S (S
                              (S (S (S (S (S (S (S (S (S (S (S (S (S (S (S (S
                              (S (S (S (S (S (S (S (S (S (S (S (S (S (S (S (S
                              (S (S (S (S (S (S (S (S (S (S (S (S (S (S (S (S
                              (S (S (S (S (S (S (S (S (S (S (S (S (S (S (S (S
                              (S (S (S (S (S (S (S
                              O)))))))))))))))))))))))))))))))))))))))))))))))))))))))))))))))))))))))))))))))))))))))))))))))))))))))))))))))))))))))))))))))))))))))))))))))))))))))))))))))))))))))))))))))))))))))))))))))))))))))))))))))))))))))))))))))))))))))))))))))))))))))))))))))))))))))))))))))))))))))))))))))))))))))))))))))))))))))))))))))))))))))))))))))))))))))))))))))))))))))))))))))))))))))))))))))))))))))))))))))))))))))))))))))))))))))))))))))))))))))))))))))))))))))))))))))))))))))))))))))))
                            (fun _ ->
                            bind (insert_high_page ltp h) (fun ltp' -> Ok
                              ((Some ltp'), (Some gte))))))
                    | None -> Ok ((Some ltp), (Some gte))))))))
  else split_go fixed rec0 lvl c hp k (n0 :: pre) rest

(** val split_page : bool -> ('a1, 'a2) page -> n -> ('a1, 'a2) ret2 **)

let rec split_page fixed p k =
  let Page (lvl, c, ns, hp) = p in
  bind
    (assert0 (nonempty p) (S (S (S (S (S (S (S (S (S (S (S (S (S (S (S (S (S
      (S (S (S (S (S (S (S (S (S (S (S (S (S (S (S (S (S (S (S (S (S (S (S (S
      (S (S (S (S (S (S (S (S (S (S (S (S (S (S (S (S (S (S (S (S (S (S (S (S
      (S (S (S (S (S (S (S (S (S (S (S (S (S (S (S (S (S (S (S (S (S (S (S (S
      (S (S (S (S (S (S (S (S (S (S (S (S (S (S (S (S (S (S (S (S (S (S (S (S
      (S (S (S (S (S (S (S (S (S (S (S (S (S (S (S (S (S (S (S (S (S (S (S (S
      (S (S (S (S (S (S (S (S (S (S (S (S (S (S (S (S (S (S (S (S (S (S (S (S
      (S (S (S (S (S (S (S (S (S (S (S (S (S (S (S (S (S (S (S (S (S (S (S (S
      (S (S (S (S (S (S (S (S (S (S (S (S (S (S (S (S (S (S (S (S (S (S (S (S
      (S (S (S (S (S (S (S (S (S (S (S (S (S (S (S (S (S (S (S (S (S (S (S (S
      (S (S (S (S (S (S (S (S (S (S (S (S (S (S (S (S (S (S (S (S (S (S (S (S
      (S (S (S (S (S (S (S (S (S (S (S (S (S (S (S (S (S (S (S (S (S (S (S (S
      (S (S (S (S (S (S (S (S (S (S (S (S (S (S (S (S (S (S (S (S (S (S (S (S
      (S (S (S (S (S (S (S (S (S (S (S (S (S (S (S (S (S (S (S (S (S (S (S (S
      (S (S (S (S (S (S (S (S (S (S (S (S (S (S (S (S (S (S (S (S (S (S (S (S
      (S (S (S (S (S (S (S (S (S (S (S (S (S (S (S
      O)))))))))))))))))))))))))))))))))))))))))))))))))))))))))))))))))))))))))))))))))))))))))))))))))))))))))))))))))))))))))))))))))))))))))))))))))))))))))))))))))))))))))))))))))))))))))))))))))))))))))))))))))))))))))))))))))))))))))))))))))))))))))))))))))))))))))))))))))))))))))))))))))))))))))))))))))))))))))))))))))))))))))))))))))))))))))))))))))))))))))))))))))
    (fun _ -> split_go fixed (split_page fixed) lvl c hp k [] ns)

(** val split_opt : bool -> ('a1, 'a2) page option -> n -> ('a1, 'a2) ret2 **)

let split_opt fixed o k =
  orec (split_page fixed) o k

(** val resplit_high :
    bool -> n -> ('a1, 'a2) page option -> n -> nat -> nat -> nat -> nat ->
    nat -> nat -> (('a1, 'a2) page option * ('a1, 'a2) page option) res **)

let resplit_high fixed parent_lvl lt k s1 s2 s3 s4 s5 s6 =
  match lt with
  | Some lp ->
    bind (assert0 (N.ltb (plvl lp) parent_lvl) s1) (fun _ ->
      bind (assert0 (nonempty lp) s2) (fun _ ->
        bind (assert0 (olt (max_key lp) k) s3) (fun _ ->
          bind (split_opt fixed (phigh lp) k) (fun ab ->
            let (hlt, gte) = ab in
            bind
              (match gte with
               | Some g ->
                 bind (assert0 (N.ltb (plvl g) parent_lvl) s4) (fun _ ->
                   bind (assert0 (nonempty g) s5) (fun _ ->
                     assert0 (ogt (max_key g) k) s6))
               | None -> Ok ()) (fun _ -> Ok ((Some (Page ((plvl lp),
              (pcache lp), (pnodes lp), hlt))), gte))))))
  | None -> Ok (None, None)

(** val upsert_node_go :
    bool -> n -> 'a1 option -> ('a1, 'a2) page option -> n -> 'a2 -> ('a1,
    'a2) node list -> ('a1, 'a2) node list -> ('a1, 'a2) page res **)

let rec upsert_node_go fixed lvl c hp k v pre = function
| [] ->
  bind (split_opt fixed hp k) (fun ab ->
    let (lt, rest) = ab in
    bind
      (resplit_high fixed lvl lt k (S (S (S (S (S (S (S (S (S (S (S (S (S (S
        (S (S (S (S (S (S (S (S (S (S (S (S (S (S (S (S (S (S (S (S (S (S (S
        (S (S (S (S (S (S (S (S (S (S (S (S (S (S (S (S (S (S (S (S (S (S (S
        (S (S (S (S (S (S (S (S (S (S (S (S (S (S (S (S (S (S (S (S (S (S (S
        (S (S (S (S (S (S (S (S (S (S (S (S (S (S (S (S (S (S (S (S (S (S (S
        (S (S (S (S (S (S (S (S (S (S (S (S (S (S (S (S (S (S (S (S (S (S (S
        (S (S (S (S (S (S (S (S (S (S (S (S (S (S (S (S (S (S (S (S (S (S (S
        (S (S (S (S (S (S (S (S (S (S (S (S (S (S (S (S (S (S (S (S (S (S (S
        (S (S (S (S (S (S (S (S (S (S (S (S (S (S (S (S (S (S (S (S (S (S (S
        (S (S (S (S (S (S (S (S (S (S (S (S (S (S (S (S (S (S (S (S (S (S (S
        (S (S (S (S (S (S (S (S (S (S (S (S (S (S (S (S (S (S (S (S (S (S (S
        (S (S (S (S (S (S (S (S (S (S (S (S (S (S (S (S (S (S (S (S (S (S (S
        (S (S (S (S (S (S (S (S (S (S (S (S (S (S (S (S (S (S (S (S (S (S (S
        (S (S (S (S (S (S (S (S (S (S (S (S (S (S (S (S (S (S (S (S (S (S (S
        (S (S (S (S (S (S (S (S (S (S (S (S (S (S (S (S (S
        O))))))))))))))))))))))))))))))))))))))))))))))))))))))))))))))))))))))))))))))))))))))))))))))))))))))))))))))))))))))))))))))))))))))))))))))))))))))))))))))))))))))))))))))))))))))))))))))))))))))))))))))))))))))))))))))))))))))))))))))))))))))))))))))))))))))))))))))))))))))))))))))))))))))))))))))))))))))))))))))))))))))))))
        (S (S (S (S (S (S (S (S (S (S (S (S (S (S (S (S (S (S (S (S (S (S (S
        (S (S (S (S (S (S (S (S (S (S (S (S (S (S (S (S (S (S (S (S (S (S (S
        (S (S (S (S (S (S (S (S (S (S (S (S (S (S (S (S (S (S (S (S (S (S (S
        (S (S (S (S (S (S (S (S (S (S (S (S (S (S (S (S (S (S (S (S (S (S (S
        (S (S (S (S (S (S (S (S (S (S (S (S (S (S (S (S (S (S (S (S (S (S (S
        (S (S (S (S (S (S (S (S (S (S (S (S (S (S (S (S (S (S (S (S (S (S (S
        (S (S (S (S (S (S (S (S (S (S (S (S (S (S (S (S (S (S (S (S (S (S (S
        (S (S (S (S (S (S (S (S (S (S (S (S (S (S (S (S (S (S (S (S (S (S (S
        (S (S (S (S (S (S (S (S (S (S (S (S (S (S (S (S (S (S (S (S (S (S (S
        (S (S (S (S (S (S (S (S (S (S (S (S (S (S (S (S (S (S (S (S (S (S (S
        (S (S (S (S (S (S (S (S (S (S (S (S (S (S (S (S (S (S (S (S (S (S (S
        (S (S (S (S (S (S (S (S (S (S (S (S (S (S (S (S (S (S (S (S (S (S (S
        (S (S (S (S (S (S (S (S (S (S (S (S (S (S (S (S (S (S (S (S (S (S (S
        (S (S (S (S (S (S (S (S (S (S (S (S (S (S (S (S (S (S (S (S (S (S (S
        (S (S (S (S (S (S (S (S (S
        O)))))))))))))))))))))))))))))))))))))))))))))))))))))))))))))))))))))))))))))))))))))))))))))))))))))))))))))))))))))))))))))))))))))))))))))))))))))))))))))))))))))))))))))))))))))))))))))))))))))))))))))))))))))))))))))))))))))))))))))))))))))))))))))))))))))))))))))))))))))))))))))))))))))))))))))))))))))))))))))))))))))))))))
        (S (S (S (S (S (S (S (S (S (S (S (S (S (S (S (S (S (S (S (S (S (S (S
        (S (S (S (S (S (S (S (S (S (S (S (S (S (S (S (S (S (S (S (S (S (S (S
        (S (S (S (S (S (S (S (S (S (S (S (S (S (S (S (S (S (S (S (S (S (S (S
        (S (S (S (S (S (S (S (S (S (S (S (S (S (S (S (S (S (S (S (S (S (S (S
        (S (S (S (S (S (S (S (S (S (S (S (S (S (S (S (S (S (S (S (S (S (S (S
        (S (S (S (S (S (S (S (S (S (S (S (S (S (S (S (S (S (S (S (S (S (S (S
        (S (S (S (S (S (S (S (S (S (S (S (S (S (S (S (S (S (S (S (S (S (S (S
        (S (S (S (S (S (S (S (S (S (S (S (S (S (S (S (S (S (S (S (S (S (S (S
        (S (S (S (S (S (S (S (S (S (S (S (S (S (S (S (S (S (S (S (S (S (S (S
        (S (S (S (S (S (S (S (S (S (S (S (S (S (S (S (S (S (S (S (S (S (S (S
        (S (S (S (S (S (S (S (S (S (S (S (S (S (S (S (S (S (S (S (S (S (S (S
        (S (S (S (S (S (S (S (S (S (S (S (S (S (S (S (S (S (S (S (S (S (S (S
        (S (S (S (S (S (S (S (S (S (S (S (S (S (S (S (S (S (S (S (S (S (S (S
        (S (S (S (S (S (S (S (S (S (S (S (S (S (S (S (S (S (S (S (S (S (S (S
        (S (S (S (S (S (S (S (S (S (S
        O))))))))))))))))))))))))))))))))))))))))))))))))))))))))))))))))))))))))))))))))))))))))))))))))))))))))))))))))))))))))))))))))))))))))))))))))))))))))))))))))))))))))))))))))))))))))))))))))))))))))))))))))))))))))))))))))))))))))))))))))))))))))))))))))))))))))))))))))))))))))))))))))))))))))))))))))))))))))))))))))))))))))))))
        (S (S (S (S (S (S (S (S (S (S (S (S (S (S (S (S (S (S (S (S (S (S (S
        (S (S (S (S (S (S (S (S (S (S (S (S (S (S (S (S (S (S (S (S (S (S (S
        (S (S (S (S (S (S (S (S (S (S (S (S (S (S (S (S (S (S (S (S (S (S (S
        (S (S (S (S (S (S (S (S (S (S (S (S (S (S (S (S (S (S (S (S (S (S (S
        (S (S (S (S (S (S (S (S (S (S (S (S (S (S (S (S (S (S (S (S (S (S (S
        (S (S (S (S (S (S (S (S (S (S (S (S (S (S (S (S (S (S (S (S (S (S (S
        (S (S (S (S (S (S (S (S (S (S (S (S (S (S (S (S (S (S (S (S (S (S (S
        (S (S (S (S (S (S (S (S (S (S (S (S (S (S (S (S (S (S (S (S (S (S (S
        (S (S (S (S (S (S (S (S (S (S (S (S (S (S (S (S (S (S (S (S (S (S (S
        (S (S (S (S (S (S (S (S (S (S (S (S (S (S (S (S (S (S (S (S (S (S (S
        (S (S (S (S (S (S (S (S (S (S (S (S (S (S (S (S (S (S (S (S (S (S (S
        (S (S (S (S (S (S (S (S (S (S (S (S (S (S (S (S (S (S (S (S (S (S (S
        (S (S (S (S (S (S (S (S (S (S (S (S (S (S (S (S (S (S (S (S (S (S (S
        (S (S (S (S (S (S (S (S (S (S (S (S (S (S (S (S (S (S (S (S (S (S (S
        (S (S (S (S (S (S (S (S (S (S (S (S (S (S (S
        O)))))))))))))))))))))))))))))))))))))))))))))))))))))))))))))))))))))))))))))))))))))))))))))))))))))))))))))))))))))))))))))))))))))))))))))))))))))))))))))))))))))))))))))))))))))))))))))))))))))))))))))))))))))))))))))))))))))))))))))))))))))))))))))))))))))))))))))))))))))))))))))))))))))))))))))))))))))))))))))))))))))))))))))))))
        (S (S (S (S (S (S (S (S (S (S (S (S (S (S (S (S (S (S (S (S (S (S (S
        (S (S (S (S (S (S (S (S (S (S (S (S (S (S (S (S (S (S (S (S (S (S (S
        (S (S (S (S (S (S (S (S (S (S (S (S (S (S (S (S (S (S (S (S (S (S (S
        (S (S (S (S (S (S (S (S (S (S (S (S (S (S (S (S (S (S (S (S (S (S (S
        (S (S (S (S (S (S (S (S (S (S (S (S (S (S (S (S (S (S (S (S (S (S (S
        (S (S (S (S (S (S (S (S (S (S (S (S (S (S (S (S (S (S (S (S (S (S (S
        (S (S (S (S (S (S (S (S (S (S (S (S (S (S (S (S (S (S (S (S (S (S (S
        (S (S (S (S (S (S (S (S (S (S (S (S (S (S (S (S (S (S (S (S (S (S (S
        (S (S (S (S (S (S (S (S (S (S (S (S (S (S (S (S (S (S (S (S (S (S (S
        (S (S (S (S (S (S (S (S (S (S (S (S (S (S (S (S (S (S (S (S (S (S (S
        (S (S (S (S (S (S (S (S (S (S (S (S (S (S (S (S (S (S (S (S (S (S (S
        (S (S (S (S (S (S (S (S (S (S (S (S (S (S (S (S (S (S (S (S (S (S (S
        (S (S (S (S (S (S (S (S (S (S (S (S (S (S (S (S (S (S (S (S (S (S (S
        (S (S (S (S (S (S (S (S (S (S (S (S (S (S (S (S (S (S (S (S (S (S (S
        (S (S (S (S (S (S (S (S (S (S (S (S (S (S (S (S
        O))))))))))))))))))))))))))))))))))))))))))))))))))))))))))))))))))))))))))))))))))))))))))))))))))))))))))))))))))))))))))))))))))))))))))))))))))))))))))))))))))))))))))))))))))))))))))))))))))))))))))))))))))))))))))))))))))))))))))))))))))))))))))))))))))))))))))))))))))))))))))))))))))))))))))))))))))))))))))))))))))))))))))))))))))
        (S (S (S (S (S (S (S (S (S (S (S (S (S (S (S (S (S (S (S (S (S (S (S
        (S (S (S (S (S (S (S (S (S (S (S (S (S (S (S (S (S (S (S (S (S (S (S
        (S (S (S (S (S (S (S (S (S (S (S (S (S (S (S (S (S (S (S (S (S (S (S
        (S (S (S (S (S (S (S (S (S (S (S (S (S (S (S (S (S (S (S (S (S (S (S
        (S (S (S (S (S (S (S (S (S (S (S (S (S (S (S (S (S (S (S (S (S (S (S
        (S (S (S (S (S (S (S (S (S (S (S (S (S (S (S (S (S (S (S (S (S (S (S
        (S (S (S (S (S (S (S (S (S (S (S (S (S (S (S (S (S (S (S (S (S (S (S
        (S (S (S (S (S (S (S (S (S (S (S (S (S (S (S (S (S (S (S (S (S (S (S
        (S (S (S (S (S (S (S (S (S (S (S (S (S (S (S (S (S (S (S (S (S (S (S
        (S (S (S (S (S (S (S (S (S (S (S (S (S (S (S (S (S (S (S (S (S (S (S
        (S (S (S (S (S (S (S (S (S (S (S (S (S (S (S (S (S (S (S (S (S (S (S
        (S (S (S (S (S (S (S (S (S (S (S (S (S (S (S (S (S (S (S (S (S (S (S
        (S (S (S (S (S (S (S (S (S (S (S (S (S (S (S (S (S (S (S (S (S (S (S
        (S (S (S (S (S (S (S (S (S (S (S (S (S (S (S (S (S (S (S (S (S (S (S
        (S (S (S (S (S (S (S (S (S (S (S (S (S (S (S (S (S
        O))))))))))))))))))))))))))))))))))))))))))))))))))))))))))))))))))))))))))))))))))))))))))))))))))))))))))))))))))))))))))))))))))))))))))))))))))))))))))))))))))))))))))))))))))))))))))))))))))))))))))))))))))))))))))))))))))))))))))))))))))))))))))))))))))))))))))))))))))))))))))))))))))))))))))))))))))))))))))))))))))))))))))))))))))))
      (fun ab0 ->
      let (lt', gte) = ab0 in
      let self1 = Page (lvl, c, (rev pre), rest) in
      bind
        (match gte with
         | Some g -> insert_high_page self1 g
         | None -> Ok self1) (fun self2 -> Ok (Page (lvl, (pcache self2),
        (app (rev pre) ((Node (k, v, lt')) :: [])), (phigh self2))))))
| n0 :: r ->
  if N.leb k (nkey n0)
  then if N.eqb (nkey n0) k
       then Ok (Page (lvl, c, (app (rev pre) ((set_val n0 v) :: r)), hp))
       else bind (split_opt fixed (nlt n0) k) (fun ab ->
              let (lt, rem) = ab in
              bind
                (resplit_high fixed lvl lt k (S (S (S (S (S (S (S (S (S (S (S
                  (S (S (S (S (S (S (S (S (S (S (S (S (S (S (S (S (S (S (S (S
                  (S (S (S (S (S (S (S (S (S (S (S (S (S (S (S (S (S (S (S (S
                  (S (S (S (S (S (S (S (S (S (S (S (S (S (S (S (S (S (S (S (S
                  (S (S (S (S (S (S (S (S (S (S (S (S (S (S (S (S (S (S (S (S
                  (S (S (S (S (S (S (S (S (S (S (S (S (S (S (S (S (S (S (S (S
                  (S (S (S (S (S (S (S (S (S (S (S (S (S (S (S (S (S (S (S (S
                  (S (S (S (S (S (S (S (S (S (S (S (S (S (S (S (S (S (S (S (S
                  (S (S (S (S (S (S (S (S (S (S (S (S (S (S (S (S (S (S (S (S
                  (S (S (S (S (S (S (S (S (S (S (S (S (S (S (S (S (S (S (S (S
                  (S (S (S (S (S (S (S (S (S (S (S (S (S (S (S (S (S (S (S (S
                  (S (S (S (S (S (S (S (S (S (S (S (S (S (S (S (S (S (S (S (S
                  (S (S (S (S (S (S (S (S (S (S (S (S (S (S (S (S (S (S (S (S
                  (S (S (S (S (S (S (S (S (S (S (S (S (S (S (S (S (S (S (S (S
                  (S (S (S (S (S (S (S (S (S (S (S (S (S (S (S (S (S (S (S (S
                  (S (S (S (S (S (S (S (S (S (S (S (S (S (S (S (S (S (S (S (S
                  (S (S (S (S (S (S (S (S (S (S (S (S (S (S (S (S (S (S (S
                  O))))))))))))))))))))))))))))))))))))))))))))))))))))))))))))))))))))))))))))))))))))))))))))))))))))))))))))))))))))))))))))))))))))))))))))))))))))))))))))))))))))))))))))))))))))))))))))))))))))))))))))))))))))))))))))))))))))))))))))))))))))))))))))))))))))))))))))))))))))))))))))))))))))))))))))))))))))))))))))))))))))))))))
                  (S (S (S (S (S (S (S (S (S (S (S (S (S (S (S (S (S (S (S (S
                  (S (S (S (S (S (S (S (S (S (S (S (S (S (S (S (S (S (S (S (S
                  (S (S (S (S (S (S (S (S (S (S (S (S (S (S (S (S (S (S (S (S
                  (S (S (S (S (S (S (S (S (S (S (S (S (S (S (S (S (S (S (S (S
                  (S (S (S (S (S (S (S (S (S (S (S (S (S (S (S (S (S (S (S (S
                  (S (S (S (S (S (S (S (S (S (S (S (S (S (S (S (S (S (S (S (S
                  (S (S (S (S (S (S (S (S (S (S (S (S (S (S (S (S (S (S (S (S
                  (S (S (S (S (S (S (S (S (S (S (S (S (S (S (S (S (S (S (S (S
                  (S (S (S (S (S (S (S (S (S (S (S (S (S (S (S (S (S (S (S (S
                  (S (S (S (S (S (S (S (S (S (S (S (S (S (S (S (S (S (S (S (S
                  (S (S (S (S (S (S (S (S (S (S (S (S (S (S (S (S (S (S (S (S
                  (S (S (S (S (S (S (S (S (S (S (S (S (S (S (S (S (S (S (S (S
                  (S (S (S (S (S (S (S (S (S (S (S (S (S (S (S (S (S (S (S (S
                  (S (S (S (S (S (S (S (S (S (S (S (S (S (S (S (S (S (S (S (S
                  (S (S (S (S (S (S (S (S (S (S (S (S (S (S (S (S (S (S (S (S
                  (S (S (S (S (S (S (S (S (S (S (S (S (S (S (S (S (S (S (S (S
                  (S (S (S (S (S (S (S (S (S (S (S
                  O)))))))))))))))))))))))))))))))))))))))))))))))))))))))))))))))))))))))))))))))))))))))))))))))))))))))))))))))))))))))))))))))))))))))))))))))))))))))))))))))))))))))))))))))))))))))))))))))))))))))))))))))))))))))))))))))))))))))))))))))))))))))))))))))))))))))))))))))))))))))))))))))))))))))))))))))))))))))))))))))))))))))))))
                  (S (S (S (S (S (S (S (S (S (S (S (S (S (S (S (S (S (S (S (S
                  (S (S (S (S (S (S (S (S (S (S (S (S (S (S (S (S (S (S (S (S
                  (S (S (S (S (S (S (S (S (S (S (S (S (S (S (S (S (S (S (S (S
                  (S (S (S (S (S (S (S (S (S (S (S (S (S (S (S (S (S (S (S (S
                  (S (S (S (S (S (S (S (S (S (S (S (S (S (S (S (S (S (S (S (S
                  (S (S (S (S (S (S (S (S (S (S (S (S (S (S (S (S (S (S (S (S
                  (S (S (S (S (S (S (S (S (S (S (S (S (S (S (S (S (S (S (S (S
                  (S (S (S (S (S (S (S (S (S (S (S (S (S (S (S (S (S (S (S (S
                  (S (S (S (S (S (S (S (S (S (S (S (S (S (S (S (S (S (S (S (S
                  (S (S (S (S (S (S (S (S (S (S (S (S (S (S (S (S (S (S (S (S
                  (S (S (S (S (S (S (S (S (S (S (S (S (S (S (S (S (S (S (S (S
                  (S (S (S (S (S (S (S (S (S (S (S (S (S (S (S (S (S (S (S (S
                  (S (S (S (S (S (S (S (S (S (S (S (S (S (S (S (S (S (S (S (S
                  (S (S (S (S (S (S (S (S (S (S (S (S (S (S (S (S (S (S (S (S
                  (S (S (S (S (S (S (S (S (S (S (S (S (S (S (S (S (S (S (S (S
                  (S (S (S (S (S (S (S (S (S (S (S (S (S (S (S (S (S (S (S (S
                  (S (S (S (S (S (S (S (S (S (S (S (S
                  O))))))))))))))))))))))))))))))))))))))))))))))))))))))))))))))))))))))))))))))))))))))))))))))))))))))))))))))))))))))))))))))))))))))))))))))))))))))))))))))))))))))))))))))))))))))))))))))))))))))))))))))))))))))))))))))))))))))))))))))))))))))))))))))))))))))))))))))))))))))))))))))))))))))))))))))))))))))))))))))))))))))))))))
                  (S (S (S (S (S (S (S (S (S (S (S (S (S (S (S (S (S (S (S (S
                  (S (S (S (S (S (S (S (S (S (S (S (S (S (S (S (S (S (S (S (S
                  (S (S (S (S (S (S (S (S (S (S (S (S (S (S (S (S (S (S (S (S
                  (S (S (S (S (S (S (S (S (S (S (S (S (S (S (S (S (S (S (S (S
                  (S (S (S (S (S (S (S (S (S (S (S (S (S (S (S (S (S (S (S (S
                  (S (S (S (S (S (S (S (S (S (S (S (S (S (S (S (S (S (S (S (S
                  (S (S (S (S (S (S (S (S (S (S (S (S (S (S (S (S (S (S (S (S
                  (S (S (S (S (S (S (S (S (S (S (S (S (S (S (S (S (S (S (S (S
                  (S (S (S (S (S (S (S (S (S (S (S (S (S (S (S (S (S (S (S (S
                  (S (S (S (S (S (S (S (S (S (S (S (S (S (S (S (S (S (S (S (S
                  (S (S (S (S (S (S (S (S (S (S (S (S (S (S (S (S (S (S (S (S
                  (S (S (S (S (S (S (S (S (S (S (S (S (S (S (S (S (S (S (S (S
                  (S (S (S (S (S (S (S (S (S (S (S (S (S (S (S (S (S (S (S (S
                  (S (S (S (S (S (S (S (S (S (S (S (S (S (S (S (S (S (S (S (S
                  (S (S (S (S (S (S (S (S (S (S (S (S (S (S (S (S (S (S (S (S
                  (S (S (S (S (S (S (S (S (S (S (S (S (S (S (S (S (S (S (S (S
                  (S (S (S (S (S (S (S (S (S (S (S (S (S (S (S (S (S
                  O)))))))))))))))))))))))))))))))))))))))))))))))))))))))))))))))))))))))))))))))))))))))))))))))))))))))))))))))))))))))))))))))))))))))))))))))))))))))))))))))))))))))))))))))))))))))))))))))))))))))))))))))))))))))))))))))))))))))))))))))))))))))))))))))))))))))))))))))))))))))))))))))))))))))))))))))))))))))))))))))))))))))))))))))))
                  (S (S (S (S (S (S (S (S (S (S (S (S (S (S (S (S (S (S (S (S
                  (S (S (S (S (S (S (S (S (S (S (S (S (S (S (S (S (S (S (S (S
                  (S (S (S (S (S (S (S (S (S (S (S (S (S (S (S (S (S (S (S (S
                  (S (S (S (S (S (S (S (S (S (S (S (S (S (S (S (S (S (S (S (S
                  (S (S (S (S (S (S (S (S (S (S (S (S (S (S (S (S (S (S (S (S
                  (S (S (S (S (S (S (S (S (S (S (S (S (S (S (S (S (S (S (S (S
                  (S (S (S (S (S (S (S (S (S (S (S (S (S (S (S (S (S (S (S (S
                  (S (S (S (S (S (S (S (S (S (S (S (S (S (S (S (S (S (S (S (S
                  (S (S (S (S (S (S (S (S (S (S (S (S (S (S (S (S (S (S (S (S
                  (S (S (S (S (S (S (S (S (S (S (S (S (S (S (S (S (S (S (S (S
                  (S (S (S (S (S (S (S (S (S (S (S (S (S (S (S (S (S (S (S (S
                  (S (S (S (S (S (S (S (S (S (S (S (S (S (S (S (S (S (S (S (S
                  (S (S (S (S (S (S (S (S (S (S (S (S (S (S (S (S (S (S (S (S
                  (S (S (S (S (S (S (S (S (S (S (S (S (S (S (S (S (S (S (S (S
                  (S (S (S (S (S (S (S (S (S (S (S (S (S (S (S (S (S (S (S (S
                  (S (S (S (S (S (S (S (S (S (S (S (S (S (S (S (S (S (S (S (S
                  (S (S (S (S (S (S (S (S (S (S (S (S (S (S (S (S (S (S
                  O))))))))))))))))))))))))))))))))))))))))))))))))))))))))))))))))))))))))))))))))))))))))))))))))))))))))))))))))))))))))))))))))))))))))))))))))))))))))))))))))))))))))))))))))))))))))))))))))))))))))))))))))))))))))))))))))))))))))))))))))))))))))))))))))))))))))))))))))))))))))))))))))))))))))))))))))))))))))))))))))))))))))))))))))))
                  (S (S (S (S (S (S (S (S (S (S (S (S (S (S (S (S (S (S (S (S
                  (S (S (S (S (S (S (S (S (S (S (S (S (S (S (S (S (S (S (S (S
                  (S (S (S (S (S (S (S (S (S (S (S (S (S (S (S (S (S (S (S (S
                  (S (S (S (S (S (S (S (S (S (S (S (S (S (S (S (S (S (S (S (S
                  (S (S (S (S (S (S (S (S (S (S (S (S (S (S (S (S (S (S (S (S
                  (S (S (S (S (S (S (S (S (S (S (S (S (S (S (S (S (S (S (S (S
                  (S (S (S (S (S (S (S (S (S (S (S (S (S (S (S (S (S (S (S (S
                  (S (S (S (S (S (S (S (S (S (S (S (S (S (S (S (S (S (S (S (S
                  (S (S (S (S (S (S (S (S (S (S (S (S (S (S (S (S (S (S (S (S
                  (S (S (S (S (S (S (S (S (S (S (S (S (S (S (S (S (S (S (S (S
                  (S (S (S (S (S (S (S (S (S (S (S (S (S (S (S (S (S (S (S (S
                  (S (S (S (S (S (S (S (S (S (S (S (S (S (S (S (S (S (S (S (S
                  (S (S (S (S (S (S (S (S (S (S (S (S (S (S (S (S (S (S (S (S
                  (S (S (S (S (S (S (S (S (S (S (S (S (S (S (S (S (S (S (S (S
                  (S (S (S (S (S (S (S (S (S (S (S (S (S (S (S (S (S (S (S (S
                  (S (S (S (S (S (S (S (S (S (S (S (S (S (S (S (S (S (S (S (S
                  (S (S (S (S (S (S (S (S (S (S (S (S (S (S (S (S (S (S (S
                  O))))))))))))))))))))))))))))))))))))))))))))))))))))))))))))))))))))))))))))))))))))))))))))))))))))))))))))))))))))))))))))))))))))))))))))))))))))))))))))))))))))))))))))))))))))))))))))))))))))))))))))))))))))))))))))))))))))))))))))))))))))))))))))))))))))))))))))))))))))))))))))))))))))))))))))))))))))))))))))))))))))))))))))))))))))
                (fun ab0 ->
                let (lt', gte) = ab0 in
                let self1 = Page (lvl, c,
                  (app (rev pre) ((set_lt n0 rem) :: r)), hp)
                in
                bind
                  (match gte with
                   | Some g -> insert_high_page self1 g
                   | None -> Ok self1) (fun self2 -> Ok (Page (lvl,
                  (pcache self2),
                  (app (rev pre) ((Node (k, v,
                    lt')) :: ((set_lt n0 rem) :: r))), (phigh self2))))))
  else upsert_node_go fixed lvl c hp k v (n0 :: pre) r

(** val upsert_node :
    bool -> ('a1, 'a2) page -> n -> 'a2 -> ('a1, 'a2) page res **)

let upsert_node fixed p k v =
  let Page (lvl, c, ns, hp) = p in upsert_node_go fixed lvl c hp k v [] ns

(** val insert_intermediate :
    bool -> ('a1, 'a2) page -> n -> n -> 'a2 -> ('a1, 'a2) page res **)

let insert_intermediate fixed child k level0 v =
  bind
    (assert0 (N.ltb (plvl child) level0) (S (S (S (S (S (S (S (S (S (S (S (S
      (S (S (S (S (S (S (S (S (S (S (S (S (S (S (S (S (S (S (S (S (S (S (S (S
      (S (S (S (S (S (S (S (S (S (S (S (S (S (S (S (S (S (S (S (S (S (S (S (S
      (S (S (S (S (S (S (S (S (S (S (S (S (S (S (S (S (S (S (S (S (S (S (S (S
      (S (S (S (S (S (S (S (S (S (S (S (S (S (S (S (S (S (S (S (S (S (S (S (S
      (S (S (S (S (S (S (S (S (S (S (S (S (S (S (S (S (S (S (S (S (S (S (S (S
      (S (S (S (S (S (S (S (S (S (S (S (S (S (S (S (S (S (S (S (S (S (S (S (S
      (S (S (S (S (S (S (S (S (S (S (S (S (S (S (S (S (S (S (S (S (S (S (S (S
      (S (S (S (S (S (S (S (S (S (S (S (S (S (S (S (S (S (S (S (S (S (S (S (S
      (S (S (S (S (S (S (S (S (S (S (S (S (S (S (S (S (S (S (S (S (S (S (S (S
      (S (S (S (S (S (S (S (S (S (S (S (S (S (S (S (S (S (S (S (S (S (S (S (S
      (S (S (S (S (S (S (S (S (S (S (S (S (S (S (S (S (S (S (S (S (S (S (S (S
      (S (S (S (S (S (S (S (S (S (S (S (S (S (S (S (S (S (S (S (S (S (S (S (S
      (S (S (S (S (S (S (S (S (S (S (S (S (S (S (S (S (S (S (S (S (S (S (S (S
      (S (S (S (S (S (S (S (S (S (S (S (S (S (S (S (S (S (S (S (S (S (S (S (S
      (S (S (S (S (S (S (S (S (S (S (S (S (S (S (S (S (S (S (S (S (S (S (S (S
      (S (S (S (S (S (S (S (S (S (S (S (S (S (S (S (S (S (S (S (S (S (S (S (S
      (S (S (S (S (S (S (S (S (S (S (S (S (S (S (S (S (S (S (S (S (S (S (S (S
      (S (S (S (S (S (S (S (S (S (S (S (S (S (S (S (S (S (S (S (S (S (S (S (S
      (S (S (S (S (S (S (S (S (S (S (S (S (S (S (S (S (S (S (S (S (S (S (S (S
      (S (S (S (S (S (S (S (S (S (S (S (S (S (S (S (S (S (S (S (S (S (S (S (S
      (S (S (S (S (S (S (S (S (S (S (S (S (S (S (S (S (S (S (S (S (S (S (S (S
      (S (S (S (S (S (S (S (S (S
      O))))))))))))))))))))))))))))))))))))))))))))))))))))))))))))))))))))))))))))))))))))))))))))))))))))))))))))))))))))))))))))))))))))))))))))))))))))))))))))))))))))))))))))))))))))))))))))))))))))))))))))))))))))))))))))))))))))))))))))))))))))))))))))))))))))))))))))))))))))))))))))))))))))))))))))))))))))))))))))))))))))))))))))))))))))))))))))))))))))))))))))))))))))))))))))))))))))))))))))))))))))))))))))))))))))))))))))))))))))))))))))))))))))))))))))))))))))))))))))))))))))))))))))))))))))))))))))))))))))))))))))))
    (fun _ ->
    bind
      (assert0 (nonempty child) (S (S (S (S (S (S (S (S (S (S (S (S (S (S (S
        (S (S (S (S (S (S (S (S (S (S (S (S (S (S (S (S (S (S (S (S (S (S (S
        (S (S (S (S (S (S (S (S (S (S (S (S (S (S (S (S (S (S (S (S (S (S (S
        (S (S (S (S (S (S (S (S (S (S (S (S (S (S (S (S (S (S (S (S (S (S (S
        (S (S (S (S (S (S (S (S (S (S (S (S (S (S (S (S (S (S (S (S (S (S (S
        (S (S (S (S (S (S (S (S (S (S (S (S (S (S (S (S (S (S (S (S (S (S (S
        (S (S (S (S (S (S (S (S (S (S (S (S (S (S (S (S (S (S (S (S (S (S (S
        (S (S (S (S (S (S (S (S (S (S (S (S (S (S (S (S (S (S (S (S (S (S (S
        (S (S (S (S (S (S (S (S (S (S (S (S (S (S (S (S (S (S (S (S (S (S (S
        (S (S (S (S (S (S (S (S (S (S (S (S (S (S (S (S (S (S (S (S (S (S (S
        (S (S (S (S (S (S (S (S (S (S (S (S (S (S (S (S (S (S (S (S (S (S (S
        (S (S (S (S (S (S (S (S (S (S (S (S (S (S (S (S (S (S (S (S (S (S (S
        (S (S (S (S (S (S (S (S (S (S (S (S (S (S (S (S (S (S (S (S (S (S (S
        (S (S (S (S (S (S (S (S (S (S (S (S (S (S (S (S (S (S (S (S (S (S (S
        (S (S (S (S (S (S (S (S (S (S (S (S (S (S (S (S (S (S (S (S (S (S (S
        (S (S (S (S (S (S (S (S (S (S (S (S (S (S (S (S (S (S (S (S (S (S (S
        (S (S (S (S (S (S (S (S (S (S (S (S (S (S (S (S (S (S (S (S (S (S (S
        (S (S (S (S (S (S (S (S (S (S (S (S (S (S (S (S (S (S (S (S (S (S (S
        (S (S (S (S (S (S (S (S (S (S (S (S (S (S (S (S (S (S (S (S (S (S (S
        (S (S (S (S (S (S (S (S (S (S (S (S (S (S (S (S (S (S (S (S (S (S (S
        (S (S (S (S (S (S (S (S (S (S (S (S (S (S (S (S (S (S (S (S (S (S (S
        (S (S (S (S (S (S (S (S (S (S (S (S (S (S (S (S (S (S (S (S (S (S (S
        (S (S (S (S (S (S (S (S (S (S (S (S (S (S (S (S (S (S (S (S (S (S (S
        (S (S (S (S (S
        O)))))))))))))))))))))))))))))))))))))))))))))))))))))))))))))))))))))))))))))))))))))))))))))))))))))))))))))))))))))))))))))))))))))))))))))))))))))))))))))))))))))))))))))))))))))))))))))))))))))))))))))))))))))))))))))))))))))))))))))))))))))))))))))))))))))))))))))))))))))))))))))))))))))))))))))))))))))))))))))))))))))))))))))))))))))))))))))))))))))))))))))))))))))))))))))))))))))))))))))))))))))))))))))))))))))))))))))))))))))))))))))))))))))))))))))))))))))))))))))))))))))))))))))))))))))))))))))))))))))))))))))))
      (fun _ ->
      bind (split_page fixed child k) (fun ab ->
        let (lt, rest) = ab in
        bind
          (resplit_high fixed level0 lt k (S (S (S (S (S (S (S (S (S (S (S (S
            (S (S (S (S (S (S (S (S (S (S (S (S (S (S (S (S (S (S (S (S (S (S
            (S (S (S (S (S (S (S (S (S (S (S (S (S (S (S (S (S (S (S (S (S (S
            (S (S (S (S (S (S (S (S (S (S (S (S (S (S (S (S (S (S (S (S (S (S
            (S (S (S (S (S (S (S (S (S (S (S (S (S (S (S (S (S (S (S (S (S (S
            (S (S (S (S (S (S (S (S (S (S (S (S (S (S (S (S (S (S (S (S (S (S
            (S (S (S (S (S (S (S (S (S (S (S (S (S (S (S (S (S (S (S (S (S (S
            (S (S (S (S (S (S (S (S (S (S (S (S (S (S (S (S (S (S (S (S (S (S
            (S (S (S (S (S (S (S (S (S (S (S (S (S (S (S (S (S (S (S (S (S (S
            (S (S (S (S (S (S (S (S (S (S (S (S (S (S (S (S (S (S (S (S (S (S
            (S (S (S (S (S (S (S (S (S (S (S (S (S (S (S (S (S (S (S (S (S (S
            (S (S (S (S (S (S (S (S (S (S (S (S (S (S (S (S (S (S (S (S (S (S
            (S (S (S (S (S (S (S (S (S (S (S (S (S (S (S (S (S (S (S (S (S (S
            (S (S (S (S (S (S (S (S (S (S (S (S (S (S (S (S (S (S (S (S (S (S
            (S (S (S (S (S (S (S (S (S (S (S (S (S (S (S (S (S (S (S (S (S (S
            (S (S (S (S (S (S (S (S (S (S (S (S (S (S (S (S (S (S (S (S (S (S
            (S (S (S (S (S (S (S (S (S (S (S (S (S (S (S (S (S (S (S (S (S (S
            (S (S (S (S (S (S (S (S (S (S (S (S (S (S (S (S (S (S (S (S (S (S
            (S (S (S (S (S (S (S (S (S (S (S (S (S (S (S (S (S (S (S (S (S (S
            (S (S (S (S (S (S (S (S (S (S (S (S (S (S (S (S (S (S (S (S (S (S
            (S (S (S (S (S (S (S (S (S (S (S (S (S (S (S (S (S (S (S (S (S (S
            (S (S (S (S (S (S (S (S (S (S (S (S (S (S (S (S (S (S (S (S (S (S
            (S (S (S (S (S (S (S (S (S (S (S (S (S (S (S (S (S (S (S (S (S (S
            (S (S (S (S (S (S (S (S (S (S (S (S (S (S (S (S (S (S (S (S (S (S
            (S (S (S (S (S (S (S (S (S (S (S (S (S (S (S (S (S (S (S (S (S (S
            (S (S (S (S (S (S (S (S (S (S (S (S (S (S (S (S (S (S (S (S (S (S
            (S (S (S (S (S (S (S (S (S (S (S (S (S (S (S (S (S (S (S (S (S (S
            (S (S (S (S (S (S
            O))))))))))))))))))))))))))))))))))))))))))))))))))))))))))))))))))))))))))))))))))))))))))))))))))))))))))))))))))))))))))))))))))))))))))))))))))))))))))))))))))))))))))))))))))))))))))))))))))))))))))))))))))))))))))))))))))))))))))))))))))))))))))))))))))))))))))))))))))))))))))))))))))))))))))))))))))))))))))))))))))))))))))))))))))))))))))))))))))))))))))))))))))))))))))))))))))))))))))))))))))))))))))))))))))))))))))))))))))))))))))))))))))))))))))))))))))))))))))))))))))))))))))))))))))))))))))))))))))))))))))))))))))))))))))))))))))))))))))))))))))))))))))))))))))))))))))))))
            (S (S (S (S (S (S (S (S (S (S (S (S (S (S (S (S (S (S (S (S (S (S
            (S (S (S (S (S (S (S (S (S (S (S (S (S (S (S (S (S (S (S (S (S (S
            (S (S (S (S (S (S (S (S (S (S (S (S (S (S (S (S (S (S (S (S (S (S
            (S (S (S (S (S (S (S (S (S (S (S (S (S (S (S (S (S (S (S (S (S (S
            (S (S (S (S (S (S (S (S (S (S (S (S (S (S (S (S (S (S (S (S (S (S
            (S (S (S (S (S (S (S (S (S (S (S (S (S (S (S (S (S (S (S (S (S (S
            (S (S (S (S (S (S (S (S (S (S (S (S (S (S (S (S (S (S (S (S (S (S
            (S (S (S (S (S (S (S (S (S (S (S (S (S (S (S (S (S (S (S (S (S (S
            (S (S (S (S (S (S (S (S (S (S (S (S (S (S (S (S (S (S (S (S (S (S
            (S (S (S (S (S (S (S (S (S (S (S (S (S (S (S (S (S (S (S (S (S (S
            (S (S (S (S (S (S (S (S (S (S (S (S (S (S (S (S (S (S (S (S (S (S
            (S (S (S (S (S (S (S (S (S (S (S (S (S (S (S (S (S (S (S (S (S (S
            (S (S (S (S (S (S (S (S (S (S (S (S (S (S (S (S (S (S (S (S (S (S
            (S (S (S (S (S (S (S (S (S (S (S (S (S (S (S (S (S (S (S (S (S (S
            (S (S (S (S (S (S (S (S (S (S (S (S (S (S (S (S (S (S (S (S (S (S
            (S (S (S (S (S (S (S (S (S (S (S (S (S (S (S (S (S (S (S (S (S (S
            (S (S (S (S (S (S (S (S (S (S (S (S (S (S (S (S (S (S (S (S (S (S
            (S (S (S (S (S (S (S (S (S (S (S (S (S (S (S (S (S (S (S (S (S (S
            (S (S (S (S (S (S (S (S (S (S (S (S (S (S (S (S (S (S (S (S (S (S
            (S (S (S (S (S (S (S (S (S (S (S (S (S (S (S (S (S (S (S (S (S (S
            (S (S (S (S (S (S (S (S (S (S (S (S (S (S (S (S (S (S (S (S (S (S
            (S (S (S (S (S (S (S (S (S (S (S (S (S (S (S (S (S (S (S (S (S (S
            (S (S (S (S (S (S (S (S (S (S (S (S (S (S (S (S (S (S (S (S (S (S
            (S (S (S (S (S (S (S (S (S (S (S (S (S (S (S (S (S (S (S (S (S (S
            (S (S (S (S (S (S (S (S (S (S (S (S (S (S (S (S (S (S (S (S (S (S
            (S (S (S (S (S (S (S (S (S (S (S (S (S (S (S (S (S (S (S (S (S (S
            (S (S (S (S (S (S (S (S (S (S (S (S (S (S (S (S (S (S (S
            O)))))))))))))))))))))))))))))))))))))))))))))))))))))))))))))))))))))))))))))))))))))))))))))))))))))))))))))))))))))))))))))))))))))))))))))))))))))))))))))))))))))))))))))))))))))))))))))))))))))))))))))))))))))))))))))))))))))))))))))))))))))))))))))))))))))))))))))))))))))))))))))))))))))))))))))))))))))))))))))))))))))))))))))))))))))))))))))))))))))))))))))))))))))))))))))))))))))))))))))))))))))))))))))))))))))))))))))))))))))))))))))))))))))))))))))))))))))))))))))))))))))))))))))))))))))))))))))))))))))))))))))))))))))))))))))))))))))))))))))))))))))))))))))))))))))))))))))))
            (S (S (S (S (S (S (S (S (S (S (S (S (S (S (S (S (S (S (S (S (S (S
            (S (S (S (S (S (S (S (S (S (S (S (S (S (S (S (S (S (S (S (S (S (S
            (S (S (S (S (S (S (S (S (S (S (S (S (S (S (S (S (S (S (S (S (S (S
            (S (S (S (S (S (S (S (S (S (S (S (S (S (S (S (S (S (S (S (S (S (S
            (S (S (S (S (S (S (S (S (S (S (S (S (S (S (S (S (S (S (S (S (S (S
            (S (S (S (S (S (S (S (S (S (S (S (S (S (S (S (S (S (S (S (S (S (S
            (S (S (S (S (S (S (S (S (S (S (S (S (S (S (S (S (S (S (S (S (S (S
            (S (S (S (S (S (S (S (S (S (S (S (S (S (S (S (S (S (S (S (S (S (S
            (S (S (S (S (S (S (S (S (S (S (S (S (S (S (S (S (S (S (S (S (S (S
            (S (S (S (S (S (S (S (S (S (S (S (S (S (S (S (S (S (S (S (S (S (S
            (S (S (S (S (S (S (S (S (S (S (S (S (S (S (S (S (S (S (S (S (S (S
            (S (S (S (S (S (S (S (S (S (S (S (S (S (S (S (S (S (S (S (S (S (S
            (S (S (S (S (S (S (S (S (S (S (S (S (S (S (S (S (S (S (S (S (S (S
            (S (S (S (S (S (S (S (S (S (S (S (S (S (S (S (S (S (S (S (S (S (S
            (S (S (S (S (S (S (S (S (S (S (S (S (S (S (S (S (S (S (S (S (S (S
            (S (S (S (S (S (S (S (S (S (S (S (S (S (S (S (S (S (S (S (S (S (S
            (S (S (S (S (S (S (S (S (S (S (S (S (S (S (S (S (S (S (S (S (S (S
            (S (S (S (S (S (S (S (S (S (S (S (S (S (S (S (S (S (S (S (S (S (S
            (S (S (S (S (S (S (S (S (S (S (S (S (S (S (S (S (S (S (S (S (S (S
            (S (S (S (S (S (S (S (S (S (S (S (S (S (S (S (S (S (S (S (S (S (S
            (S (S (S (S (S (S (S (S (S (S (S (S (S (S (S (S (S (S (S (S (S (S
            (S (S (S (S (S (S (S (S (S (S (S (S (S (S (S (S (S (S (S (S (S (S
            (S (S (S (S (S (S (S (S (S (S (S (S (S (S (S (S (S (S (S (S (S (S
            (S (S (S (S (S (S (S (S (S (S (S (S (S (S (S (S (S (S (S (S (S (S
            (S (S (S (S (S (S (S (S (S (S (S (S (S (S (S (S (S (S (S (S (S (S
            (S (S (S (S (S (S (S (S (S (S (S (S (S (S (S (S (S (S (S (S (S (S
            (S (S (S (S (S (S (S (S (S (S (S (S (S (S (S (S (S (S (S (S
            O))))))))))))))))))))))))))))))))))))))))))))))))))))))))))))))))))))))))))))))))))))))))))))))))))))))))))))))))))))))))))))))))))))))))))))))))))))))))))))))))))))))))))))))))))))))))))))))))))))))))))))))))))))))))))))))))))))))))))))))))))))))))))))))))))))))))))))))))))))))))))))))))))))))))))))))))))))))))))))))))))))))))))))))))))))))))))))))))))))))))))))))))))))))))))))))))))))))))))))))))))))))))))))))))))))))))))))))))))))))))))))))))))))))))))))))))))))))))))))))))))))))))))))))))))))))))))))))))))))))))))))))))))))))))))))))))))))))))))))))))))))))))))))))))))))))))))))))))
            (S (S (S (S (S (S (S (S (S (S (S (S (S (S (S (S (S (S (S (S (S (S
            (S (S (S (S (S (S (S (S (S (S (S (S (S (S (S (S (S (S (S (S (S (S
            (S (S (S (S (S (S (S (S (S (S (S (S (S (S (S (S (S (S (S (S (S (S
            (S (S (S (S (S (S (S (S (S (S (S (S (S (S (S (S (S (S (S (S (S (S
            (S (S (S (S (S (S (S (S (S (S (S (S (S (S (S (S (S (S (S (S (S (S
            (S (S (S (S (S (S (S (S (S (S (S (S (S (S (S (S (S (S (S (S (S (S
            (S (S (S (S (S (S (S (S (S (S (S (S (S (S (S (S (S (S (S (S (S (S
            (S (S (S (S (S (S (S (S (S (S (S (S (S (S (S (S (S (S (S (S (S (S
            (S (S (S (S (S (S (S (S (S (S (S (S (S (S (S (S (S (S (S (S (S (S
            (S (S (S (S (S (S (S (S (S (S (S (S (S (S (S (S (S (S (S (S (S (S
            (S (S (S (S (S (S (S (S (S (S (S (S (S (S (S (S (S (S (S (S (S (S
            (S (S (S (S (S (S (S (S (S (S (S (S (S (S (S (S (S (S (S (S (S (S
            (S (S (S (S (S (S (S (S (S (S (S (S (S (S (S (S (S (S (S (S (S (S
            (S (S (S (S (S (S (S (S (S (S (S (S (S (S (S (S (S (S (S (S (S (S
            (S (S (S (S (S (S (S (S (S (S (S (S (S (S (S (S (S (S (S (S (S (S
            (S (S (S (S (S (S (S (S (S (S (S (S (S (S (S (S (S (S (S (S (S (S
            (S (S (S (S (S (S (S (S (S (S (S (S (S (S (S (S (S (S (S (S (S (S
            (S (S (S (S (S (S (S (S (S (S (S (S (S (S (S (S (S (S (S (S (S (S
            (S (S (S (S (S (S (S (S (S (S (S (S (S (S (S (S (S (S (S (S (S (S
            (S (S (S (S (S (S (S (S (S (S (S (S (S (S (S (S (S (S (S (S (S (S
            (S (S (S (S (S (S (S (S (S (S (S (S (S (S (S (S (S (S (S (S (S (S
            (S (S (S (S (S (S (S (S (S (S (S (S (S (S (S (S (S (S (S (S (S (S
            (S (S (S (S (S (S (S (S (S (S (S (S (S (S (S (S (S (S (S (S (S (S
            (S (S (S (S (S (S (S (S (S (S (S (S (S (S (S (S (S (S (S (S (S (S
            (S (S (S (S (S (S (S (S (S (S (S (S (S (S (S (S (S (S (S (S (S (S
            (S (S (S (S (S (S (S (S (S (S (S (S (S (S (S (S (S (S (S (S (S (S
            (S (S (S (S (S (S (S (S (S (S (S (S (S (S (S (S (S (S (S (S (S (S
            (S (S (S
            O)))))))))))))))))))))))))))))))))))))))))))))))))))))))))))))))))))))))))))))))))))))))))))))))))))))))))))))))))))))))))))))))))))))))))))))))))))))))))))))))))))))))))))))))))))))))))))))))))))))))))))))))))))))))))))))))))))))))))))))))))))))))))))))))))))))))))))))))))))))))))))))))))))))))))))))))))))))))))))))))))))))))))))))))))))))))))))))))))))))))))))))))))))))))))))))))))))))))))))))))))))))))))))))))))))))))))))))))))))))))))))))))))))))))))))))))))))))))))))))))))))))))))))))))))))))))))))))))))))))))))))))))))))))))))))))))))))))))))))))))))))))))))))))))))))))))))))))))))))))
            (S (S (S (S (S (S (S (S (S (S (S (S (S (S (S (S (S (S (S (S (S (S
            (S (S (S (S (S (S (S (S (S (S (S (S (S (S (S (S (S (S (S (S (S (S
            (S (S (S (S (S (S (S (S (S (S (S (S (S (S (S (S (S (S (S (S (S (S
            (S (S (S (S (S (S (S (S (S (S (S (S (S (S (S (S (S (S (S (S (S (S
            (S (S (S (S (S (S (S (S (S (S (S (S (S (S (S (S (S (S (S (S (S (S
            (S (S (S (S (S (S (S (S (S (S (S (S (S (S (S (S (S (S (S (S (S (S
            (S (S (S (S (S (S (S (S (S (S (S (S (S (S (S (S (S (S (S (S (S (S
            (S (S (S (S (S (S (S (S (S (S (S (S (S (S (S (S (S (S (S (S (S (S
            (S (S (S (S (S (S (S (S (S (S (S (S (S (S (S (S (S (S (S (S (S (S
            (S (S (S (S (S (S (S (S (S (S (S (S (S (S (S (S (S (S (S (S (S (S
            (S (S (S (S (S (S (S (S (S (S (S (S (S (S (S (S (S (S (S (S (S (S
            (S (S (S (S (S (S (S (S (S (S (S (S (S (S (S (S (S (S (S (S (S (S
            (S (S (S (S (S (S (S (S (S (S (S (S (S (S (S (S (S (S (S (S (S (S
            (S (S (S (S (S (S (S (S (S (S (S (S (S (S (S (S (S (S (S (S (S (S
            (S (S (S (S (S (S (S (S (S (S (S (S (S (S (S (S (S (S (S (S (S (S
            (S (S (S (S (S (S (S (S (S (S (S (S (S (S (S (S (S (S (S (S (S (S
            (S (S (S (S (S (S (S (S (S (S (S (S (S (S (S (S (S (S (S (S (S (S
            (S (S (S (S (S (S (S (S (S (S (S (S (S (S (S (S (S (S (S (S (S (S
            (S (S (S (S (S (S (S (S (S (S (S (S (S (S (S (S (S (S (S (S (S (S
            (S (S (S (S (S (S (S (S (S (S (S (S (S (S (S (S (S (S (S (S (S (S
            (S (S (S (S (S (S (S (S (S (S (S (S (S (S (S (S (S (S (S (S (S (S
            (S (S (S (S (S (S (S (S (S (S (S (S (S (S (S (S (S (S (S (S (S (S
            (S (S (S (S (S (S (S (S (S (S (S (S (S (S (S (S (S (S (S (S (S (S
            (S (S (S (S (S (S (S (S (S (S (S (S (S (S (S (S (S (S (S (S (S (S
            (S (S (S (S (S (S (S (S (S (S (S (S (S (S (S (S (S (S (S (S (S (S
            (S (S (S (S (S (S (S (S (S (S (S (S (S (S (S (S (S (S (S (S (S (S
            (S (S (S (S (S (S (S (S (S (S (S (S (S (S (S (S (S (S (S (S (S (S
            (S (S (S (S
            O))))))))))))))))))))))))))))))))))))))))))))))))))))))))))))))))))))))))))))))))))))))))))))))))))))))))))))))))))))))))))))))))))))))))))))))))))))))))))))))))))))))))))))))))))))))))))))))))))))))))))))))))))))))))))))))))))))))))))))))))))))))))))))))))))))))))))))))))))))))))))))))))))))))))))))))))))))))))))))))))))))))))))))))))))))))))))))))))))))))))))))))))))))))))))))))))))))))))))))))))))))))))))))))))))))))))))))))))))))))))))))))))))))))))))))))))))))))))))))))))))))))))))))))))))))))))))))))))))))))))))))))))))))))))))))))))))))))))))))))))))))))))))))))))))))))))))))))))))))))
            (S (S (S (S (S (S (S (S (S (S (S (S (S (S (S (S (S (S (S (S (S (S
            (S (S (S (S (S (S (S (S (S (S (S (S (S (S (S (S (S (S (S (S (S (S
            (S (S (S (S (S (S (S (S (S (S (S (S (S (S (S (S (S (S (S (S (S (S
            (S (S (S (S (S (S (S (S (S (S (S (S (S (S (S (S (S (S (S (S (S (S
            (S (S (S (S (S (S (S (S (S (S (S (S (S (S (S (S (S (S (S (S (S (S
            (S (S (S (S (S (S (S (S (S (S (S (S (S (S (S (S (S (S (S (S (S (S
            (S (S (S (S (S (S (S (S (S (S (S (S (S (S (S (S (S (S (S (S (S (S
            (S (S (S (S (S (S (S (S (S (S (S (S (S (S (S (S (S (S (S (S (S (S
            (S (S (S (S (S (S (S (S (S (S (S (S (S (S (S (S (S (S (S (S (S (S
            (S (S (S (S (S (S (S (S (S (S (S (S (S (S (S (S (S (S (S (S (S (S
            (S (S (S (S (S (S (S (S (S (S (S (S (S (S (S (S (S (S (S (S (S (S
            (S (S (S (S (S (S (S (S (S (S (S (S (S (S (S (S (S (S (S (S (S (S
            (S (S (S (S (S (S (S (S (S (S (S (S (S (S (S (S (S (S (S (S (S (S
            (S (S (S (S (S (S (S (S (S (S (S (S (S (S (S (S (S (S (S (S (S (S
            (S (S (S (S (S (S (S (S (S (S (S (S (S (S (S (S (S (S (S (S (S (S
            (S (S (S (S (S (S (S (S (S (S (S (S (S (S (S (S (S (S (S (S (S (S
            (S (S (S (S (S (S (S (S (S (S (S (S (S (S (S (S (S (S (S (S (S (S
            (S (S (S (S (S (S (S (S (S (S (S (S (S (S (S (S (S (S (S (S (S (S
            (S (S (S (S (S (S (S (S (S (S (S (S (S (S (S (S (S (S (S (S (S (S
            (S (S (S (S (S (S (S (S (S (S (S (S (S (S (S (S (S (S (S (S (S (S
            (S (S (S (S (S (S (S (S (S (S (S (S (S (S (S (S (S (S (S (S (S (S
            (S (S (S (S (S (S (S (S (S (S (S (S (S (S (S (S (S (S (S (S (S (S
            (S (S (S (S (S (S (S (S (S (S (S (S (S (S (S (S (S (S (S (S (S (S
            (S (S (S (S (S (S (S (S (S (S (S (S (S (S (S (S (S (S (S (S (S (S
            (S (S (S (S (S (S (S (S (S (S (S (S (S (S (S (S (S (S (S (S (S (S
            (S (S (S (S (S (S (S (S (S (S (S (S (S (S (S (S (S (S (S (S (S (S
            (S (S (S (S (S (S (S (S (S (S (S (S (S (S (S (S (S (S (S (S (S (S
            (S (S (S (S (S
            O))))))))))))))))))))))))))))))))))))))))))))))))))))))))))))))))))))))))))))))))))))))))))))))))))))))))))))))))))))))))))))))))))))))))))))))))))))))))))))))))))))))))))))))))))))))))))))))))))))))))))))))))))))))))))))))))))))))))))))))))))))))))))))))))))))))))))))))))))))))))))))))))))))))))))))))))))))))))))))))))))))))))))))))))))))))))))))))))))))))))))))))))))))))))))))))))))))))))))))))))))))))))))))))))))))))))))))))))))))))))))))))))))))))))))))))))))))))))))))))))))))))))))))))))))))))))))))))))))))))))))))))))))))))))))))))))))))))))))))))))))))))))))))))))))))))))))))))))))))))))
          (fun ab0 ->
          let (lt', gte) = ab0 in
          let inter0 = Page (level0, None, ((Node (k, v, None)) :: []), None)
          in
          bind
            (match gte with
             | Some g -> insert_high_page inter0 g
             | None -> Ok inter0) (fun inter1 ->
            bind
              (match rest with
               | Some old ->
                 bind
                   (assert0 (ogt (max_key old) k) (S (S (S (S (S (S (S (S (S
                     (S (S (S (S (S (S (S (S (S (S (S (S (S (S (S (S (S (S (S
                     (S (S (S (S (S (S (S (S (S (S (S (S (S (S (S (S (S (S (S
                     (S (S (S (S (S (S (S (S (S (S (S (S (S (S (S (S (S (S (S
                     (S (S (S (S (S (S (S (S (S (S (S (S (S (S (S (S (S (S (S
                     (S (S (S (S (S (S (S (S (S (S (S (S (S (S (S (S (S (S (S
                     (S (S (S (S (S (S (S (S (S (S (S (S (S (S (S (S (S (S (S
                     (S (S (S (S (S (S (S (S (S (S (S (S (S (S (S (S (S (S (S
                     (S (S (S (S (S (S (S (S (S (S (S (S (S (S (S (S (S (S (S
                     (S (S (S (S (S (S (S (S (S (S (S (S (S (S (S (S (S (S (S
                     (S (S (S (S (S (S (S (S (S (S (S (S (S (S (S (S (S (S (S
                     (S (S (S (S (S (S (S (S (S (S (S (S (S (S (S (S (S (S (S
                     (S (S (S (S (S (S (S (S (S (S (S (S (S (S (S (S (S (S (S
                     (S (S (S (S (S (S (S (S (S (S (S (S (S (S (S (S (S (S (S
                     (S (S (S (S (S (S (S (S (S (S (S (S (S (S (S (S (S (S (S
                     (S (S (S (S (S (S (S (S (S (S (S (S (S (S (S (S (S (S (S
                     (S (S (S (S (S (S (S (S (S (S (S (S (S (S (S (S (S (S (S
                     (S (S (S (S (S (S (S (S (S (S (S (S (S (S (S (S (S (S (S
                     (S (S (S (S (S (S (S (S (S (S (S (S (S (S (S (S (S (S (S
                     (S (S (S (S (S (S (S (S (S (S (S (S (S (S (S (S (S (S (S
                     (S (S (S (S (S (S (S (S (S (S (S (S (S (S (S (S (S (S (S
                     (S (S (S (S (S (S (S (S (S (S (S (S (S (S (S (S (S (S (S
                     (S (S (S (S (S (S (S (S (S (S (S (S (S (S (S (S (S (S (S
                     (S (S (S (S (S (S (S (S (S (S (S (S (S (S (S (S (S (S (S
                     (S (S (S (S (S (S (S (S (S (S (S (S (S (S (S (S (S (S (S
                     (S (S (S (S (S (S (S (S (S (S (S (S (S (S (S (S (S (S (S
                     (S (S (S (S (S (S (S (S (S (S (S (S (S (S (S (S (S (S (S
                     (S (S (S (S (S (S (S (S (S (S (S (S (S (S (S (S (S (S (S
                     (S (S (S (S (S (S (S (S (S (S (S (S (S (S (S (S (S (S (S
                     (S (S (S (S (S (S (S (S (S (S (S (S (S (S (S (S (S (S (S
                     (S (S (S (S (S (S (S (S (S (S (S (S (S (S (S (S (S (S (S
                     (S (S (S (S (S (S (S (S (S (S (S (S (S (S (S (S (S (S (S
                     (S (S (S (S (S (S (S (S (S (S (S (S (S (S (S (S (S (S (S
                     (S (S (S (S (S (S (S (S (S (S (S (S (S (S (S (S
                     O))))))))))))))))))))))))))))))))))))))))))))))))))))))))))))))))))))))))))))))))))))))))))))))))))))))))))))))))))))))))))))))))))))))))))))))))))))))))))))))))))))))))))))))))))))))))))))))))))))))))))))))))))))))))))))))))))))))))))))))))))))))))))))))))))))))))))))))))))))))))))))))))))))))))))))))))))))))))))))))))))))))))))))))))))))))))))))))))))))))))))))))))))))))))))))))))))))))))))))))))))))))))))))))))))))))))))))))))))))))))))))))))))))))))))))))))))))))))))))))))))))))))))))))))))))))))))))))))))))))))))))))))))))))))))))))))))))))))))))))))))))))))))))))))))))))))))))))))))))))))))))))))))))))))))))))))))))))))))
                   (fun _ ->
                   bind
                     (assert0 (N.ltb (plvl old) level0) (S (S (S (S (S (S (S
                       (S (S (S (S (S (S (S (S (S (S (S (S (S (S (S (S (S (S
                       (S (S (S (S (S (S (S (S (S (S (S (S (S (S (S (S (S (S
                       (S (S (S (S (S (S (S (S (S (S (S (S (S (S (S (S (S (S
                       (S (S (S (S (S (S (S (S (S (S (S (S (S (S (S (S (S (S
                       (S (S (S (S (S (S (S (S (S (S (S (S (S (S (S (S (S (S
                       (S (S (S (S (S (S (S (S (S (S (S (S (S (S (S (S (S (S
                       (S (S (S (S (S (S (S (S (S (S (S (S (S (S (S (S (S (S
                       (S (S (S (S (S (S (S (S (S (S (S (S (S (S (S (S (S (S
                       (S (S (S (S (S (S (S (S (S (S (S (S (S (S (S (S (S (S
                       (S (S (S (S (S (S (S (S (S (S (S (S (S (S (S (S (S (S
                       (S (S (S (S (S (S (S (S (S (S (S (S (S (S (S (S (S (S
                       (S (S (S (S (S (S (S (S (S (S (S (S (S (S (S (S (S (S
                       (S (S (S (S (S (S (S (S (S (S (S (S (S (S (S (S (S (S
                       (S (S (S (S (S (S (S (S (S (S (S (S (S (S (S (S (S (S
                       (S (S (S (S (S (S (S (S (S (S (S (S (S (S (S (S (S (S
                       (S (S (S (S (S (S (S (S (S (S (S (S (S (S (S (S (S (S
                       (S (S (S (S (S (S (S (S (S (S (S (S (S (S (S (S (S (S
                       (S (S (S (S (S (S (S (S (S (S (S (S (S (S (S (S (S (S
                       (S (S (S (S (S (S (S (S (S (S (S (S (S (S (S (S (S (S
                       (S (S (S (S (S (S (S (S (S (S (S (S (S (S (S (S (S (S
                       (S (S (S (S (S (S (S (S (S (S (S (S (S (S (S (S (S (S
                       (S (S (S (S (S (S (S (S (S (S (S (S (S (S (S (S (S (S
                       (S (S (S (S (S (S (S (S (S (S (S (S (S (S (S (S (S (S
                       (S (S (S (S (S (S (S (S (S (S (S (S (S (S (S (S (S (S
                       (S (S (S (S (S (S (S (S (S (S (S (S (S (S (S (S (S (S
                       (S (S (S (S (S (S (S (S (S (S (S (S (S (S (S (S (S (S
                       (S (S (S (S (S (S (S (S (S (S (S (S (S (S (S (S (S (S
                       (S (S (S (S (S (S (S (S (S (S (S (S (S (S (S (S (S (S
                       (S (S (S (S (S (S (S (S (S (S (S (S (S (S (S (S (S (S
                       (S (S (S (S (S (S (S (S (S (S (S (S (S (S (S (S (S (S
                       (S (S (S (S (S (S (S (S (S (S (S (S (S (S (S (S (S (S
                       (S (S (S (S (S (S (S (S (S (S (S (S (S (S (S (S (S (S
                       (S (S (S (S (S (S (S (S (S (S (S (S (S (S (S (S (S (S
                       (S (S (S (S (S (S (S (S (S (S (S (S (S (S (S (S (S (S
                       (S (S (S (S (S (S (S (S (S (S (S (S (S (S (S
                       O)))))))))))))))))))))))))))))))))))))))))))))))))))))))))))))))))))))))))))))))))))))))))))))))))))))))))))))))))))))))))))))))))))))))))))))))))))))))))))))))))))))))))))))))))))))))))))))))))))))))))))))))))))))))))))))))))))))))))))))))))))))))))))))))))))))))))))))))))))))))))))))))))))))))))))))))))))))))))))))))))))))))))))))))))))))))))))))))))))))))))))))))))))))))))))))))))))))))))))))))))))))))))))))))))))))))))))))))))))))))))))))))))))))))))))))))))))))))))))))))))))))))))))))))))))))))))))))))))))))))))))))))))))))))))))))))))))))))))))))))))))))))))))))))))))))))))))))))))))))))))))))))))))))))))))))))))))))))))))
                     (fun _ -> Ok (Some old)))
               | None -> Ok (phigh inter1)) (fun hp' -> Ok (Page (level0,
              (pcache inter1), ((Node (k, v, lt')) :: []), hp'))))))))

type ('digest, 'v) upres =
| Complete of ('digest, 'v) page
| InsertIntermediate

(** val child_upsert :
    bool -> (('a1, 'a2) page -> n -> n -> 'a2 -> ('a1, 'a2) upres res) -> n
    -> n -> 'a2 -> ('a1, 'a2) page option -> ('a1, 'a2) page option res **)

let child_upsert fixed rec0 k level0 v = function
| Some ch ->
  bind (rec0 ch k level0 v) (fun r ->
    match r with
    | Complete ch' -> Ok (Some ch')
    | InsertIntermediate ->
      bind (insert_intermediate fixed ch k level0 v) (fun ch' -> Ok (Some
        ch')))
| None -> Ok (Some (Page (level0, None, ((Node (k, v, None)) :: []), None)))

(** val upsert_descend :
    bool -> (('a1, 'a2) page -> n -> n -> 'a2 -> ('a1, 'a2) upres res) -> n
    -> ('a1, 'a2) page option -> n -> n -> 'a2 -> ('a1, 'a2) node list ->
    ('a1, 'a2) node list -> ('a1, 'a2) upres res **)

let rec upsert_descend fixed rec0 lvl hp k level0 v pre = function
| [] ->
  bind (child_upsert fixed rec0 k level0 v hp) (fun hp' -> Ok (Complete (Page
    (lvl, None, (rev pre), hp'))))
| n0 :: r ->
  if N.leb k (nkey n0)
  then bind
         (assert0 (N.ltb k (nkey n0)) (S (S (S (S (S (S (S (S (S (S (S (S (S
           (S (S (S (S (S (S (S (S (S (S (S (S (S (S (S (S (S (S (S (S (S (S
           (S (S (S (S (S (S (S (S (S (S (S (S (S (S (S (S (S (S (S (S (S (S
           (S (S (S (S (S (S (S (S (S (S (S (S (S (S (S (S (S (S (S (S (S (S
           (S (S (S (S (S (S (S (S (S (S (S (S (S (S (S (S (S (S (S (S (S (S
           (S (S (S (S (S (S (S (S (S (S (S (S (S (S (S (S (S (S (S (S (S (S
           (S (S (S (S (S (S (S (S (S (S (S (S (S (S (S (S (S (S (S (S (S (S
           (S (S (S (S (S (S (S (S (S (S (S (S (S (S (S (S (S (S (S (S (S (S
           (S (S (S (S (S (S (S (S (S (S (S (S (S (S (S (S (S (S (S (S (S (S
           (S (S (S (S (S (S (S (S (S (S (S (S (S (S (S (S (S (S (S (S (S (S
           (S (S (S (S (S (S (S (S (S (S (S (S (S (S (S (S (S (S (S (S (S (S
           (S (S (S (S (S (S (S (S (S (S (S
           O)))))))))))))))))))))))))))))))))))))))))))))))))))))))))))))))))))))))))))))))))))))))))))))))))))))))))))))))))))))))))))))))))))))))))))))))))))))))))))))))))))))))))))))))))))))))))))))))))))))))))))))))))))))))))))))))))))))))))))))))))))))
         (fun _ ->
         bind (child_upsert fixed rec0 k level0 v (nlt n0)) (fun lt' -> Ok
           (Complete (Page (lvl, None,
           (app (rev pre) ((set_lt n0 lt') :: r)), hp)))))
  else upsert_descend fixed rec0 lvl hp k level0 v (n0 :: pre) r

(** val upsert_page :
    bool -> ('a1, 'a2) page -> n -> n -> 'a2 -> ('a1, 'a2) upres res **)

let rec upsert_page fixed p k level0 v =
  let Page (lvl, _, ns, hp) = p in
  if N.ltb level0 lvl
  then bind
         (assert0
           (negb (N.eqb lvl (Npos (XI (XI (XI (XI (XI (XI (XI XH)))))))))) (S
           (S (S (S (S (S (S (S (S (S (S (S (S (S (S (S (S (S (S (S (S (S (S
           (S (S (S (S (S (S (S (S (S (S (S (S (S (S (S (S (S (S (S (S (S (S
           (S (S (S (S (S (S (S (S (S (S (S (S (S (S (S (S (S (S (S (S (S (S
           (S (S (S (S (S (S (S (S (S (S (S (S (S (S (S (S (S (S (S (S (S (S
           (S (S (S (S (S (S (S (S (S (S (S (S (S (S (S (S (S (S (S (S (S (S
           (S (S (S (S (S (S (S (S (S (S (S (S (S (S (S (S (S (S (S (S (S (S
           (S (S (S (S (S (S (S (S (S (S (S (S (S (S (S (S (S (S (S (S (S (S
           (S (S (S (S (S (S (S (S (S (S (S (S (S (S (S (S (S (S (S (S (S (S
           (S (S (S (S (S (S (S (S (S (S (S (S (S (S (S (S (S (S (S (S (S (S
           (S (S (S (S (S (S (S (S (S (S (S (S (S (S (S (S (S (S (S (S (S (S
           (S (S (S (S (S (S (S (S (S (S (S (S
           O))))))))))))))))))))))))))))))))))))))))))))))))))))))))))))))))))))))))))))))))))))))))))))))))))))))))))))))))))))))))))))))))))))))))))))))))))))))))))))))))))))))))))))))))))))))))))))))))))))))))))))))))))))))))))))))))))))))))))
         (fun _ ->
         bind
           (assert0 (nonempty p) (S (S (S (S (S (S (S (S (S (S (S (S (S (S (S
             (S (S (S (S (S (S (S (S (S (S (S (S (S (S (S (S (S (S (S (S (S
             (S (S (S (S (S (S (S (S (S (S (S (S (S (S (S (S (S (S (S (S (S
             (S (S (S (S (S (S (S (S (S (S (S (S (S (S (S (S (S (S (S (S (S
             (S (S (S (S (S (S (S (S (S (S (S (S (S (S (S (S (S (S (S (S (S
             (S (S (S (S (S (S (S (S (S (S (S (S (S (S (S (S (S (S (S (S (S
             (S (S (S (S (S (S (S (S (S (S (S (S (S (S (S (S (S (S (S (S (S
             (S (S (S (S (S (S (S (S (S (S (S (S (S (S (S (S (S (S (S (S (S
             (S (S (S (S (S (S (S (S (S (S (S (S (S (S (S (S (S (S (S (S (S
             (S (S (S (S (S (S (S (S (S (S (S (S (S (S (S (S (S (S (S (S (S
             (S (S (S (S (S (S (S (S (S (S (S (S (S (S (S (S (S (S (S (S (S
             (S (S (S (S (S (S (S (S (S
             O)))))))))))))))))))))))))))))))))))))))))))))))))))))))))))))))))))))))))))))))))))))))))))))))))))))))))))))))))))))))))))))))))))))))))))))))))))))))))))))))))))))))))))))))))))))))))))))))))))))))))))))))))))))))))))))))))))))))))))
           (fun _ ->
           upsert_descend fixed (upsert_page fixed) lvl hp k level0 v [] ns))
  else if N.eqb level0 lvl
       then bind (upsert_node fixed p k v) (fun p' -> Ok (Complete (Page
              ((plvl p'), None, (pnodes p'), (phigh p')))))
       else Ok InsertIntermediate

type ('digest, 'v) mst = { root : ('digest, 'v) page;
                           root_hash : 'digest option }

(** val mst_init : ('a1, 'a2) mst **)

let mst_init =
  { root = (Page (N0, None, [], None)); root_hash = None }

(** val mst_upsert :
    bool -> ('a1, 'a2) mst -> n -> n -> 'a2 -> ('a1, 'a2) mst res **)

let mst_upsert fixed t k level0 v =
  bind (upsert_page fixed t.root k level0 v) (fun r ->
    match r with
    | Complete p' -> Ok { root = p'; root_hash = None }
    | InsertIntermediate ->
      if nonempty t.root
      then bind (insert_intermediate fixed t.root k level0 v) (fun p' -> Ok
             { root = p'; root_hash = None })
      else Ok { root = (Page (level0, None, ((Node (k, v, None)) :: []),
             None)); root_hash = None })

(** val gen_opt :
    (('a1, 'a2) page -> ('a1, 'a2) page * 'a1) -> ('a1, 'a2) page option ->
    ('a1, 'a2) page option * ('a1, 'a2) tok list **)

let gen_opt rec0 = function
| Some c -> let (c', d) = rec0 c in ((Some c'), ((TD d) :: []))
| None -> (None, [])

(** val gen_nodes :
    (('a1, 'a2) page -> ('a1, 'a2) page * 'a1) -> ('a1, 'a2) node list ->
    ('a1, 'a2) node list * ('a1, 'a2) tok list **)

let rec gen_nodes rec0 = function
| [] -> ([], [])
| n0 :: r ->
  let (lt', t1) = gen_opt rec0 (nlt n0) in
  let (r', t2) = gen_nodes rec0 r in
  (((set_lt n0 lt') :: r'),
  (app t1 (app ((TK (nkey n0)) :: ((TV (nval n0)) :: [])) t2)))

(** val gen_hash :
    (('a1, 'a2) tok list -> 'a1) -> ('a1, 'a2) page -> ('a1, 'a2) page * 'a1 **)

let rec gen_hash h p = match p with
| Page (lvl, cache, ns, hp) ->
  (match cache with
   | Some d -> (p, d)
   | None ->
     let (ns', toks) = gen_nodes (gen_hash h) ns in
     let (hp', t3) = gen_opt (gen_hash h) hp in
     let d = h (app toks t3) in ((Page (lvl, (Some d), ns', hp')), d))

(** val mst_root_hash :
    (('a1, 'a2) tok list -> 'a1) -> ('a1, 'a2) mst -> ('a1, 'a2) mst * 'a1 **)

let mst_root_hash h t =
  let (p, d) = gen_hash h t.root in ({ root = p; root_hash = (Some d) }, d)

(** val min_subtree_key : ('a1, 'a2) page -> n res **)

let rec min_subtree_key = function
| Page (_, _, ns, _) ->
  (match ns with
   | [] ->
     Panic (S (S (S (S (S (S (S (S (S (S (S (S (S (S (S (S (S (S (S (S (S (S
       (S (S (S (S (S (S (S (S (S (S (S (S (S (S (S (S (S (S (S (S (S (S (S
       (S (S (S (S (S (S (S (S (S (S (S (S (S (S (S (S (S (S (S (S (S (S (S
       (S (S (S (S (S (S (S (S (S (S (S (S (S (S (S (S (S (S (S (S (S (S (S
       (S (S (S (S (S (S (S (S (S (S (S (S (S (S (S (S (S (S (S (S (S (S (S
       (S (S (S (S (S (S (S (S (S (S (S (S (S (S (S
       O)))))))))))))))))))))))))))))))))))))))))))))))))))))))))))))))))))))))))))))))))))))))))))))))))))))))))))))))))))))))))))))))))
   | n0 :: _ ->
     (match nlt n0 with
      | Some c -> min_subtree_key c
      | None -> Ok (nkey n0)))

(** val max_subtree_key : ('a1, 'a2) page -> n res **)

let rec max_subtree_key p = match p with
| Page (_, _, _, hp) ->
  (match hp with
   | Some h -> max_subtree_key h
   | None ->
     (match max_key p with
      | Some k -> Ok k
      | None ->
        Panic (S (S (S (S (S (S (S (S (S (S (S (S (S (S (S (S (S (S (S (S (S
          (S (S (S (S (S (S (S (S (S (S (S (S (S (S (S (S (S (S (S (S (S (S
          (S (S (S (S (S (S (S (S (S (S (S (S (S (S (S (S (S (S (S (S (S (S
          (S (S (S (S (S (S (S (S (S (S (S (S (S (S (S (S (S (S (S (S (S (S
          (S (S (S (S (S (S (S (S (S (S (S (S (S (S (S (S (S (S (S (S (S (S
          (S (S (S (S (S (S (S (S (S (S (S (S (S (S (S (S (S (S (S (S (S (S
          (S (S (S (S (S (S (S (S (S (S
          O)))))))))))))))))))))))))))))))))))))))))))))))))))))))))))))))))))))))))))))))))))))))))))))))))))))))))))))))))))))))))))))))))))))))))))))))

type 'digest prange = { ps : n; pe : n; ph : 'digest }

(** val range_of : ('a1, 'a2) page -> 'a1 prange res **)

let range_of p =
  bind (min_subtree_key p) (fun s ->
    bind (max_subtree_key p) (fun e ->
      match pcache p with
      | Some d -> Ok { ps = s; pe = e; ph = d }
      | None ->
        Panic (S (S (S (S (S (S (S (S (S (S (S (S (S (S (S (S (S (S (S (S (S
          (S (S (S (S (S (S (S (S (S (S (S (S (S (S (S (S (S (S (S (S (S (S
          (S (S (S (S (S (S (S (S (S (S (S (S (S (S (S (S (S (S (S (S (S (S
          (S (S (S (S (S (S (S (S (S (S (S (S (S (S (S (S (S (S (S (S (S (S
          (S (S (S (S (S (S (S (S (S (S (S (S (S (S (S (S (S (S (S (S (S (S
          (S (S (S (S (S (S (S (S (S (S (S (S (S (S (S (S (S
          O))))))))))))))))))))))))))))))))))))))))))))))))))))))))))))))))))))))))))))))))))))))))))))))))))))))))))))))))))))))))))))))))

type ('digest, 'v) ev =
| EIn of ('digest, 'v) page * bool
| EOut of ('digest, 'v) page
| EPre of ('digest, 'v) node
| EVisit of ('digest, 'v) node
| EPost of ('digest, 'v) node

type ('digest, 'v) vst = { cnt : nat; evs : ('digest, 'v) ev list }

(** val cb :
    (nat -> bool) -> ('a1, 'a2) ev -> ('a1, 'a2) vst -> ('a1, 'a2) vst * bool **)

let cb answers e s =
  ({ cnt = (S s.cnt); evs = (e :: s.evs) }, (answers s.cnt))

(** val trav :
    (nat -> bool) -> ('a1, 'a2) page -> bool -> ('a1, 'a2) vst -> ('a1, 'a2)
    vst * bool **)

let rec trav answers p hp s =
  let Page (_, _, ns, high) = p in
  let (s0, b) = cb answers (EIn (p, hp)) s in
  if negb b
  then (s0, false)
  else let (s1, b0) =
         let rec go ns0 s1 =
           match ns0 with
           | [] -> (s1, true)
           | n0 :: r ->
             let (s2, b0) = cb answers (EPre n0) s1 in
             if negb b0
             then (s2, false)
             else let (s3, b1) =
                    match nlt n0 with
                    | Some c -> trav answers c false s2
                    | None -> (s2, true)
                  in
                  if negb b1
                  then (s3, false)
                  else let (s4, b2) = cb answers (EVisit n0) s3 in
                       if negb b2
                       then (s4, false)
                       else let (s5, b3) = cb answers (EPost n0) s4 in
                            if negb b3 then (s5, false) else go r s5
         in go ns s0
       in
       if negb b0
       then (s1, false)
       else let (s2, b1) = cb answers (EOut p) s1 in
            if negb b1
            then (s2, false)
            else (match high with
                  | Some h -> trav answers h true s2
                  | None -> (s2, true))

(** val traverse :
    (nat -> bool) -> ('a1, 'a2) mst -> ('a1, 'a2) ev list * bool **)

let traverse answers t =
  let (s, b) = trav answers t.root false { cnt = O; evs = [] } in
  ((rev s.evs), b)

(** val ranges_page : ('a1, 'a2) page -> 'a1 prange list res **)

let rec ranges_page p = match p with
| Page (_, _, ns, high) ->
  bind (range_of p) (fun r0 ->
    bind
      (let rec go = function
       | [] -> Ok []
       | n0 :: r ->
         bind (match nlt n0 with
               | Some c -> ranges_page c
               | None -> Ok []) (fun a -> bind (go r) (fun b -> Ok (app a b)))
       in go ns) (fun rs ->
      bind (match high with
            | Some h -> ranges_page h
            | None -> Ok []) (fun rh -> Ok (r0 :: (app rs rh)))))

(** val mst_serialise : ('a1, 'a2) mst -> 'a1 prange list option res **)

let mst_serialise t =
  match t.root_hash with
  | Some _ ->
    if nonempty t.root
    then bind (ranges_page t.root) (fun l -> Ok (Some l))
    else Ok (Some [])
  | None -> Ok None

type vstate =
| Unvisited
| Descended

type ('digest, 'v) pvisit = { pv_page : ('digest, 'v) page; pv_idx : 
                              nat; pv_state : vstate }

type ('digest, 'v) iter_res =
| IDone
| IYield of ('digest, 'v) node * ('digest, 'v) pvisit list
| IPanic of nat
| IFuel

(** val iter_next : nat -> ('a1, 'a2) pvisit list -> ('a1, 'a2) iter_res **)

let rec iter_next fuel stack =
  match fuel with
  | O -> IFuel
  | S f ->
    (match stack with
     | [] -> IDone
     | p :: stack0 ->
       (match nth_error (pnodes p.pv_page) p.pv_idx with
        | Some n0 ->
          let yield = IYield (n0, ({ pv_page = p.pv_page; pv_idx = (S
            p.pv_idx); pv_state = Unvisited } :: stack0))
          in
          (match p.pv_state with
           | Unvisited ->
             (match nlt n0 with
              | Some lt ->
                iter_next f ({ pv_page = lt; pv_idx = O; pv_state =
                  Unvisited } :: ({ pv_page = p.pv_page; pv_idx = p.pv_idx;
                  pv_state = Descended } :: stack0))
              | None -> yield)
           | Descended ->
             if is_none (nlt n0)
             then IPanic (S (S (S (S (S (S (S (S (S (S (S (S (S (S (S (S (S
                    (S (S (S (S (S (S (S (S (S (S (S (S (S (S (S (S (S (S (S
                    (S (S (S (S (S (S (S (S (S (S (S (S (S (S (S (S (S (S (S
                    (S (S (S (S (S (S (S (S (S (S (S (S (S (S (S (S (S (S (S
                    (S (S (S (S (S (S (S (S (S (S (S (S (S (S (S (S (S (S (S
                    (S (S (S (S (S (S (S (S (S (S (S (S (S (S (S (S (S (S (S
                    (S (S
                    O))))))))))))))))))))))))))))))))))))))))))))))))))))))))))))))))))))))))))))))))))))))))))))))))))))))))))))))))))
             else yield)
        | None ->
          (match phigh p.pv_page with
           | Some h ->
             iter_next f ({ pv_page = h; pv_idx = O; pv_state =
               Unvisited } :: stack0)
           | None -> iter_next f stack0)))

(** val psize : ('a1, 'a2) page -> nat **)

let rec psize = function
| Page (_, _, ns, hp) ->
  S
    (add
      (let rec go = function
       | [] -> O
       | n0 :: r ->
         S (add (match nlt n0 with
                 | Some c -> psize c
                 | None -> O) (go r))
       in go ns) (match hp with
                  | Some h -> psize h
                  | None -> O))

(** val iter_all :
    nat -> nat -> ('a1, 'a2) pvisit list -> ('a1, 'a2) node list res **)

let rec iter_all outer inner stack =
  match outer with
  | O -> Panic O
  | S o ->
    (match iter_next inner stack with
     | IDone -> Ok []
     | IYield (n0, st1) -> bind (iter_all o inner st1) (fun r -> Ok (n0 :: r))
     | IPanic w -> Panic w
     | IFuel -> Fuel)

(** val node_iter : ('a1, 'a2) mst -> ('a1, 'a2) node list res **)

let node_iter t =
  let sz = psize t.root in
  iter_all (S sz) (add (mul (S (S O)) sz) (S (S O))) ({ pv_page = t.root;
    pv_idx = O; pv_state = Unvisited } :: [])

(** val base_count_zero : n -> n -> n **)

let base_count_zero v base =
  if N.eqb v N0
  then Npos (XO XH)
  else if N.eqb (N.modulo v base) N0 then Npos XH else N0

(** val level_go : n list -> n -> n -> n **)

let rec level_go bytes base out =
  match bytes with
  | [] -> out
  | v :: r ->
    (match base_count_zero v base with
     | N0 -> out
     | Npos p ->
       (match p with
        | XI _ -> out
        | XO p0 ->
          (match p0 with
           | XH -> level_go r base (N.add out (Npos (XO XH)))
           | _ -> out)
        | XH -> N.add out (Npos XH)))

(** val level : n list -> n -> n **)

let level bytes base =
  level_go bytes base N0

type drange = { ds : n; de : n }

(** val superset : 'a1 prange -> 'a1 prange -> bool **)

let superset a b =
  (&&) (N.leb a.ps b.ps) (N.leb b.pe a.pe)

(** val overlaps : drange -> drange -> bool **)

let overlaps self p =
  (&&) (N.leb self.ds p.de) (N.leb p.ds self.de)

(** val merge_go : drange -> drange list -> drange list res **)

let rec merge_go last = function
| [] -> Ok (last :: [])
| r :: rest' ->
  bind
    (assert0 (N.leb last.ds r.ds) (S (S (S (S (S (S (S (S (S (S (S (S (S (S
      (S (S (S (S (S (S (S (S (S (S (S (S (S (S (S (S (S (S (S (S (S (S (S (S
      (S (S (S (S (S (S (S (S (S (S (S (S (S (S (S (S (S (S (S (S (S (S (S (S
      (S (S (S (S (S (S (S (S (S (S (S (S (S (S (S (S (S (S (S
      O))))))))))))))))))))))))))))))))))))))))))))))))))))))))))))))))))))))))))))))))))
    (fun _ ->
    if N.leb r.de last.de
    then merge_go last rest'
    else if N.leb r.ds last.de
         then merge_go { ds = last.ds; de = r.de } rest'
         else bind (merge_go r rest') (fun t -> Ok (last :: t)))

(** val merge_overlapping : drange list -> drange list res **)

let merge_overlapping = function
| [] -> Ok []
| x :: r -> merge_go x r

(** val ins : drange -> drange list -> drange list **)

let rec ins x l = match l with
| [] -> x :: []
| y :: r -> if N.leb x.ds y.ds then x :: l else y :: (ins x r)

(** val sort_by_start : drange list -> drange list **)

let sort_by_start l =
  fold_right ins [] l

(** val windows_ok : drange list -> bool **)

let rec windows_ok = function
| [] -> true
| a :: r ->
  (match r with
   | [] -> true
   | b :: _ ->
     (&&)
       ((&&) ((&&) (negb (overlaps a b)) (N.leb a.ds a.de)) (N.leb b.ds b.de))
       (windows_ok r))

(** val windows_nooverlap : drange list -> bool **)

let rec windows_nooverlap = function
| [] -> true
| a :: r ->
  (match r with
   | [] -> true
   | b :: _ -> (&&) (negb (overlaps a b)) (windows_nooverlap r))

(** val into_vec : drange list -> drange list res **)

let into_vec l =
  bind (merge_overlapping (sort_by_start l)) (fun m ->
    bind
      (assert0 (windows_ok m) (S (S (S (S (S (S (S (S (S (S (S (S (S (S (S (S
        (S (S (S (S (S (S (S (S (S (S (S (S (S (S (S (S (S (S (S (S (S (S (S
        O)))))))))))))))))))))))))))))))))))))))) (fun _ -> Ok m))

(** val punch : drange -> drange -> drange list **)

let punch good bad =
  if negb (overlaps good bad)
  then bad :: []
  else app
         (if N.ltb bad.ds good.ds
          then { ds = bad.ds; de = good.ds } :: []
          else [])
         (if N.ltb good.de bad.de
          then { ds = good.de; de = bad.de } :: []
          else [])

(** val reduce_sync_range : drange list -> drange list -> drange list res **)

let reduce_sync_range bad good =
  let bad' = fold_left (fun b g -> flat_map (punch g) b) good bad in
  bind (merge_overlapping bad') (fun m ->
    bind
      (assert0 (windows_nooverlap m) (S (S (S (S (S (S (S (S (S (S (S (S (S
        (S (S (S (S (S (S (S (S (S (S (S (S (S (S (S (S (S (S (S (S (S (S (S
        (S (S (S (S (S (S (S (S (S (S (S (S (S (S (S (S (S (S (S (S (S (S (S
        (S (S (S (S (S (S (S (S (S (S (S (S (S (S (S (S (S (S (S (S (S (S (S
        (S (S (S (S (S (S (S (S (S (S (S (S (S (S (S (S (S (S (S (S (S (S
        O)))))))))))))))))))))))))))))))))))))))))))))))))))))))))))))))))))))))))))))))))))))))))))))))))))))))))
      (fun _ -> Ok m))

type builder = { inc : drange list; con : drange list }

(** val b_inc : builder -> n -> n -> builder res **)

let b_inc b s e =
  bind
    (assert0 (N.leb s e) (S (S (S (S (S (S (S (S (S (S (S (S (S (S (S (S (S
      (S (S (S (S (S (S (S (S (S (S O)))))))))))))))))))))))))))) (fun _ ->
    Ok { inc = (app b.inc ({ ds = s; de = e } :: [])); con = b.con })

(** val b_con : builder -> n -> n -> builder res **)

let b_con b s e =
  bind
    (assert0 (N.leb s e) (S (S (S (S (S (S (S (S (S (S (S (S (S (S (S (S (S
      (S (S (S (S (S (S (S (S (S (S O)))))))))))))))))))))))))))) (fun _ ->
    Ok { inc = b.inc; con = (app b.con ({ ds = s; de = e } :: [])) })

(** val into_diff_vec : builder -> drange list res **)

let into_diff_vec b =
  bind (into_vec b.inc) (fun i ->
    bind (into_vec b.con) (fun c -> reduce_sync_range i c))

type 'digest st0 = { peer : 'digest prange list; loc : 'digest prange list;
                     bld : builder }

(** val advance_within :
    'a1 prange -> 'a1 prange list -> 'a1 prange option * 'a1 prange list **)

let advance_within parent cur = match cur with
| [] -> (None, [])
| p :: r -> if superset parent p then ((Some p), r) else (None, cur)

(** val skip_while :
    ('a1 prange -> bool) -> 'a1 prange list -> 'a1 prange list **)

let rec skip_while f l = match l with
| [] -> []
| x :: r -> if f x then skip_while f r else l

(** val shrink :
    'a1 prange -> 'a1 prange -> 'a1 prange list -> 'a1 prange * 'a1 prange
    list **)

let rec shrink p l cur = match cur with
| [] -> (l, [])
| v :: r -> if superset v p then shrink p v r else (l, cur)

(** val drain :
    'a1 prange -> 'a1 prange list -> builder -> ('a1 prange list * builder)
    res **)

let rec drain root0 cur b =
  match cur with
  | [] -> Ok ([], b)
  | p :: r ->
    if superset root0 p
    then bind (b_inc b p.ps p.pe) (fun b' -> drain root0 r b')
    else Ok (cur, b)

(** val rdiff :
    ('a1 -> 'a1 -> bool) -> nat -> 'a1 prange -> 'a1 prange option -> 'a1 st0
    -> 'a1 st0 res **)

let rec rdiff deqb fuel root0 last_p s =
  match fuel with
  | O -> Fuel
  | S f ->
    let (o, peer1) = advance_within root0 s.peer in
    (match o with
     | Some p ->
       let (o0, loc1) = advance_within p s.loc in
       (match o0 with
        | Some l ->
          bind
            (assert0 (superset root0 p) (S (S (S (S (S (S (S (S (S (S (S (S
              (S (S (S (S (S (S (S (S (S (S (S (S (S (S (S (S (S (S (S (S (S
              (S (S (S (S (S (S (S (S (S (S (S (S (S (S (S (S (S (S (S (S (S
              (S (S (S (S (S (S (S (S (S (S (S (S (S (S (S (S (S (S (S (S (S
              (S (S (S (S (S (S (S (S (S (S (S (S (S (S (S (S (S (S (S (S (S
              (S (S (S (S (S (S (S (S (S (S (S (S (S (S (S (S (S (S (S (S (S
              (S (S (S (S (S (S (S (S (S (S (S (S (S (S (S (S (S (S (S (S (S
              (S (S (S (S (S (S (S (S (S (S (S (S (S (S (S (S (S (S (S (S (S
              (S (S (S (S (S (S (S (S (S (S (S (S (S (S (S (S (S (S (S (S (S
              (S (S (S (S (S (S (S (S (S (S (S (S (S (S (S (S (S (S (S (S (S
              (S (S (S (S (S (S (S (S (S (S (S (S (S (S (S (S (S (S (S (S (S
              (S (S (S (S (S (S (S (S (S (S (S (S (S (S (S (S (S (S (S (S (S
              (S (S (S (S (S (S (S (S (S (S (S (S (S (S (S (S (S (S (S (S (S
              (S (S (S (S (S (S (S (S
              O)))))))))))))))))))))))))))))))))))))))))))))))))))))))))))))))))))))))))))))))))))))))))))))))))))))))))))))))))))))))))))))))))))))))))))))))))))))))))))))))))))))))))))))))))))))))))))))))))))))))))))))))))))))))))))))))))))))))))))))))))))))))))))))))))))))))))))))))))
            (fun _ ->
            let (l', loc2) = shrink p l loc1 in
            bind
              (if deqb l'.ph p.ph
               then bind (b_con s.bld p.ps p.pe) (fun b -> Ok { peer =
                      (skip_while (superset p) peer1); loc = loc2; bld = b })
               else bind (b_inc s.bld p.ps p.pe) (fun b -> Ok { peer = peer1;
                      loc = loc2; bld = b })) (fun s2 ->
              bind (rdiff deqb f p None s2) (fun s3 ->
                bind (drain p s3.peer s3.bld) (fun pb ->
                  let s4 = { peer = (fst pb); loc = s3.loc; bld = (snd pb) }
                  in
                  rdiff deqb f root0 (Some p) s4))))
        | None ->
          (match s.loc with
           | [] ->
             let start = match last_p with
                         | Some v -> v.pe
                         | None -> root0.ps
             in
             let e = p.pe in
             if N.leb start e
             then bind (b_inc s.bld start e) (fun b -> Ok { peer = peer1;
                    loc = []; bld = b })
             else Ok { peer = peer1; loc = []; bld = s.bld }
           | l0 :: _ ->
             if superset l0 p
             then Ok { peer = peer1; loc = s.loc; bld = s.bld }
             else let start =
                    match last_p with
                    | Some v -> v.pe
                    | None -> root0.ps
                  in
                  let e = N.min l0.ps p.pe in
                  if N.leb start e
                  then bind (b_inc s.bld start e) (fun b -> Ok { peer =
                         peer1; loc = s.loc; bld = b })
                  else Ok { peer = peer1; loc = s.loc; bld = s.bld }))
     | None -> Ok s)

(** val diff :
    ('a1 -> 'a1 -> bool) -> 'a1 prange list -> 'a1 prange list -> drange list
    res **)

let diff deqb local peer_ = match peer_ with
| [] -> Ok []
| root0 :: _ ->
  bind
    (rdiff deqb (S (length peer_)) root0 None { peer = peer_; loc = local;
      bld = { inc = []; con = [] } }) (fun s -> into_diff_vec s.bld)
