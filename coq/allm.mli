
val negb : bool -> bool

type nat =
| O
| S of nat

val fst : ('a1 * 'a2) -> 'a1

val snd : ('a1 * 'a2) -> 'a2

val length : 'a1 list -> nat

val app : 'a1 list -> 'a1 list -> 'a1 list

type comparison =
| Eq
| Lt
| Gt

val add : nat -> nat -> nat

val mul : nat -> nat -> nat

val nth_error : 'a1 list -> nat -> 'a1 option

val rev : 'a1 list -> 'a1 list

val flat_map : ('a1 -> 'a2 list) -> 'a1 list -> 'a2 list

val fold_left : ('a1 -> 'a2 -> 'a1) -> 'a2 list -> 'a1 -> 'a1

val fold_right : ('a2 -> 'a1 -> 'a1) -> 'a1 -> 'a2 list -> 'a1

type positive =
| XI of positive
| XO of positive
| XH

type n =
| N0
| Npos of positive

module Pos :
 sig
  type mask =
  | IsNul
  | IsPos of positive
  | IsNeg
 end

module Coq_Pos :
 sig
  val succ : positive -> positive

  val add : positive -> positive -> positive

  val add_carry : positive -> positive -> positive

  val pred_double : positive -> positive

  type mask = Pos.mask =
  | IsNul
  | IsPos of positive
  | IsNeg

  val succ_double_mask : mask -> mask

  val double_mask : mask -> mask

  val double_pred_mask : positive -> mask

  val sub_mask : positive -> positive -> mask

  val sub_mask_carry : positive -> positive -> mask

  val mul : positive -> positive -> positive

  val iter : ('a1 -> 'a1) -> 'a1 -> positive -> 'a1

  val compare_cont : comparison -> positive -> positive -> comparison

  val compare : positive -> positive -> comparison

  val eqb : positive -> positive -> bool

  val coq_Nsucc_double : n -> n

  val coq_Ndouble : n -> n

  val coq_lor : positive -> positive -> positive

  val coq_land : positive -> positive -> n

  val coq_lxor : positive -> positive -> n

  val shiftl : positive -> n -> positive

  val of_succ_nat : nat -> positive
 end

module N :
 sig
  val succ_double : n -> n

  val double : n -> n

  val add : n -> n -> n

  val sub : n -> n -> n

  val mul : n -> n -> n

  val compare : n -> n -> comparison

  val eqb : n -> n -> bool

  val leb : n -> n -> bool

  val ltb : n -> n -> bool

  val min : n -> n -> n

  val div2 : n -> n

  val pos_div_eucl : positive -> n -> n * n

  val div_eucl : n -> n -> n * n

  val modulo : n -> n -> n

  val coq_lor : n -> n -> n

  val coq_land : n -> n -> n

  val coq_lxor : n -> n -> n

  val shiftl : n -> n -> n

  val shiftr : n -> n -> n

  val of_nat : nat -> n
 end

val w64 : n -> n

val add64 : n -> n -> n

val rotl64 : n -> n -> n

type st = { v0 : n; v1 : n; v2 : n; v3 : n }

val sipround : st -> st

val absorb : st -> n -> st

val le_word : n list -> n

val blocks : nat -> st -> n list -> st * n list

val le_bytes : nat -> n -> n list

val siphash24_128 : n -> n -> n list -> n list

type 'a res =
| Ok of 'a
| Panic of nat
| Fuel

val bind : 'a1 res -> ('a1 -> 'a2 res) -> 'a2 res

val assert0 : bool -> nat -> unit res

type ('digest, 'v) tok =
| TD of 'digest
| TK of n
| TV of 'v

type ('digest, 'v) page =
| Page of n * 'digest option * ('digest, 'v) node list
   * ('digest, 'v) page option
and ('digest, 'v) node =
| Node of n * 'v * ('digest, 'v) page option

val plvl : ('a1, 'a2) page -> n

val pnodes : ('a1, 'a2) page -> ('a1, 'a2) node list

val phigh : ('a1, 'a2) page -> ('a1, 'a2) page option

val pcache : ('a1, 'a2) page -> 'a1 option

val nkey : ('a1, 'a2) node -> n

val nval : ('a1, 'a2) node -> 'a2

val nlt : ('a1, 'a2) node -> ('a1, 'a2) page option

val set_lt : ('a1, 'a2) node -> ('a1, 'a2) page option -> ('a1, 'a2) node

val set_val : ('a1, 'a2) node -> 'a2 -> ('a1, 'a2) node

val max_key : ('a1, 'a2) page -> n option

val min_key : ('a1, 'a2) page -> n option

val nonempty : ('a1, 'a2) page -> bool

val olt : n option -> n -> bool

val ogt : n option -> n -> bool

val is_none : 'a1 option -> bool

val insert_high_page :
  ('a1, 'a2) page -> ('a1, 'a2) page -> ('a1, 'a2) page res

type ('digest, 'v) ret2 =
  (('digest, 'v) page option * ('digest, 'v) page option) res

val orec :
  (('a1, 'a2) page -> n -> ('a1, 'a2) ret2) -> ('a1, 'a2) page option -> n ->
  ('a1, 'a2) ret2

val split_go :
  bool -> (('a1, 'a2) page -> n -> ('a1, 'a2) ret2) -> n -> 'a1 option ->
  ('a1, 'a2) page option -> n -> ('a1, 'a2) node list -> ('a1, 'a2) node list
  -> ('a1, 'a2) ret2

val split_page : bool -> ('a1, 'a2) page -> n -> ('a1, 'a2) ret2

val split_opt : bool -> ('a1, 'a2) page option -> n -> ('a1, 'a2) ret2

val resplit_high :
  bool -> n -> ('a1, 'a2) page option -> n -> nat -> nat -> nat -> nat -> nat
  -> nat -> (('a1, 'a2) page option * ('a1, 'a2) page option) res

val upsert_node_go :
  bool -> n -> 'a1 option -> ('a1, 'a2) page option -> n -> 'a2 -> ('a1, 'a2)
  node list -> ('a1, 'a2) node list -> ('a1, 'a2) page res

val upsert_node : bool -> ('a1, 'a2) page -> n -> 'a2 -> ('a1, 'a2) page res

val insert_intermediate :
  bool -> ('a1, 'a2) page -> n -> n -> 'a2 -> ('a1, 'a2) page res

type ('digest, 'v) upres =
| Complete of ('digest, 'v) page
| InsertIntermediate

val child_upsert :
  bool -> (('a1, 'a2) page -> n -> n -> 'a2 -> ('a1, 'a2) upres res) -> n ->
  n -> 'a2 -> ('a1, 'a2) page option -> ('a1, 'a2) page option res

val upsert_descend :
  bool -> (('a1, 'a2) page -> n -> n -> 'a2 -> ('a1, 'a2) upres res) -> n ->
  ('a1, 'a2) page option -> n -> n -> 'a2 -> ('a1, 'a2) node list -> ('a1,
  'a2) node list -> ('a1, 'a2) upres res

val upsert_page :
  bool -> ('a1, 'a2) page -> n -> n -> 'a2 -> ('a1, 'a2) upres res

type ('digest, 'v) mst = { root : ('digest, 'v) page;
                           root_hash : 'digest option }

val mst_init : ('a1, 'a2) mst

val mst_upsert : bool -> ('a1, 'a2) mst -> n -> n -> 'a2 -> ('a1, 'a2) mst res

val gen_opt :
  (('a1, 'a2) page -> ('a1, 'a2) page * 'a1) -> ('a1, 'a2) page option ->
  ('a1, 'a2) page option * ('a1, 'a2) tok list

val gen_nodes :
  (('a1, 'a2) page -> ('a1, 'a2) page * 'a1) -> ('a1, 'a2) node list -> ('a1,
  'a2) node list * ('a1, 'a2) tok list

val gen_hash :
  (('a1, 'a2) tok list -> 'a1) -> ('a1, 'a2) page -> ('a1, 'a2) page * 'a1

val mst_root_hash :
  (('a1, 'a2) tok list -> 'a1) -> ('a1, 'a2) mst -> ('a1, 'a2) mst * 'a1

val min_subtree_key : ('a1, 'a2) page -> n res

val max_subtree_key : ('a1, 'a2) page -> n res

type 'digest prange = { ps : n; pe : n; ph : 'digest }

val range_of : ('a1, 'a2) page -> 'a1 prange res

type ('digest, 'v) ev =
| EIn of ('digest, 'v) page * bool
| EOut of ('digest, 'v) page
| EPre of ('digest, 'v) node
| EVisit of ('digest, 'v) node
| EPost of ('digest, 'v) node

type ('digest, 'v) vst = { cnt : nat; evs : ('digest, 'v) ev list }

val cb :
  (nat -> bool) -> ('a1, 'a2) ev -> ('a1, 'a2) vst -> ('a1, 'a2) vst * bool

val trav :
  (nat -> bool) -> ('a1, 'a2) page -> bool -> ('a1, 'a2) vst -> ('a1, 'a2)
  vst * bool

val traverse : (nat -> bool) -> ('a1, 'a2) mst -> ('a1, 'a2) ev list * bool

val ranges_page : ('a1, 'a2) page -> 'a1 prange list res

val mst_serialise : ('a1, 'a2) mst -> 'a1 prange list option res

type vstate =
| Unvisited
| Descended

type ('digest, 'v) pvisit = { pv_page : ('digest, 'v) page; pv_idx : 
                              nat; pv_state : vstate }

type ('digest, 'v) iter_res =
| IDone
| IYield of ('digest, 'v) node * ('digest, 'v) pvisit list
| IPanic of nat
| IFuel

val iter_next : nat -> ('a1, 'a2) pvisit list -> ('a1, 'a2) iter_res

val psize : ('a1, 'a2) page -> nat

val iter_all :
  nat -> nat -> ('a1, 'a2) pvisit list -> ('a1, 'a2) node list res

val node_iter : ('a1, 'a2) mst -> ('a1, 'a2) node list res

val base_count_zero : n -> n -> n

val level_go : n list -> n -> n -> n

val level : n list -> n -> n

type drange = { ds : n; de : n }

val superset : 'a1 prange -> 'a1 prange -> bool

val overlaps : drange -> drange -> bool

val merge_go : drange -> drange list -> drange list res

val merge_overlapping : drange list -> drange list res

val ins : drange -> drange list -> drange list

val sort_by_start : drange list -> drange list

val windows_ok : drange list -> bool

val windows_nooverlap : drange list -> bool

val into_vec : drange list -> drange list res

val punch : drange -> drange -> drange list

val reduce_sync_range : drange list -> drange list -> drange list res

type builder = { inc : drange list; con : drange list }

val b_inc : builder -> n -> n -> builder res

val b_con : builder -> n -> n -> builder res

val into_diff_vec : builder -> drange list res

type 'digest st0 = { peer : 'digest prange list; loc : 'digest prange list;
                     bld : builder }

val advance_within :
  'a1 prange -> 'a1 prange list -> 'a1 prange option * 'a1 prange list

val skip_while : ('a1 prange -> bool) -> 'a1 prange list -> 'a1 prange list

val shrink :
  'a1 prange -> 'a1 prange -> 'a1 prange list -> 'a1 prange * 'a1 prange list

val drain :
  'a1 prange -> 'a1 prange list -> builder -> ('a1 prange list * builder) res

val rdiff :
  ('a1 -> 'a1 -> bool) -> nat -> 'a1 prange -> 'a1 prange option -> 'a1 st0
  -> 'a1 st0 res

val diff :
  ('a1 -> 'a1 -> bool) -> 'a1 prange list -> 'a1 prange list -> drange list
  res
