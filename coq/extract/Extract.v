(* Extraction of the executable model for the correspondence check.
   Only ExtrOcamlBasic is used (bool, option, unit, prod, list, sumbool, sumor mapped to OCaml's);
   N, positive, nat stay Coq datatypes; no Extract Constant. *)
From MST Require Import Sip Base TreeM Diff Statements.
Require Extraction ExtrOcamlBasic.
Extraction Blacklist String List Nat.
Extraction "mstmodel.ml" siphash24_128 mst_init mst_upsert mst_root_hash mst_serialise
  node_iter traverse level diff ev_run fresh.
