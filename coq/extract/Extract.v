(* Extraction of the executable model for the correspondence check.
   Only ExtrOcamlBasic is used (Extract Inductive bool/option/unit/list/prod/sumbool/sumor; Extract Inlined
   Constant andb/orb); N, positive, nat stay Coq datatypes; no Extract Constant of ours. *)
From MST Require Import Sip Base TreeM Diff SyncModel.
Require Extraction ExtrOcamlBasic.
Extraction Blacklist String List Nat.
Extraction "mstmodel.ml" siphash24_128 mst_init mst_upsert mst_root_hash mst_serialise
  node_iter traverse level diff ev_run fresh.
