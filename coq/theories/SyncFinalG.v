(* C06 for ANY join-semilattice merge (idempotent, commutative, associative).
   C06, assembled: concrete replicas (incremental trees, caches carried along) under any schedule, followed by
   any continuation of all-pairs pull blocks, end with equal stores and equal root hashes (linear joins). *)
From Coq Require Import PeanoNat Arith.
From MST Require Import Base TreeM Diff Spec TreeUpsert TreeHash TreeInv TreeRanges HistIndep Intervals DiffTrees TreeRL DiffTop DiffMore
  Sync SyncTop SyncRounds SyncG ListUpd SyncModel SyncLimitG.

Section Final.
Variable digest V : Type.
Variable H : list (tok digest V) -> digest.
Variable lvl_of : N -> N.
Hypothesis lvl_of_u8 : forall k, lvl_of k < 255.
Variable deqb : digest -> digest -> bool.
Hypothesis deqb_spec : forall a b, deqb a b = true <-> a = b.
Hypothesis Hinj : forall a b, H a = H b -> a = b.
Variable Val : Type.
Variable val_dec : forall a b : Val, {a = b} + {a <> b}.
Variable vh : Val -> V.
Hypothesis vh_inj : forall a b, vh a = vh b -> a = b.
Variable merge : Val -> Val -> Val.
Hypothesis merge_idem : forall x, merge x x = x.
Hypothesis merge_comm : forall o x, merge o x = merge x o.
Hypothesis merge_assoc : forall a b c, merge a (merge b c) = merge (merge a b) c.

Notation store := (store Val).
Notation store_ok := (store_ok Val).
Notation ser := (ser digest V H lvl_of Val vh).
Notation replica := (replica digest V Val).
Notation ev_run := (ev_run digest V H lvl_of deqb Val vh merge).
Notation a_run := (a_run digest V H lvl_of deqb Val vh merge).
Notation a_step := (a_step digest V H lvl_of deqb Val vh merge).
Notation RI := (RI digest V H lvl_of Val vh).
Notation step := (SyncG.step digest deqb Val merge ser).
Notation runp := (SyncG.runp digest deqb Val merge ser).
Notation r_store := (r_store digest V Val). Notation r_tree := (r_tree digest V Val).
Notation mst_root_hash := (mst_root_hash digest V H).

Definition pulls (es : list (nat * nat)) : list (event Val) := map (fun ij => Pull Val (fst ij) (snd ij)) es.

Lemma a_step_pull S i j : Forall store_ok S -> a_step S (Pull Val i j) = Ok (step S (i, j)).
Proof.
  intros HS. cbn [SyncModel.a_step SyncG.step]. destruct (Nat.eqb i j); [reflexivity|].
  destruct (nth_error S i) as [a|] eqn:Ei; [|reflexivity]. destruct (nth_error S j) as [b|] eqn:Ej; [|reflexivity].
  destruct (diff_ok digest V H deqb deqb_spec Val vh ser (ser_RL digest V H lvl_of lvl_of_u8 Val vh) a b
              (Forall_nth _ _ _ _ HS Ei) (Forall_nth _ _ _ _ HS Ej)) as (rs & Er).
  unfold Sync.pull. rewrite Er. cbn [bind]. reflexivity.
Qed.
Lemma step_store_ok S e : Forall store_ok S -> Forall store_ok (step S e).
Proof.
  intros HS. destruct e as [i j]. cbn [SyncG.step]. destruct (Nat.eqb i j); [exact HS|].
  destruct (nth_error S i) as [a|] eqn:Ei; [|exact HS]. destruct (nth_error S j) as [b|] eqn:Ej; [|exact HS].
  destruct (pull digest deqb Val merge ser a b) as [a'|w|] eqn:Ep; [|exact HS|exact HS].
  apply SyncG.Forall_upd; [exact HS|]. unfold Sync.pull in Ep.
  destruct (diff digest deqb (ser a) (ser b)) as [rs|w|]; cbn [bind] in Ep; try discriminate. injection Ep as <-.
  apply apply_fetched_ok. exact (Forall_nth _ _ _ _ HS Ei).
Qed.
Lemma a_run_pulls : forall es S, Forall store_ok S -> a_run S (pulls es) = Ok (runp S es).
Proof.
  induction es as [|[i j] es IH]; intros S HS; cbn [pulls map SyncModel.a_run SyncG.runp fold_left]; [reflexivity|].
  cbn [fst snd]. rewrite (a_step_pull S i j HS). cbn [bind]. apply IH. apply step_store_ok. exact HS.
Qed.

(* replicas satisfying the invariant with equal stores report the same root hash (C01) *)
Lemma RI_same_hash (a b : replica) : RI a -> RI b -> r_store a = r_store b ->
  snd (mst_root_hash (r_tree a)) = snd (mst_root_hash (r_tree b)).
Proof.
  intros (_ & oa & Ra & Fa) (_ & ob & Rb & Fb) E.
  assert (EF: final_map V oa = final_map V ob) by congruence.
  destruct (C01_history_independence digest V H lvl_of lvl_of_u8 oa ob EF) as (x & y & Rx & Ry & _ & EH).
  rewrite Ra in Rx. rewrite Rb in Ry. injection Rx as <-. injection Ry as <-. rewrite EH. reflexivity.
Qed.

(* the measure: reference stores = the stores when writes stop, universe = their keys *)
Definition universe (S : list store) : list N := concat (map (skeys Val) S).
Lemma okS_self S : Forall store_ok S -> okS Val merge (universe S) S S.
Proof.
  intros HS. split; [exact HS|]. split.
  - apply Forall_forall. intros s Hs k x E. split.
    + exists s, x. split; [exact Hs|]. split; [exact E|]. apply merge_idem.
    + intros y Hy. apply (Hy s x Hs E). apply merge_idem.
  - apply Forall_forall. intros s Hs k Hk. unfold universe. apply in_concat. exists (skeys Val s). split; [apply in_map; exact Hs|exact Hk].
Qed.

(* C06: any schedule [es] from n empty replicas, then any continuation of >= M blocks each containing every
   ordered pair (anything else may be interleaved inside a block): the whole run succeeds, all replicas hold
   the same store and report the same root hash; further pulls change nothing (runp_equal) *)
Theorem C06_convergence n (es : list (event Val)) :
  exists rs0, ev_run (fresh digest V Val n) es = Ok rs0 /\ length rs0 = n /\
  let S := map r_store rs0 in
  forall blocks : list (list (nat * nat)),
    Forall (all_pairs n) blocks ->
    (SyncG.M Val val_dec merge (universe S) S S <= length blocks)%nat ->
    exists rs, ev_run rs0 (pulls (concat blocks)) = Ok rs /\ length rs = n /\
      (forall a b, In a rs -> In b rs -> r_store a = r_store b /\
         snd (mst_root_hash (r_tree a)) = snd (mst_root_hash (r_tree b))).
Proof.
  destruct (ev_run_refines digest V H lvl_of lvl_of_u8 deqb deqb_spec Val vh merge es _ (RI_fresh digest V H lvl_of Val vh n)) as (rs0 & E0 & HI0 & L0 & _).
  assert (Ln: length rs0 = n). { rewrite L0. unfold fresh. apply repeat_length. }
  exists rs0. split; [exact E0|]. split; [exact Ln|]. intros S blocks AP HM.
  destruct (ev_run_refines digest V H lvl_of lvl_of_u8 deqb deqb_spec Val vh merge (pulls (concat blocks)) rs0 HI0) as (rs & E & HI & L & A).
  exists rs. split; [exact E|]. split; [congruence|].
  assert (HS: Forall store_ok S). { unfold S. apply Forall_forall. intros s Hs. apply in_map_iff in Hs as (rp & <- & Hr). rewrite Forall_forall in HI0. apply (HI0 rp Hr). }
  fold S in A. rewrite (a_run_pulls _ S HS) in A. injection A as A.
  assert (AE: all_equal Val (runp S (concat blocks))).
  { apply (C06_converges digest V H deqb deqb_spec Hinj Val val_dec vh vh_inj merge merge_idem merge_comm merge_assoc ser
             (ser_RL digest V H lvl_of lvl_of_u8 Val vh) (universe S) S blocks S (okS_self S HS)); [|exact HM].
    unfold S. rewrite map_length, Ln. exact AP. }
  intros a b Ha Hb. assert (Es: r_store a = r_store b).
  { apply AE; rewrite A; apply in_map; assumption. }
  split; [exact Es|]. rewrite Forall_forall in HI. apply RI_same_hash; auto.
Qed.
(* ---- the limit: the join of everything written ---- *)
Notation written := (written Val merge).
Notation written_from := (written_from Val merge).

Lemma a_run_app : forall e1 e2 S, a_run S (e1 ++ e2) = (do S1 <- a_run S e1; a_run S1 e2).
Proof. induction e1 as [|e e1 IH]; intros e2 S; cbn [app SyncModel.a_run bind]; [reflexivity|].
  destruct (a_step S e) as [S1|w|]; cbn [bind]; [apply IH|reflexivity|reflexivity]. Qed.
Lemma written_pulls n : forall ps W, written_from n W (pulls ps) = W.
Proof. induction ps as [|[i j] ps IH]; intros W; cbn [pulls map SyncLimitG.written_from fold_left]; [reflexivity|]. apply IH. Qed.

Theorem C06_limit n (es : list (event Val)) :
  exists rs0, ev_run (fresh digest V Val n) es = Ok rs0 /\ length rs0 = n /\
  let S := map r_store rs0 in
  forall blocks : list (list (nat * nat)),
    Forall (all_pairs n) blocks ->
    (SyncG.M Val val_dec merge (universe S) S S <= length blocks)%nat ->
    exists rs, ev_run rs0 (pulls (concat blocks)) = Ok rs /\ length rs = n /\
      (forall a, In a rs -> r_store a = written n es) /\
      (forall a b, In a rs -> In b rs -> snd (mst_root_hash (r_tree a)) = snd (mst_root_hash (r_tree b))).
Proof.
  destruct (ev_run_refines digest V H lvl_of lvl_of_u8 deqb deqb_spec Val vh merge es _ (RI_fresh digest V H lvl_of Val vh n)) as (rs0 & E0 & HI0 & L0 & A0).
  assert (Ln: length rs0 = n). { rewrite L0. unfold fresh. apply repeat_length. }
  destruct (C06_convergence n es) as (rs0' & E0' & _ & Hconv). rewrite E0 in E0'. injection E0' as <-.
  exists rs0. split; [exact E0|]. split; [exact Ln|]. intros S blocks AP HM.
  destruct (Hconv blocks AP HM) as (rs & E & L & AE). exists rs. split; [exact E|]. split; [exact L|].
  split; [|intros a b Ha Hb; apply (AE a b Ha Hb)].
  destruct (ev_run_refines digest V H lvl_of lvl_of_u8 deqb deqb_spec Val vh merge (pulls (concat blocks)) rs0 HI0) as (rs' & E' & HI & _ & A).
  rewrite E in E'. injection E' as <-.
  assert (Efresh: map r_store (fresh digest V Val n) = repeat [] n).
  { unfold fresh. clear. induction n as [|n IHn]; cbn [repeat map SyncModel.r_store]; [reflexivity|rewrite IHn; reflexivity]. }
  assert (Arun: a_run (repeat [] n) (es ++ pulls (concat blocks)) = Ok (map r_store rs)).
  { rewrite a_run_app. rewrite <- Efresh, A0. cbn [bind]. exact A. }
  assert (D1: dom1 Val merge (repeat [] n) []).
  { intros j s k x Ej El. apply nth_error_In in Ej. apply repeat_spec in Ej. subst s. discriminate. }
  assert (D2: dom2 Val merge (repeat [] n) []). { intros k w Ew. discriminate. }
  assert (HS0: Forall store_ok (repeat [] n)). { apply Forall_forall. intros s Hs. apply repeat_spec in Hs. subst s. constructor. }
  destruct (a_run_inv digest V H lvl_of deqb Val vh merge merge_idem merge_comm merge_assoc _ _ _ _ HS0 D1 D2 Arun) as (HS' & _ & D1' & D2').
  rewrite repeat_length in D1', D2'.
  assert (EW: written_from n [] (es ++ pulls (concat blocks)) = written n es).
  { unfold SyncLimitG.written, SyncLimitG.written_from. rewrite fold_left_app. apply written_pulls. }
  rewrite EW in D1', D2'.
  intros a Ha.
  apply (agreed_is_written Val merge merge_idem merge_comm (map r_store rs) (written n es) HS'); [apply written_ok; constructor|exact D1'|exact D2'| |apply in_map; exact Ha].
  intros x y Hx Hy. apply in_map_iff in Hx as (ra & <- & Hra). apply in_map_iff in Hy as (rb & <- & Hrb). apply (AE ra rb Hra Hrb).
Qed.
End Final.
