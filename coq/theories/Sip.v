From Coq Require Import List NArith Lia Bool.
Import ListNotations.
Open Scope N_scope.

Definition M64 : N := 18446744073709551616.
Definition w64 (x : N) : N := N.land x 18446744073709551615.
Definition add64 a b := w64 (a + b).
Definition rotl64 (x : N) (b : N) : N := w64 (N.lor (N.shiftl x b) (N.shiftr x (64 - b))).

Record st := St { v0 : N; v1 : N; v2 : N; v3 : N }.

Definition sipround (s : st) : st :=
  let v0 := add64 (v0 s) (v1 s) in
  let v1 := rotl64 (v1 s) 13 in
  let v1 := N.lxor v1 v0 in
  let v0 := rotl64 v0 32 in
  let v2 := add64 (v2 s) (v3 s) in
  let v3 := rotl64 (v3 s) 16 in
  let v3 := N.lxor v3 v2 in
  let v0 := add64 v0 v3 in
  let v3 := rotl64 v3 21 in
  let v3 := N.lxor v3 v0 in
  let v2 := add64 v2 v1 in
  let v1 := rotl64 v1 17 in
  let v1 := N.lxor v1 v2 in
  let v2 := rotl64 v2 32 in
  St v0 v1 v2 v3.

Definition absorb (s : st) (m : N) : st :=
  let s := St (v0 s) (v1 s) (v2 s) (N.lxor (v3 s) m) in
  let s := sipround (sipround s) in
  St (N.lxor (v0 s) m) (v1 s) (v2 s) (v3 s).

Fixpoint le_word (bs : list N) : N :=
  match bs with [] => 0 | b :: r => b + 256 * le_word r end.

(* process full 8-byte blocks with fuel = length *)
Fixpoint blocks (fuel : nat) (s : st) (bs : list N) : st * list N :=
  match fuel with
  | O => (s, bs)
  | S f => match bs with
           | b0::b1::b2::b3::b4::b5::b6::b7::r => blocks f (absorb s (le_word [b0;b1;b2;b3;b4;b5;b6;b7])) r
           | _ => (s, bs)
           end
  end.

Fixpoint le_bytes (n : nat) (x : N) : list N :=
  match n with O => [] | S n' => (N.land x 255) :: le_bytes n' (N.shiftr x 8) end.

Definition siphash24_128 (k0 k1 : N) (msg : list N) : list N :=
  let s := St (N.lxor k0 0x736f6d6570736575) (N.lxor (N.lxor k1 0x646f72616e646f6d) 0xee)
              (N.lxor k0 0x6c7967656e657261) (N.lxor k1 0x7465646279746573) in
  let '(s, tail) := blocks (length msg) s msg in
  let b := N.lor (N.shiftl (N.of_nat (length msg) mod 256) 56) (le_word tail) in
  let s := absorb s b in
  let s := St (v0 s) (v1 s) (N.lxor (v2 s) 0xee) (v3 s) in
  let s := sipround (sipround (sipround (sipround s))) in
  let h1 := N.lxor (N.lxor (v0 s) (v1 s)) (N.lxor (v2 s) (v3 s)) in
  let s := St (v0 s) (N.lxor (v1 s) 0xdd) (v2 s) (v3 s) in
  let s := sipround (sipround (sipround (sipround s))) in
  let h2 := N.lxor (N.lxor (v0 s) (v1 s)) (N.lxor (v2 s) (v3 s)) in
  le_bytes 8 h1 ++ le_bytes 8 h2.

