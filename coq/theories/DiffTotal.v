From MST Require Import Base TreeM Diff Intervals DiffWalk.

Section P.
Variable digest : Type.
Variable deqb : digest -> digest -> bool.
Notation prange := (prange digest).

(* the statement of C13 (functional half) for arbitrary lists *)
Definition wf_pr (r : prange) : Prop := ps _ r <= pe _ r.
Definition bounds_of (l : list prange) : list N := flat_map (fun r => [ps _ r; pe _ r]) l.
Definition C13_total : Prop := forall local peer, Forall wf_pr local -> Forall wf_pr peer ->
  exists rs, diff digest deqb local peer = Ok rs /\
    Forall (fun r => ds r <= de r) rs /\ strict_asc rs /\
    Forall (fun r => In (ds r) (bounds_of (local ++ peer)) /\ In (de r) (bounds_of (local ++ peer))) rs.

Lemma bounds_in (l : list prange) r : In r l -> In (ps _ r) (bounds_of l) /\ In (pe _ r) (bounds_of l).
Proof. intros H. unfold bounds_of. rewrite !in_flat_map. split; exists r; simpl; auto. Qed.

Theorem C13_total_proved : C13_total.
Proof.
  intros local peer_ Wl Wp.
  destruct peer_ as [|root rest].
  - exists []. cbn. repeat split; constructor.
  - remember (root :: rest) as P eqn:EP. set (X := fun z => In z (bounds_of (local ++ P))).
    assert (OKL: forall l, (forall r, In r l -> In r (local ++ P)) -> Forall (wf_pr) l -> okl digest X (fun _ => True) l).
    { intros l Hin W. split; [exact W|]. rewrite Forall_forall. intros r Hr. apply Hin in Hr. apply bounds_in in Hr. destruct Hr; repeat split; auto. }
    assert (Hroot: In root P) by (rewrite EP; now left).
    assert (Wroot: wf_pr root) by (rewrite Forall_forall in Wp; auto).
    assert (Xroot: xp digest X (fun _ => True) root). { assert (In root (local ++ P)) as Hr by (apply in_app_iff; auto). apply bounds_in in Hr. destruct Hr; repeat split; auto. }
    assert (OKS: oks digest X (fun _ => True) (fun _ => True) (fun _ => True) (ST digest P local (B [] []))).
    { split; [apply OKL; auto; intros; apply in_app_iff; auto|]. split; [apply OKL; auto; intros; apply in_app_iff; auto|].
      repeat split; constructor. }
    assert (Hlt: (length (peer digest (ST digest P local (B [] []))) < S (length P))%nat) by (cbn [peer]; lia).
    destruct (rdiff_ok digest deqb X (fun _ => True) (fun _ => True) (fun _ => True) (fun _ _ _ _ _ => I) (S (length P)) root None _ Hlt Wroot Xroot I OKS) as (s' & E & (_ & _ & (B1 & B2 & B3 & B4 & _)) & _ & _ & _).
    assert (Ed: diff digest deqb local P = (do s <- rdiff digest deqb (S (length P)) root None (ST digest P local (B [] [])); into_diff_vec (bld _ s))).
    { rewrite EP. reflexivity. }
    rewrite Ed, E. cbn [bind].
    destruct (into_diff_vec_ok (bld _ s') B1 B2) as (out & Eo & Wo & So & _ & _ & Bd).
    exists out. split; [exact Eo|]. split; [exact Wo|]. split; [exact So|].
    rewrite Forall_forall. intros r Hr.
    assert (In (ds r) (bnds out) /\ In (de r) (bnds out)) as (H1 & H2).
    { unfold bnds. rewrite !in_flat_map. split; exists r; simpl; auto. }
    assert (forall z, In z (bnds (inc (bld _ s'))) \/ In z (bnds (con (bld _ s'))) -> X z) as HX.
    { intros z [H|H]; unfold bnds in H; apply in_flat_map in H as (d & Hd & Hz);
      [rewrite Forall_forall in B3; destruct (B3 d Hd)|rewrite Forall_forall in B4; destruct (B4 d Hd)];
      simpl in Hz; destruct Hz as [<-|[<-|[]]]; auto. }
    split; apply HX; apply Bd; auto.
Qed.
Print Assumptions C13_total_proved.
End P.
