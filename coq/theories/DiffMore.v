(* Further corollaries about diff on the serialisations of real trees (no digest-injectivity needed). *)
From MST Require Import Base TreeM Diff Spec TreeUpsert TreeHash TreeInv TreeCanon HistIndep TreeRanges Intervals DiffWalk DiffTrees TreeRL DiffTop DiffProv.

Section More.
Variable digest V : Type.
Variable H : list (tok digest V) -> digest.
Variable lvl_of : N -> N.
Hypothesis lvl_of_u8 : forall k, lvl_of k < 255.
Variable deqb : digest -> digest -> bool.
Hypothesis deqb_spec : forall a b, deqb a b = true <-> a = b.

Notation mst := (mst digest V).
Notation run := (run digest V H lvl_of). Notation final_map := (final_map V).
Notation tree_ranges := (tree_ranges digest V H).
Notation diff := (diff digest deqb).
Notation RL := (RL digest V H).
Notation tree_diff := (tree_diff digest V H deqb).

Lemma run_RL' ops t : run ops = Ok t -> exists l, tree_ranges t = Ok (Some l) /\ RL (final_map ops) l.
Proof.
  intros R. destruct (run_RL digest V H lvl_of lvl_of_u8 ops) as (t' & l & R' & E & HR).
  rewrite R in R'. injection R' as <-. eauto.
Qed.

(* diff of two real trees never panics; its output is well-formed, strictly ascending/disjoint, and every
   bound is a key held by the peer or by the local tree *)
Theorem tree_diff_wellformed opsL opsP tL tP : run opsL = Ok tL -> run opsP = Ok tP ->
  exists rs, tree_diff tL tP = Ok rs /\ Forall wf rs /\ strict_asc rs /\
    Forall (fun r => (In (ds r) (keys (final_map opsP)) \/ In (ds r) (keys (final_map opsL))) /\
                     (In (de r) (keys (final_map opsP)) \/ In (de r) (keys (final_map opsL)))) rs.
Proof.
  intros RL_ RP.
  destruct (run_RL' _ _ RL_) as (lL & EL & HL). destruct (run_RL' _ _ RP) as (lP & EP & HP).
  unfold DiffTop.tree_diff. rewrite EL, EP. cbn [bind].
  destruct lP as [|p0 restP] eqn:ElP.
  - exists []. cbn. repeat split; constructor.
  - rewrite <- ElP in *.
    destruct (walk_ok digest V H deqb deqb_spec _ _ lL lP HL HP p0 restP ElP) as (s' & Es & (B1 & B2 & B3 & B4 & _) & _).
    assert (Ed: diff lL lP = (do s <- rdiff digest deqb (S (length lP)) p0 None (ST digest lP lL (B [] [])); into_diff_vec (bld _ s))).
    { rewrite ElP. reflexivity. }
    rewrite Ed, Es. cbn [bind].
    destruct (into_diff_vec_ok (bld _ s') B1 B2) as (out & Eo & Wo & So & _ & _ & Bd).
    exists out. split; [exact Eo|]. split; [exact Wo|]. split; [exact So|].
    rewrite Forall_forall. intros r Hr.
    assert (In (ds r) (bnds out) /\ In (de r) (bnds out)) as (H1 & H2).
    { unfold bnds. rewrite !in_flat_map. split; exists r; simpl; auto. }
    assert (forall z, In z (bnds (inc (bld _ s'))) \/ In z (bnds (con (bld _ s'))) ->
                      X V (final_map opsL) (final_map opsP) z) as HX.
    { intros z [Hz|Hz]; unfold bnds in Hz; apply in_flat_map in Hz as (d & Hd & Hz);
      [rewrite Forall_forall in B3; destruct (B3 d Hd)|rewrite Forall_forall in B4; destruct (B4 d Hd)];
      simpl in Hz; destruct Hz as [<-|[<-|[]]]; auto. }
    split; apply HX; apply Bd; auto.
Qed.

Theorem C07_empty_local opsL opsP tL tP a b : run opsL = Ok tL -> run opsP = Ok tP ->
  final_map opsL = [] -> first_key V (final_map opsP) = Some a -> last_key V (final_map opsP) = Some b ->
  tree_diff tL tP = Ok [DR a b].
Proof.
  intros RL_ RP E0 Fa Lb.
  destruct (run_RL' _ _ RL_) as (lL & EL & HL). destruct (run_RL' _ _ RP) as (lP & EP & HP).
  unfold DiffTop.tree_diff. rewrite EL, EP. cbn [bind].
  rewrite (rl_empty _ _ _ _ _ HL E0).
  assert (Hne: final_map opsP <> []). { intros E. rewrite E in Fa. discriminate. }
  destruct (rl_root _ _ _ _ _ HP Hne) as (r0 & rest & El & F & L & _).
  rewrite Fa in F. rewrite Lb in L. injection F as ->. injection L as ->.
  exact (diff_empty_local digest V H deqb _ _ _ _ HP El).
Qed.
(* every entry of a tree serialisation has both bounds among the tree's keys *)
Lemma RL_keys c l : RL c l -> Forall (fun r => In (ps digest r) (keys c) /\ In (pe digest r) (keys c)) l.
Proof.
  intros R. destruct c as [|x c'] eqn:Ec; [rewrite (rl_empty _ _ _ _ _ R eq_refl); constructor|]. rewrite <- Ec in *.
  assert (Hne: c <> []) by (rewrite Ec; discriminate).
  destruct (first_last_ex V c Hne) as (f & l0 & F & L).
  pose proof (rl_seg _ _ _ _ _ R) as Sg. eapply Forall_impl; [|exact Sg]. intros r Hr.
  destruct (seg_facts digest V H c r f l0 (rl_sorted _ _ _ _ _ R) Hr F L) as (_ & _ & _ & A & B). auto.
Qed.

(* C12 on real trees, full strength: start is a key of the peer, end a key of the peer or of the local
   tree, and the range lies within the peer's smallest and largest key *)
Theorem C12_confined opsL opsP tL tP : run opsL = Ok tL -> run opsP = Ok tP ->
  exists rs, tree_diff tL tP = Ok rs /\ Forall wf rs /\ strict_asc rs /\
    Forall (fun r => In (ds r) (keys (final_map opsP)) /\
                     (In (de r) (keys (final_map opsP)) \/ In (de r) (keys (final_map opsL))) /\
                     exists a b, first_key V (final_map opsP) = Some a /\ last_key V (final_map opsP) = Some b /\
                                 a <= ds r /\ de r <= b) rs.
Proof.
  intros RL_ RP.
  destruct (tree_diff_wellformed _ _ _ _ RL_ RP) as (rs & E & W & S & _).
  exists rs. split; [exact E|]. split; [exact W|]. split; [exact S|].
  destruct (run_RL' _ _ RL_) as (lL & EL & HL). destruct (run_RL' _ _ RP) as (lP & EP & HP).
  unfold DiffTop.tree_diff in E. rewrite EL, EP in E. cbn [bind] in E.
  set (cP := final_map opsP) in *. set (cL := final_map opsL) in *.
  destruct cP as [|x cP'] eqn:EcP.
  { rewrite (rl_empty _ _ _ _ _ HP eq_refl) in E. cbn in E. injection E as <-. constructor. }
  rewrite <- EcP in *. assert (Hne: cP <> []) by (rewrite EcP; discriminate).
  destruct (first_last_ex V cP Hne) as (a & b & Fa & Lb).
  pose proof (rl_sorted _ _ _ _ _ HP) as SP.
  assert (Hbound: forall z, In z (keys cP) -> a <= z <= b).
  { intros z Hz. destruct (key_has_value V cP z Hz) as (v & Hv). exact (between_first_last V cP z v a b SP Hv Fa Lb). }
  pose (PS := fun z => In z (keys cP)). pose (PL := fun z => In z (keys cL)).
  pose (PE := fun z => (In z (keys cP) \/ In z (keys cL)) /\ z <= b).
  assert (H1: forall z, PS z -> PE z). { intros z Hz. split; [left; exact Hz|apply Hbound; exact Hz]. }
  assert (H2: forall u w, PL u -> PS w -> PE (N.min u w)).
  { intros u w Hu Hw. destruct (N.min_spec u w) as [(Hlt & ->)|(Hle & ->)].
    - split; [right; exact Hu|]. pose proof (Hbound w Hw). lia.
    - apply H1. exact Hw. }
  assert (OP: Forall (okp digest PS) lP). { eapply Forall_impl; [|exact (RL_keys _ _ HP)]. intros r (A & B). split; assumption. }
  assert (OL: Forall (okl_ digest PL) lL). { eapply Forall_impl; [|exact (RL_keys _ _ HL)]. intros r (A & _). exact A. }
  pose proof (diff_se digest deqb PS PL PE H1 H2 lL lP rs OP OL E) as HS.
  eapply Forall_impl; [|exact HS]. intros r (A & (B & C)). split; [exact A|]. split; [exact B|].
  exists a, b. split; [exact Fa|]. split; [exact Lb|]. split; [apply Hbound; exact A|exact C].
Qed.
Theorem C04_starts opsL opsP tL tP : run opsL = Ok tL -> run opsP = Ok tP ->
  exists rs, tree_diff tL tP = Ok rs /\ Forall (fun r => In (ds r) (keys (final_map opsP)) /\ ds r <= de r) rs.
Proof.
  intros RL_ RP. destruct (C12_confined _ _ _ _ RL_ RP) as (rs & E & W & _ & F). exists rs. split; [exact E|].
  rewrite Forall_forall in *. intros r Hr. destruct (F r Hr) as (A & _). split; [exact A|exact (W r Hr)].
Qed.
End More.
