(* C11: nesting of child spans inside the parent's span, and disjoint ascending sibling spans. *)
From MST Require Import Base TreeM Spec TreeRanges.

Section Nest.
Variable digest V : Type.
Variable H : list (tok digest V) -> digest.
Variable lvl_of : N -> N.

Notation page := (page digest V).
Notation node := (node digest V).
Notation pnodes := (pnodes digest V). Notation phigh := (phigh digest V).
Notation nkey := (nkey digest V). Notation nval := (nval digest V). Notation nlt := (nlt digest V).
Notation content := (content digest V). Notation content_opt := (content_opt digest V). Notation content_nodes := (content_nodes digest V).
Notation content_eq := (content_eq digest V).
Notation shape := (shape digest V lvl_of).
Notation first_key := (first_key V). Notation last_key := (last_key V).
Notation subpages := (subpages digest V).

(* direct children in serialisation order: each key's lower subtree in key order, then the high page *)
Definition opt_list (o : option page) : list page := match o with Some c => [c] | None => [] end.
Fixpoint children_nodes (ns : list node) : list page :=
  match ns with [] => [] | n :: r => opt_list (nlt n) ++ children_nodes r end.
Definition children (p : page) : list page := children_nodes (pnodes p) ++ opt_list (phigh p).

Lemma children_sub p c : In c (children p) -> In c (subpages_nodes digest V (pnodes p) ++ subpages_opt digest V (phigh p)).
Proof.
  unfold children. rewrite !in_app_iff. intros [Hc|Hc]; [left|right].
  - induction (pnodes p) as [|n r IH]; cbn [children_nodes subpages_nodes] in *; [destruct Hc|].
    apply in_app_iff in Hc as [Hc|Hc]; apply in_app_iff; [left|right; auto].
    destruct (nlt n) as [q|]; cbn [opt_list subpages_opt] in *; [|destruct Hc]. destruct Hc as [<-|[]]. rewrite subpages_eq. now left.
  - destruct (phigh p) as [h|]; cbn [opt_list subpages_opt] in *; [|destruct Hc]. destruct Hc as [<-|[]]. rewrite subpages_eq. now left.
Qed.

(* a child's content is followed, inside the node list's content, by the key it hangs off *)
Lemma child_in_nodes : forall ns l1 c l2, children_nodes ns = l1 ++ c :: l2 ->
  exists a b, content_nodes ns = a ++ content c ++ b /\ b <> [].
Proof.
  induction ns as [|n r IH]; intros l1 c l2 E; cbn [children_nodes] in E; [destruct l1; discriminate|].
  cbn [Spec.content_nodes]. destruct (nlt n) as [q|]; cbn [opt_list Spec.content_opt app] in *.
  - destruct l1 as [|x l1]; cbn [app] in E; injection E as <- E.
    + exists [], ((nkey n, nval n) :: content_nodes r). split; [reflexivity|discriminate].
    + destruct (IH _ _ _ E) as (a & b & Ec & Hb). exists (content q ++ (nkey n, nval n) :: a), b. split; [|exact Hb].
      rewrite Ec, <- !app_assoc. reflexivity.
  - destruct (IH _ _ _ E) as (a & b & Ec & Hb). exists ((nkey n, nval n) :: a), b. split; [|exact Hb]. rewrite Ec. reflexivity.
Qed.

Lemma two_children_nodes : forall ns l1 c1 l2 c2 l3, children_nodes ns = l1 ++ c1 :: l2 ++ c2 :: l3 ->
  exists a m b, content_nodes ns = a ++ content c1 ++ m ++ content c2 ++ b /\ m <> [].
Proof.
  induction ns as [|n r IH]; intros l1 c1 l2 c2 l3 E; cbn [children_nodes] in E; [destruct l1; discriminate|].
  cbn [Spec.content_nodes]. destruct (nlt n) as [q|]; cbn [opt_list Spec.content_opt app] in *.
  - destruct l1 as [|x l1]; cbn [app] in E; injection E as <- E.
    + destruct (child_in_nodes _ _ _ _ E) as (a & b & Ec & _).
      exists [], ((nkey n, nval n) :: a), b. split; [|discriminate]. rewrite Ec. reflexivity.
    + destruct (IH _ _ _ _ _ E) as (a & m & b & Ec & Hm). exists (content q ++ (nkey n, nval n) :: a), m, b. split; [|exact Hm].
      rewrite Ec, <- !app_assoc. reflexivity.
  - destruct (IH _ _ _ _ _ E) as (a & m & b & Ec & Hm). exists ((nkey n, nval n) :: a), m, b. split; [|exact Hm]. rewrite Ec. reflexivity.
Qed.

Lemma app_eq_snoc {A} (l1 : list A) x l2 y (l : list A) : l ++ [y] = l1 ++ x :: l2 ->
  (l2 = [] /\ x = y /\ l = l1) \/ (exists l2', l2 = l2' ++ [y] /\ l = l1 ++ x :: l2').
Proof.
  destruct l2 as [|z l2' _] using rev_ind.
  - intros E. apply app_inj_tail in E as (-> & ->). auto.
  - intros E. rewrite app_comm_cons, app_assoc in E. apply app_inj_tail in E as (-> & ->). right. exists l2'. auto.
Qed.

Lemma two_children p l1 c1 l2 c2 l3 : children p = l1 ++ c1 :: l2 ++ c2 :: l3 ->
  exists a m b, content p = a ++ content c1 ++ m ++ content c2 ++ b /\ m <> [].
Proof.
  unfold children. rewrite content_eq. intros E. destruct (phigh p) as [h|]; cbn [opt_list Spec.content_opt] in *.
  - (* c2 may be the high page *)
    replace (l1 ++ c1 :: l2 ++ c2 :: l3) with ((l1 ++ c1 :: l2) ++ c2 :: l3) in E by (rewrite <- app_assoc; reflexivity).
    apply app_eq_snoc in E as [(-> & -> & E)|(l3' & -> & E)].
    + destruct (child_in_nodes _ _ _ _ E) as (a & b & Ec & Hb). exists a, b, []. split; [|exact Hb].
      rewrite Ec, app_nil_r, <- !app_assoc. reflexivity.
    + rewrite <- app_assoc in E. cbn [app] in E.
      destruct (two_children_nodes _ _ _ _ _ _ E) as (a & m & b & Ec & Hm). exists a, m, (b ++ content h). split; [|exact Hm].
      rewrite Ec, <- !app_assoc. reflexivity.
  - rewrite app_nil_r in *. destruct (two_children_nodes _ _ _ _ _ _ E) as (a & m & b & Ec & Hm). exists a, m, b. auto.
Qed.

(* ---- consequences under sortedness ---- *)
Lemma last_in_keys (m : list (N * V)) k : last_key m = Some k -> In k (keys m).
Proof. unfold TreeRanges.last_key. destruct (rev m) as [|[k' v] r] eqn:E; [discriminate|]. intros [= ->].
  apply (f_equal (@rev _)) in E. rewrite rev_involutive in E. cbn in E. rewrite E, keys_app, in_app_iff. right. rewrite keys_cons. now left. Qed.
Lemma first_in_keys (m : list (N * V)) k : first_key m = Some k -> In k (keys m).
Proof. destruct m as [|[k' v] m]; [discriminate|]. intros [= ->]. rewrite keys_cons. now left. Qed.

(* sibling spans are disjoint and ascending *)
Theorem siblings_ascending p l1 c1 l2 c2 l3 e1 s2 :
  StronglySorted N.lt (keys (content p)) -> children p = l1 ++ c1 :: l2 ++ c2 :: l3 ->
  last_key (content c1) = Some e1 -> first_key (content c2) = Some s2 -> e1 < s2.
Proof.
  intros HS E L1 F2. destruct (two_children _ _ _ _ _ _ E) as (a & m & b & Ec & Hm). rewrite Ec in HS.
  rewrite !keys_app in HS. apply SS_app in HS as (_ & S2 & _). apply SS_app in S2 as (_ & S3 & S4).
  apply S4; [apply last_in_keys; exact L1|]. rewrite !in_app_iff. right. left. apply first_in_keys. exact F2.
Qed.

(* every proper sub-page (in particular every child) lies inside the page's span, strictly on one side *)
Theorem subpage_span_inside p L q f l fq lq :
  shape L p -> all_cached digest V p -> cache_ok digest V H p -> StronglySorted N.lt (keys (content p)) ->
  In q (subpages_nodes digest V (pnodes p) ++ subpages_opt digest V (phigh p)) ->
  first_key (content p) = Some f -> last_key (content p) = Some l ->
  first_key (content q) = Some fq -> last_key (content q) = Some lq ->
  f <= fq /\ lq <= l /\ (f < fq \/ lq < l).
Proof.
  intros Hs Ha Hc HS Hin F Lk Fq Lq.
  destruct (subpage_proper digest V H lvl_of p L q Hin Hs Ha Hc) as (a & b & E & Hab). rewrite E in *.
  destruct (infix_bounds V lvl_of a (content q) b _ _ _ _ HS Fq Lq F Lk) as (A & _ & B). split; [exact A|]. split; [exact B|].
  destruct Hab as [Ha'|Hb'].
  - left. destruct a as [|[k v] a]; [congruence|]. cbn in F. injection F as <-.
    rewrite !keys_app in HS. apply SS_app in HS as (_ & _ & S3). apply S3; [rewrite keys_cons; now left|].
    rewrite in_app_iff. left. apply first_in_keys. exact Fq.
  - right. rewrite app_assoc in Lk. rewrite last_key_app in Lk by exact Hb'.
    rewrite !keys_app in HS. apply SS_app in HS as (_ & S2 & _). apply SS_app in S2 as (_ & _ & S4).
    apply S4; [apply last_in_keys; exact Lq|apply last_in_keys; exact Lk].
Qed.
End Nest.
