(* Corollaries over every history, assembled from the component theories.
   properties/Cxx.v pin these statements; nothing here is specific to one property. *)
From MST Require Import Base TreeM Diff Spec TreeSplit TreeUpsert TreeHash TreeInv TreeCanon TreeRanges
  HistIndep HashInj Trav Iter Intervals DiffWalk DiffTrees TreeRL DiffTop DiffMore LevelSpec TreeNest.

Section Top.
Variable digest V : Type.
Variable H : list (tok digest V) -> digest.
Variable lvl_of : N -> N.
Hypothesis lvl_of_u8 : forall k, lvl_of k < 255.

Notation page := (page digest V).
Notation mst := (mst digest V).
Notation root := (root digest V). Notation root_hash := (root_hash digest V).
Notation pnodes := (pnodes digest V). Notation phigh := (phigh digest V). Notation pcache := (pcache digest V).
Notation content := (content digest V).
Notation shape := (shape digest V lvl_of).
Notation sorted := (sorted V).
Notation cache_ok := (cache_ok digest V H). Notation all_cached := (all_cached digest V).
Notation ref_hash := (ref_hash digest V H).
Notation mst_upsert := (mst_upsert digest V true).
Notation mst_root_hash := (mst_root_hash digest V H).
Notation mst_serialise := (mst_serialise digest V).
Notation node_iter := (node_iter digest V).
Notation run := (run digest V H lvl_of). Notation final_map := (final_map V).
Notation Inv := (Inv digest V H lvl_of).
Notation tree_ranges := (tree_ranges digest V H).
Notation strip := (strip digest V).

Lemma run_Inv ops t : run ops = Ok t -> Inv t /\ content (root t) = final_map ops.
Proof.
  intros R. destruct (run_inv digest V H lvl_of lvl_of_u8 ops) as (t' & R' & Hi & Hc).
  rewrite R in R'. injection R' as <-. auto.
Qed.

(* ---------------- C09 ---------------- *)
Theorem C09_invariant ops : exists t, run ops = Ok t /\
  StronglySorted N.lt (keys (content (root t))) /\
  (content (root t) <> [] -> shape 256 (root t)) /\
  (content (root t) = [] -> pnodes (root t) = [] /\ phigh (root t) = None).
Proof.
  destruct (run_inv digest V H lvl_of lvl_of_u8 ops) as (t & R & (Hso & _ & Hsh & _) & _).
  exists t. split; [exact R|]. split; [exact Hso|]. destruct Hsh as [(En & Eh & _)|Hsh].
  - split; [|auto]. intros Hne. exfalso. apply Hne. rewrite content_eq, En, Eh. reflexivity.
  - split; [auto|]. intros E. exfalso. exact (shape_content_nonempty _ _ _ _ _ Hsh E).
Qed.
Theorem C09_canonical p q L L' : shape L p -> shape L' q -> content p = content q -> strip p = strip q.
Proof. intros Sp Sq E. exact (canonical digest V lvl_of lvl_of_u8 p L L' q Sp Sq E). Qed.

(* ---------------- C10 ---------------- *)
Theorem C10_map_semantics ops : exists t, run ops = Ok t /\ content (root t) = final_map ops.
Proof. destruct (run_inv digest V H lvl_of lvl_of_u8 ops) as (t & R & _ & Hc). eauto. Qed.
Theorem C10_node_iter ops t : run ops = Ok t ->
  exists ns, node_iter t = Ok ns /\ map (fun n => (nkey digest V n, nval digest V n)) ns = final_map ops.
Proof.
  intros R. destruct (run_Inv _ _ R) as (_ & Hc). eexists. split; [apply node_iter_spec|].
  rewrite nodes_content. exact Hc.
Qed.

(* ---------------- C02 ---------------- *)
Lemma cached_root p d : cache_ok p -> pcache p = Some d -> d = ref_hash p /\ all_cached p.
Proof.
  intros Hc E. apply cache_ok_eq in Hc. rewrite E in Hc. destruct Hc as ((A & B & C) & _).
  split; [exact A|]. apply all_cached_eq. rewrite E. repeat split; auto. discriminate.
Qed.
Theorem C02_never_stale ops t : run ops = Ok t ->
  cache_ok (root t) /\
  (forall d, root_hash t = Some d -> d = ref_hash (root t) /\ all_cached (root t)) /\
  snd (mst_root_hash t) = ref_hash (root t) /\
  strip (root (fst (mst_root_hash t))) = strip (root t) /\
  cache_ok (root (fst (mst_root_hash t))) /\ all_cached (root (fst (mst_root_hash t))).
Proof.
  intros R. destruct (run_Inv _ _ R) as (Hi & _). pose proof Hi as (_ & Hc & _ & Hrh).
  split; [exact Hc|]. split; [intros d E; apply cached_root; auto|].
  pose proof (mst_root_hash_spec digest V H lvl_of t Hi) as HS. destruct (mst_root_hash t) as [t' d].
  destruct HS as ((_ & Hc' & _) & A & B & C & _). cbn [fst snd]. auto.
Qed.
Theorem C02_gate ops t k v : run ops = Ok t ->
  exists t', mst_upsert t k (lvl_of k) v = Ok t' /\ root_hash t' = None /\ mst_serialise t' = Ok None.
Proof.
  intros R. destruct (run_Inv _ _ R) as (Hi & _).
  destruct (mst_upsert_spec digest V H lvl_of lvl_of_u8 t k v Hi) as (t' & E & _ & _ & N).
  exists t'. split; [exact E|]. split; [exact N|]. unfold TreeM.mst_serialise. rewrite N. reflexivity.
Qed.
Theorem C02_available ops t : run ops = Ok t ->
  root_hash (fst (mst_root_hash t)) = Some (snd (mst_root_hash t)) /\
  exists l, mst_serialise (fst (mst_root_hash t)) = Ok (Some l).
Proof.
  intros R. destruct (run_Inv _ _ R) as (Hi & _).
  destruct (tree_RL digest V H lvl_of t Hi) as (l & E & _). unfold TreeRL.tree_ranges in E.
  pose proof (mst_root_hash_spec digest V H lvl_of t Hi) as HS. destruct (mst_root_hash t) as [t' d].
  destruct HS as (_ & _ & _ & _ & N). cbn [fst snd] in *. eauto.
Qed.

(* ---------------- C15 (tree part) ---------------- *)
Theorem C15_no_panic ops : exists t, run ops = Ok t /\
  (forall k v, exists t', mst_upsert t k (lvl_of k) v = Ok t') /\
  (exists l, tree_ranges t = Ok (Some l)) /\
  (exists ns, node_iter t = Ok ns).
Proof.
  destruct (run_inv digest V H lvl_of lvl_of_u8 ops) as (t & R & Hi & _). exists t. split; [exact R|].
  split; [intros k v; destruct (mst_upsert_spec digest V H lvl_of lvl_of_u8 t k v Hi) as (t' & E & _); eauto|].
  split; [destruct (tree_RL digest V H lvl_of t Hi) as (l & E & _); eauto|].
  eexists. apply node_iter_spec.
Qed.

(* ---------------- HashInj over histories ---------------- *)
Theorem C03_injective (Hinj : forall a b, H a = H b -> a = b) ops1 ops2 t1 t2 :
  run ops1 = Ok t1 -> run ops2 = Ok t2 ->
  snd (mst_root_hash t1) = snd (mst_root_hash t2) -> final_map ops1 = final_map ops2.
Proof.
  intros R1 R2 E. destruct (run_Inv _ _ R1) as (I1 & <-). destruct (run_Inv _ _ R2) as (I2 & <-).
  pose proof (mst_root_hash_spec digest V H lvl_of t1 I1) as S1.
  pose proof (mst_root_hash_spec digest V H lvl_of t2 I2) as S2.
  destruct (mst_root_hash t1) as [t1' d1], (mst_root_hash t2) as [t2' d2]. cbn [snd] in E.
  destruct S1 as (_ & D1 & _), S2 as (_ & D2 & _). rewrite D1, D2 in E.
  exact (ref_hash_injective digest V H Hinj (root t1) (root t2) E).
Qed.

(* ---------------- C03 / C10 small corollaries ---------------- *)
Theorem C03_different_content_different_hash (Hinj : forall a b, H a = H b -> a = b) ops1 ops2 t1 t2 :
  run ops1 = Ok t1 -> run ops2 = Ok t2 -> final_map ops1 <> final_map ops2 ->
  snd (mst_root_hash t1) <> snd (mst_root_hash t2).
Proof. intros R1 R2 Hne E. apply Hne. exact (C03_injective Hinj ops1 ops2 t1 t2 R1 R2 E). Qed.

Fixpoint mlookup (k : N) (l : list (N * V)) : option V :=
  match l with [] => None | (k', v) :: r => if k =? k' then Some v else mlookup k r end.
Lemma mlookup_ins k v m k' : mlookup k' (ins V k v m) = if k' =? k then Some v else mlookup k' m.
Proof.
  induction m as [|[k0 v0] m IH]; cbn [TreeUpsert.ins mlookup]; [destruct (k' =? k); reflexivity|].
  destruct (k <? k0) eqn:E1; [cbn [mlookup]; destruct (k' =? k); reflexivity|].
  destruct (k =? k0) eqn:E2.
  - apply N.eqb_eq in E2. subst k0. cbn [mlookup]. destruct (k' =? k); reflexivity.
  - cbn [mlookup]. destruct (k' =? k0) eqn:E3; [|exact IH]. apply N.eqb_eq in E3. subst k0.
    replace (k' =? k) with false; [reflexivity|]. symmetry. apply N.eqb_neq. apply N.eqb_neq in E2. congruence.
Qed.
(* upserting k stores exactly v under k and leaves the stored digest of every other key untouched *)
Theorem C10_upsert_pointwise ops t k v : run ops = Ok t ->
  exists t', mst_upsert t k (lvl_of k) v = Ok t' /\
    forall k', mlookup k' (content (root t')) = if k' =? k then Some v else mlookup k' (content (root t)).
Proof.
  intros R. destruct (run_Inv _ _ R) as (Hi & _).
  destruct (mst_upsert_spec digest V H lvl_of lvl_of_u8 t k v Hi) as (t' & E & _ & Hc & _).
  exists t'. split; [exact E|]. intros k'. rewrite Hc. apply mlookup_ins.
Qed.

(* ---------------- LevelSpec reference construction over histories ---------------- *)
Theorem C14_reference ops t : run ops = Ok t ->
  snd (mst_root_hash t) = ref_hash (strip (root t)) /\
  (forall ops' t', final_map ops' = final_map ops -> run ops' = Ok t' -> strip (root t') = strip (root t)).
Proof.
  intros R. destruct (run_Inv _ _ R) as (Hi & Hc). split.
  - pose proof (mst_root_hash_spec digest V H lvl_of t Hi) as HS. destruct (mst_root_hash t) as [t' d].
    destruct HS as (_ & D & _). cbn [snd]. rewrite D. apply (ref_hash_eqs digest V H lvl_of).
    unfold TreeHash.eqs. symmetry. apply strip_idem.
  - intros ops' t' EF R'.
    destruct (C01_history_independence digest V H lvl_of lvl_of_u8 ops' ops EF) as (a & b & Ra & Rb & E & _).
    rewrite R' in Ra. rewrite R in Rb. injection Ra as <-. injection Rb as <-. exact E.
Qed.
(* ---------------- C01: observables ---------------- *)
Theorem C01_ranges_equal ops1 ops2 t1 t2 : final_map ops1 = final_map ops2 ->
  run ops1 = Ok t1 -> run ops2 = Ok t2 ->
  snd (mst_root_hash t1) = snd (mst_root_hash t2) /\ tree_ranges t1 = tree_ranges t2.
Proof.
  intros EF R1 R2.
  destruct (C01_history_independence digest V H lvl_of lvl_of_u8 ops1 ops2 EF) as (a & b & Ra & Rb & _ & E).
  rewrite R1 in Ra. rewrite R2 in Rb. injection Ra as <-. injection Rb as <-.
  unfold TreeRL.tree_ranges. rewrite E. auto.
Qed.

(* ---------------- C15 (diff part) ---------------- *)
Theorem C15_diff_no_panic (deqb : digest -> digest -> bool) (deqb_spec : forall a b, deqb a b = true <-> a = b)
  opsA opsB tA tB : run opsA = Ok tA -> run opsB = Ok tB ->
  exists rs, DiffTop.tree_diff digest V H deqb tA tB = Ok rs.
Proof.
  intros RA RB. destruct (tree_diff_wellformed digest V H lvl_of lvl_of_u8 deqb deqb_spec _ _ _ _ RA RB) as (rs & E & _).
  eauto.
Qed.
(* ---------------- C11 ---------------- *)
Theorem C11_ranges ops t : run ops = Ok t ->
  (final_map ops = [] -> tree_ranges t = Ok (Some [])) /\
  (final_map ops <> [] -> exists l, tree_ranges t = Ok (Some l) /\
     Forall2 (range_spec digest V H) (subpages digest V (root (fst (mst_root_hash t)))) l).
Proof.
  intros R. destruct (run_Inv _ _ R) as (Hi & Hc). unfold TreeRL.tree_ranges.
  pose proof (mst_root_hash_spec digest V H lvl_of t Hi) as HS.
  destruct (mst_root_hash t) as [t' d]. destruct HS as (Hi' & _ & Heq & Hac & Hrh). cbn [fst].
  unfold TreeM.mst_serialise. rewrite Hrh.
  rewrite <- Hc, <- (content_eqs digest V lvl_of _ _ Heq).
  destruct Hi' as (Hso & Hcc & Hsh & _). destruct Hsh as [(En & Eh & El)|Hsh].
  - unfold TreeM.nonempty. rewrite En. split; [reflexivity|]. intros Hne. exfalso. apply Hne.
    rewrite content_eq, En, Eh. reflexivity.
  - rewrite (shape_nonempty _ _ _ _ _ Hsh). split.
    + intros E. exfalso. exact (shape_content_nonempty _ _ _ _ _ Hsh E).
    + intros _. destruct (ranges_page_spec digest V H lvl_of (root t') 256 Hsh Hac Hcc) as (l & El & F2).
      rewrite El. cbn [bind]. eauto.
Qed.

(* ---------------- C11: nesting and sibling clauses, for every page of every reachable (hashed) tree ---------------- *)
Theorem C11_nesting ops t : run ops = Ok t ->
  forall p, In p (subpages digest V (root (fst (mst_root_hash t)))) ->
  (forall q f l fq lq, In q (children digest V p) ->
     first_key V (content p) = Some f -> last_key V (content p) = Some l ->
     first_key V (content q) = Some fq -> last_key V (content q) = Some lq ->
     f <= fq /\ lq <= l /\ (f < fq \/ lq < l)) /\
  (forall l1 c1 l2 c2 l3 e1 s2, children digest V p = l1 ++ c1 :: l2 ++ c2 :: l3 ->
     last_key V (content c1) = Some e1 -> first_key V (content c2) = Some s2 -> e1 < s2).
Proof.
  intros R p Hp. destruct (run_Inv _ _ R) as (Hi & _).
  pose proof (mst_root_hash_spec digest V H lvl_of t Hi) as HS.
  destruct (mst_root_hash t) as [t' d]. destruct HS as (Hi' & _ & _ & Hac & _). cbn [fst] in *.
  destruct Hi' as (Hso & Hcc & Hsh & _).
  destruct Hsh as [(En & Eh & El)|Hsh].
  - (* empty tree: the only page is the root and it has no children *)
    rewrite subpages_eq, En, Eh in Hp. cbn in Hp. destruct Hp as [<-|[]].
    assert (Ech: children digest V (root t') = []). { unfold children. rewrite En, Eh. reflexivity. }
    split.
    + intros q f l fq lq Hq. rewrite Ech in Hq. destruct Hq.
    + intros l1 c1 l2 c2 l3 e1 s2 E. rewrite Ech in E. destruct l1; discriminate.
  - destruct (subpage_facts digest V H lvl_of (root t') 256 p Hp Hsh Hac Hcc) as ((L' & Sp) & Ap & Cp & a & b & Ec).
    assert (Sop: StronglySorted N.lt (keys (content p))).
    { unfold Spec.sorted in Hso. rewrite Ec, !keys_app in Hso. apply SS_app in Hso as (_ & S2 & _). apply SS_app in S2 as (S3 & _). exact S3. }
    split.
    + intros q f l fq lq Hq. apply (subpage_span_inside digest V H lvl_of p L' q f l fq lq Sp Ap Cp Sop). apply children_sub. exact Hq.
    + intros l1 c1 l2 c2 l3 e1 s2. apply (siblings_ascending digest V p l1 c1 l2 c2 l3 e1 s2 Sop).
Qed.

(* ---------------- C16 ---------------- *)
Theorem C16_new_ok ops t l : run ops = Ok t -> tree_ranges t = Ok (Some l) ->
  Forall (fun r => ps digest r <= pe digest r) l.
Proof.
  intros R E. destruct (run_Inv _ _ R) as (Hi & _).
  destruct (tree_RL digest V H lvl_of t Hi) as (l' & E' & HR). rewrite E in E'. injection E' as <-.
  exact (proj1 (oklP digest V H (content (root t)) (content (root t)) l HR)).
Qed.
End Top.

(* ---------------- C18 ---------------- *)
Theorem C18_content_config_free (digest digest' V : Type) (H : list (tok digest V) -> digest)
  (H' : list (tok digest' V) -> digest') (lvl_of lvl_of' : N -> N)
  (Hl : forall k, lvl_of k < 255) (Hl' : forall k, lvl_of' k < 255) (ops : list (op V)) :
  exists t t', run digest V H lvl_of ops = Ok t /\ run digest' V H' lvl_of' ops = Ok t' /\
    content digest V (root digest V t) = content digest' V (root digest' V t').
Proof.
  destruct (C10_map_semantics digest V H lvl_of Hl ops) as (t & R & C).
  destruct (C10_map_semantics digest' V H' lvl_of' Hl' ops) as (t' & R' & C').
  exists t, t'. split; [exact R|]. split; [exact R'|congruence].
Qed.
Theorem C18_level_fits_u8 (bytes : list N) (base : N) : (length bytes <= 127)%nat -> level bytes base < 255.
Proof. intros Hn. pose proof (C14_level_bound bytes base). lia. Qed.
