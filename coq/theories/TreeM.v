From MST Require Export Base.

Section M.
Variable digest : Type.
Variable V : Type.
Inductive tok := TD (d : digest) | TK (k : N) | TV (v : V).
Variable H : list tok -> digest.
Variable fixed : bool.   (* true = repaired split condition *)

Inductive page := Page (lvl : N) (cache : option digest) (ns : list node) (hp : option page)
with node := Node (k : N) (v : V) (lt : option page).

Definition plvl p := match p with Page l _ _ _ => l end.
Definition pnodes p := match p with Page _ _ ns _ => ns end.
Definition phigh p := match p with Page _ _ _ h => h end.
Definition pcache p := match p with Page _ c _ _ => c end.
Definition nkey n := match n with Node k _ _ => k end.
Definition nval n := match n with Node _ v _ => v end.
Definition nlt n := match n with Node _ _ l => l end.
Definition set_lt n l := match n with Node k v _ => Node k v l end.
Definition set_val n v := match n with Node k _ l => Node k v l end.

Definition max_key (p : page) : option N := match rev (pnodes p) with n :: _ => Some (nkey n) | [] => None end.
Definition min_key (p : page) : option N := match pnodes p with n :: _ => Some (nkey n) | [] => None end.
Definition nonempty (p : page) : bool := match pnodes p with [] => false | _ => true end.
Definition olt (a : option N) (k : N) : bool := match a with Some x => x <? k | None => false end.
Definition ogt (a : option N) (k : N) : bool := match a with Some x => k <? x | None => false end.
Definition is_none {A} (o : option A) : bool := match o with None => true | _ => false end.

Definition insert_high_page (p : page) (h : page) : res page :=
  do u1 <- assert (is_none (phigh p)) 75;
  do u2 <- assert (nonempty h) 76;
  Ok (Page (plvl p) None (pnodes p) (Some h)).

Definition ret2 := res (option page * option page).
Definition orec (rec : page -> N -> ret2) (o : option page) (k : N) : ret2 :=
  match o with None => Ok (None, None) | Some p => rec p k end.

Definition split_go (rec : page -> N -> ret2) (lvl : N) (c : option digest) (hp : option page) (k : N)
  : list node -> list node -> ret2 :=
  fix go (pre : list node) (ns : list node) {struct ns} : ret2 :=
       match ns with
       | [] =>
         do u1 <- assert (olt (match pre with n :: _ => Some (nkey n) | [] => None end) k) 397;
         do2 (lth, hp') <- orec rec hp k;
         let c' := if fixed then (match hp' with Some _ => None | None => c end)
                   else (match lth, hp' with Some _, Some _ => None | _, _ => c end) in
         Ok (Some (Page lvl c' (rev pre) lth), hp')
       | n :: rest =>
         if k <=? nkey n then
           match pre with
           | [] =>
             do u1 <- assert (k <? nkey n) 377;
             do2 (l, newlt) <- orec rec (nlt n) k;
             match l with
             | Some v => Ok (Some v, Some (Page lvl None (set_lt n newlt :: rest) hp))
             | None => Ok (None, Some (Page lvl c (set_lt n newlt :: rest) hp))
             end
           | _ =>
             let gte0 := Page lvl None (n :: rest) None in
             do u1 <- assert (ogt (max_key gte0) k) 450;
             do gte1 <- match hp with
                        | None => Ok gte0
                        | Some h =>
                          do u2 <- assert (nonempty h) 455;
                          do u3 <- assert (plvl h <? lvl) 456;
                          do u4 <- assert (ogt (min_key h) k) 457;
                          insert_high_page gte0 h
                        end;
             do2 (lkh, newlt) <- orec rec (nlt n) k;
             let gte := Page lvl None (set_lt n newlt :: rest) (phigh gte1) in
             let ltp := Page lvl None (rev pre) None in
             do u5 <- assert (nonempty ltp) 473;
             do u6 <- assert (olt (max_key ltp) k) 474;
             match lkh with
             | None => Ok (Some ltp, Some gte)
             | Some h =>
               do u7 <- assert (plvl h <? lvl) 478;
               do u8 <- assert (olt (max_key h) k) 479;
               do u9 <- assert (nonempty h) 480;
               do ltp' <- insert_high_page ltp h;
               Ok (Some ltp', Some gte)
             end
           end
         else go (n :: pre) rest
       end.

Fixpoint split_page (p : page) (k : N) {struct p} : ret2 :=
  match p with
  | Page lvl c ns hp =>
    do u0 <- assert (nonempty p) 368;
    split_go split_page lvl c hp k [] ns
  end.
Definition split_opt (o : option page) (k : N) : ret2 := orec split_page o k.

(* Common tail of upsert_node (page.rs:329-343) and insert_intermediate_page (589-601):
   given the freshly split lt page, re-split its high page; returns (lt page', gte page) *)
Definition resplit_high (parent_lvl : N) (lt : option page) (k : N) (s1 s2 s3 s4 s5 s6 : nat)
  : res (option page * option page) :=
  match lt with
  | None => Ok (None, None)
  | Some lp =>
    do u1 <- assert (plvl lp <? parent_lvl) s1;
    do u2 <- assert (nonempty lp) s2;
    do u3 <- assert (olt (max_key lp) k) s3;
    do2 (hlt, gte) <- split_opt (phigh lp) k;
    do u4 <- match gte with
             | None => Ok tt
             | Some g => do a <- assert (plvl g <? parent_lvl) s4; do b <- assert (nonempty g) s5; assert (ogt (max_key g) k) s6
             end;
    Ok (Some (Page (plvl lp) (pcache lp) (pnodes lp) hlt), gte)
  end.

(* Page::upsert_node *)
Fixpoint upsert_node_go (lvl : N) (c : option digest) (hp : option page) (k : N) (v : V)
  (pre : list node) (ns : list node) {struct ns} : res page :=
  match ns with
  | [] =>
    do2 (lt, rest) <- split_opt hp k;
    do2 (lt', gte) <- resplit_high lvl lt k 330 331 332 337 338 339;
    let self1 := Page lvl c (rev pre) rest in
    do self2 <- match gte with None => Ok self1 | Some g => insert_high_page self1 g end;
    Ok (Page lvl (pcache self2) (rev pre ++ [Node k v lt']) (phigh self2))
  | n :: r =>
    if k <=? nkey n then
      if nkey n =? k then Ok (Page lvl c (rev pre ++ set_val n v :: r) hp)
      else
        do2 (lt, rem) <- split_opt (nlt n) k;
        do2 (lt', gte) <- resplit_high lvl lt k 330 331 332 337 338 339;
        let self1 := Page lvl c (rev pre ++ set_lt n rem :: r) hp in
        do self2 <- match gte with None => Ok self1 | Some g => insert_high_page self1 g end;
        Ok (Page lvl (pcache self2) (rev pre ++ Node k v lt' :: set_lt n rem :: r) (phigh self2))
    else upsert_node_go lvl c hp k v (n :: pre) r
  end.
Definition upsert_node (p : page) (k : N) (v : V) : res page :=
  match p with Page lvl c ns hp => upsert_node_go lvl c hp k v [] ns end.

(* insert_intermediate_page *)
Definition insert_intermediate (child : page) (k : N) (level : N) (v : V) : res page :=
  do u1 <- assert (plvl child <? level) 525;
  do u2 <- assert (nonempty child) 526;
  do2 (lt, rest) <- split_page child k;
  do2 (lt', gte) <- resplit_high level lt k 590 591 592 597 598 599;
  let inter0 := Page level None [Node k v None] None in
  do inter1 <- match gte with None => Ok inter0 | Some g => insert_high_page inter0 g end;
  (* old child = rest (None models the empty placeholder page) *)
  do hp' <- match rest with
            | None => Ok (phigh inter1)
            | Some old =>
              do a <- assert (ogt (max_key old) k) 633;
              do b <- assert (plvl old <? level) 634;
              Ok (Some old)
            end;
  Ok (Page level (pcache inter1) [Node k v lt'] hp').

Inductive upres := Complete (p : page) | InsertIntermediate.

(* the `get_or_insert_with` + recursive upsert + intermediate-page step on one child link (page.rs:250-255) *)
Definition child_upsert (rec : page -> N -> N -> V -> res upres) (k level : N) (v : V) (o : option page) : res (option page) :=
  match o with
  | None => Ok (Some (Page level None [Node k v None] None))
  | Some ch =>
    do r <- rec ch k level v;
    match r with
    | Complete ch' => Ok (Some ch')
    | InsertIntermediate => do ch' <- insert_intermediate ch k level v; Ok (Some ch')
    end
  end.
(* find the child link to descend into (page.rs:240-248) *)
Definition upsert_descend (rec : page -> N -> N -> V -> res upres) (lvl : N) (hp : option page) (k level : N) (v : V)
  : list node -> list node -> res upres :=
  fix go (pre : list node) (ns : list node) {struct ns} : res upres :=
  match ns with
  | [] => do hp' <- child_upsert rec k level v hp; Ok (Complete (Page lvl None (rev pre) hp'))
  | n :: r =>
    if k <=? nkey n then
      do u3 <- assert (k <? nkey n) 244;
      do lt' <- child_upsert rec k level v (nlt n);
      Ok (Complete (Page lvl None (rev pre ++ set_lt n lt' :: r) hp))
    else go (n :: pre) r
  end.

Fixpoint upsert_page (p : page) (k : N) (level : N) (v : V) {struct p} : res upres :=
  match p with
  | Page lvl c ns hp =>
    if level <? lvl then
      do u1 <- assert (negb (lvl =? 255)) 233;
      do u2 <- assert (nonempty p) 234;
      upsert_descend upsert_page lvl hp k level v [] ns
    else if level =? lvl then
      do p' <- upsert_node p k v;
      Ok (Complete (Page (plvl p') None (pnodes p') (phigh p')))
    else Ok InsertIntermediate
  end.

Record mst := MST { root : page; root_hash : option digest }.
Definition mst_init := MST (Page 0 None [] None) None.
Definition mst_upsert (t : mst) (k : N) (level : N) (v : V) : res mst :=
  do r <- upsert_page (root t) k level v;
  match r with
  | Complete p' => Ok (MST p' None)
  | InsertIntermediate =>
    if nonempty (root t) then do p' <- insert_intermediate (root t) k level v; Ok (MST p' None)
    else Ok (MST (Page level None [Node k v None] None) None)
  end.

(* maybe_generate_hash (page.rs:177-214) *)
Definition gen_opt (rec : page -> page * digest) (o : option page) : option page * list tok :=
  match o with
  | None => (None, [])
  | Some c => let '(c', d) := rec c in (Some c', [TD d])
  end.
Definition gen_nodes (rec : page -> page * digest) : list node -> list node * list tok :=
  fix go (ns : list node) : list node * list tok :=
    match ns with
    | [] => ([], [])
    | n :: r =>
      let '(lt', t1) := gen_opt rec (nlt n) in
      let '(r', t2) := go r in
      (set_lt n lt' :: r', t1 ++ [TK (nkey n); TV (nval n)] ++ t2)
    end.
Fixpoint gen_hash (p : page) {struct p} : page * digest :=
  match p with
  | Page lvl (Some d) ns hp => (p, d)
  | Page lvl None ns hp =>
    let '(ns', toks) := gen_nodes gen_hash ns in
    let '(hp', t3) := gen_opt gen_hash hp in
    let d := H (toks ++ t3) in
    (Page lvl (Some d) ns' hp', d)
  end.
Definition mst_root_hash (t : mst) : mst * digest :=
  let '(p, d) := gen_hash (root t) in (MST p (Some d), d).


(* ---------- min/max subtree keys (page.rs:149-168) ---------- *)
Fixpoint min_subtree_key (p : page) : res N :=
  match p with
  | Page _ _ ns _ =>
    match ns with
    | n :: _ => match nlt n with Some c => min_subtree_key c | None => Ok (nkey n) end
    | [] => Panic 129
    end
  end.
Fixpoint max_subtree_key (p : page) : res N :=
  match p with
  | Page _ _ ns hp =>
    match hp with
    | Some h => max_subtree_key h
    | None => match max_key p with Some k => Ok k | None => Panic 141 end
    end
  end.

Record prange := PR { ps : N; pe : N; ph : digest }.
(* PageRange::from(&Page) (diff/page_range.rs:118-132) *)
Definition range_of (p : page) : res prange :=
  do s <- min_subtree_key p;
  do e <- max_subtree_key p;
  match pcache p with Some d => Ok (PR s e d) | None => Panic 126 end.

(* ---------- traversal with a visitor (page.rs:93-118, node.rs:30-53) ---------- *)
Inductive ev :=
| EIn (p : page) (hp : bool) | EOut (p : page)
| EPre (n : node) | EVisit (n : node) | EPost (n : node).
Record vst := VS { cnt : nat; evs : list ev (* reversed *) }.
Variable answers : nat -> bool.   (* the visitor's i-th answer *)
Definition cb (e : ev) (s : vst) : vst * bool := (VS (S (cnt s)) (e :: evs s), answers (cnt s)).

Fixpoint trav (p : page) (hp : bool) (s : vst) {struct p} : vst * bool :=
  match p with
  | Page _ _ ns high =>
    let '(s, b) := cb (EIn p hp) s in
    if negb b then (s, false) else
    let '(s, b) :=
      (fix go (ns : list node) (s : vst) : vst * bool :=
         match ns with
         | [] => (s, true)
         | n :: r =>
           let '(s, b) := cb (EPre n) s in
           if negb b then (s, false) else
           let '(s, b) := match nlt n with Some c => trav c false s | None => (s, true) end in
           if negb b then (s, false) else
           let '(s, b) := cb (EVisit n) s in
           if negb b then (s, false) else
           let '(s, b) := cb (EPost n) s in
           if negb b then (s, false) else go r s
         end) ns s in
    if negb b then (s, false) else
    let '(s, b) := cb (EOut p) s in
    if negb b then (s, false) else
    match high with Some h => trav h true s | None => (s, true) end
  end.
Definition traverse (t : mst) : list ev * bool :=
  let '(s, b) := trav (root t) false (VS 0 []) in (rev (evs s), b).

(* serialise_page_ranges (tree.rs:273-287) through the PageRangeHashVisitor:
   visit_page pushes PageRange::from(page), everything answers true *)
Fixpoint ranges_page (p : page) {struct p} : res (list prange) :=
  match p with
  | Page _ _ ns high =>
    do r0 <- range_of p;
    do rs <- (fix go (ns : list node) : res (list prange) :=
                match ns with
                | [] => Ok []
                | n :: r =>
                  do a <- match nlt n with Some c => ranges_page c | None => Ok [] end;
                  do b <- go r; Ok (a ++ b)
                end) ns;
    do rh <- match high with Some h => ranges_page h | None => Ok [] end;
    Ok (r0 :: rs ++ rh)
  end.
Definition mst_serialise (t : mst) : res (option (list prange)) :=
  match root_hash t with
  | None => Ok None
  | Some _ => if nonempty (root t) then do l <- ranges_page (root t); Ok (Some l) else Ok (Some [])
  end.

(* ---------- NodeIter (node_iter.rs:55-128) ---------- *)
Inductive vstate := Unvisited | Descended.
Record pvisit := PV { pv_page : page; pv_idx : nat; pv_state : vstate }.
Inductive iter_res := IDone | IYield (n : node) (stack : list pvisit) | IPanic (w : nat) | IFuel.
Fixpoint iter_next (fuel : nat) (stack : list pvisit) : iter_res :=
  match fuel with
  | O => IFuel
  | S f =>
    match stack with
    | [] => IDone
    | p :: stack =>
      match nth_error (pnodes (pv_page p)) (pv_idx p) with
      | None =>
        match phigh (pv_page p) with
        | Some h => iter_next f (PV h 0 Unvisited :: stack)
        | None => iter_next f stack
        end
      | Some n =>
        let yield := IYield n (PV (pv_page p) (S (pv_idx p)) Unvisited :: stack) in
        match pv_state p with
        | Unvisited =>
          match nlt n with
          | Some lt => iter_next f (PV lt 0 Unvisited :: PV (pv_page p) (pv_idx p) Descended :: stack)
          | None => yield
          end
        | Descended => if is_none (nlt n) then IPanic 114 else yield
        end
      end
    end
  end.
Fixpoint psize (p : page) : nat :=
  match p with
  | Page _ _ ns hp =>
    S ((fix go (ns : list node) : nat :=
          match ns with [] => O | n :: r => S (match nlt n with Some c => psize c | None => O end + go r) end) ns
       + match hp with Some h => psize h | None => O end)
  end.
(* collect: outer fuel bounds the number of yields, inner fuel the steps between yields *)
Fixpoint iter_all (outer : nat) (inner : nat) (stack : list pvisit) : res (list node) :=
  match outer with
  | O => Panic 0
  | S o =>
    match iter_next inner stack with
    | IDone => Ok []
    | IYield n st => do r <- iter_all o inner st; Ok (n :: r)
    | IPanic w => Panic w
    | IFuel => Fuel
    end
  end.
Definition node_iter (t : mst) : res (list node) :=
  let sz := psize (root t) in iter_all (S sz) (2 * sz + 2) [PV (root t) 0 Unvisited].
End M.

(* ---------- digest::level (digest/trait.rs:76-100) ---------- *)
Definition base_count_zero (v base : N) : N :=
  if v =? 0 then 2 else if v mod base =? 0 then 1 else 0.
Fixpoint level_go (bytes : list N) (base : N) (out : N) : N :=
  match bytes with
  | [] => out
  | v :: r => match base_count_zero v base with
              | 2 => level_go r base (out + 2)
              | 1 => out + 1
              | _ => out
              end
  end.
Definition level (bytes : list N) (base : N) : N := level_go bytes base 0.
