(* C17: the nesting protocol as a grammar, and the fact that the full callback sequence of every page obeys it:
     page(hp)  ::= In(page, hp)  nodes  Out(page)  high?          high = page(true) of the high page
     nodes     ::= ( Pre(n)  lower?  Visit(n)  Post(n) )*          lower = page(false) of n's lower subtree *)
From MST Require Import Base TreeM Spec Trav.

Section G.
Variable digest V : Type.
Notation page := (page digest V).
Notation node := (node digest V).
Notation ev := (ev digest V).
Notation events := (events digest V). Notation events_nodes := (events_nodes digest V). Notation events_opt := (events_opt digest V).

Inductive page_events : page -> bool -> list ev -> Prop :=
| PE p hp body tail :
    nodes_events (pnodes _ _ p) body ->
    opt_events (phigh _ _ p) true tail ->
    page_events p hp (EIn _ _ p hp :: body ++ EOut _ _ p :: tail)
with nodes_events : list node -> list ev -> Prop :=
| NE_nil : nodes_events [] []
| NE_cons n r sub rest :
    opt_events (nlt _ _ n) false sub ->
    nodes_events r rest ->
    nodes_events (n :: r) (EPre _ _ n :: sub ++ EVisit _ _ n :: EPost _ _ n :: rest)
with opt_events : option page -> bool -> list ev -> Prop :=
| OE_none hp : opt_events None hp []
| OE_some p hp l : page_events p hp l -> opt_events (Some p) hp l.

Theorem events_obey_protocol : forall p hp, page_events p hp (events p hp).
Proof.
  induction p as [l c ns high IHns IHhigh] using (page_ind' digest V). intros hp.
  rewrite events_eq. cbn [TreeM.pnodes TreeM.phigh]. apply PE; cbn [TreeM.pnodes TreeM.phigh].
  - clear IHhigh. induction IHns as [|n r Hn Hr IH]; cbn [Trav.events_nodes]; [constructor|].
    apply NE_cons; [|exact IH]. destruct (nlt digest V n) as [q|]; cbn [Trav.events_opt PO] in *; [apply OE_some; apply Hn|apply OE_none].
  - destruct high as [h|]; cbn [Trav.events_opt PO] in *; [apply OE_some; apply IHhigh|apply OE_none].
Qed.
End G.
