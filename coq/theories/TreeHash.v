From MST Require Import Base TreeM Spec.

Section HashSpec.
Variable digest V : Type.
Variable H : list (tok digest V) -> digest.
Variable lvl_of : N -> N.

Notation page := (page digest V).
Notation node := (node digest V).
Notation Page := (Page digest V).
Notation Node := (Node digest V).
Notation plvl := (plvl digest V). Notation pnodes := (pnodes digest V).
Notation phigh := (phigh digest V). Notation pcache := (pcache digest V).
Notation nkey := (nkey digest V). Notation nval := (nval digest V). Notation nlt := (nlt digest V).
Notation set_lt := (set_lt digest V).
Notation gen_hash := (gen_hash digest V H). Notation gen_opt := (gen_opt digest V). Notation gen_nodes := (gen_nodes digest V).
Notation content := (content digest V). Notation content_opt := (content_opt digest V). Notation content_nodes := (content_nodes digest V).
Notation shape := (shape digest V lvl_of). Notation shape_opt := (shape_opt digest V lvl_of). Notation shape_nodes := (shape_nodes digest V lvl_of).
Notation cache_ok := (cache_ok digest V H). Notation cache_ok_opt := (cache_ok_opt digest V H). Notation cache_ok_nodes := (cache_ok_nodes digest V H).
Notation ref_hash := (ref_hash digest V H). Notation ref_toks := (ref_toks digest V H). Notation ref_tok_opt := (ref_tok_opt digest V H).
Notation shape_eq := (shape_eq digest V lvl_of). Notation content_eq := (content_eq digest V).
Notation cache_ok_eq := (cache_ok_eq digest V H). Notation ref_hash_eq := (ref_hash_eq digest V H).

(* ---- strip: forget the caches ---- *)
Fixpoint strip (p : page) : page :=
  match p with
  | TreeM.Page _ _ l _ ns hp =>
    Page l None
      ((fix go (ns : list node) : list node :=
          match ns with [] => [] | n :: r => set_lt n (match nlt n with Some c => Some (strip c) | None => None end) :: go r end) ns)
      (match hp with Some h => Some (strip h) | None => None end)
  end.
Definition strip_opt (o : option page) : option page := match o with Some c => Some (strip c) | None => None end.
Fixpoint strip_nodes (ns : list node) : list node :=
  match ns with [] => [] | n :: r => set_lt n (strip_opt (nlt n)) :: strip_nodes r end.
Lemma strip_eq p : strip p = Page (plvl p) None (strip_nodes (pnodes p)) (strip_opt (phigh p)).
Proof. destruct p as [l c ns hp]. reflexivity. Qed.
Arguments strip : simpl never.

(* two pages equal up to caches *)
Definition eqs (p q : page) : Prop := strip p = strip q.
Definition eqs_opt (a b : option page) : Prop := strip_opt a = strip_opt b.
Definition eqs_nodes (a b : list node) : Prop := strip_nodes a = strip_nodes b.

Lemma eqs_inv p q : eqs p q <-> plvl p = plvl q /\ eqs_nodes (pnodes p) (pnodes q) /\ eqs_opt (phigh p) (phigh q).
Proof. unfold eqs, eqs_nodes, eqs_opt. rewrite !strip_eq. split.
  - intros [= A B C]. auto.
  - intros (A & B & C). congruence. Qed.
Lemma eqs_opt_inv a b : eqs_opt a b <-> match a, b with Some p, Some q => eqs p q | None, None => True | _, _ => False end.
Proof. unfold eqs_opt, eqs. destruct a, b; cbn; split; intros E; try congruence; try tauto; try discriminate; try (injection E; auto). Qed.
Lemma eqs_nodes_inv a b : eqs_nodes a b <->
  match a, b with
  | n :: r, m :: s => nkey n = nkey m /\ nval n = nval m /\ eqs_opt (nlt n) (nlt m) /\ eqs_nodes r s
  | [], [] => True | _, _ => False end.
Proof. unfold eqs_nodes, eqs_opt. destruct a as [|[k v l] r], b as [|[k' v' l'] s]; cbn; split; intros E; try congruence; try tauto; try discriminate.
  - injection E as A B C D. auto.
  - destruct E as (A & B & C & D). congruence. Qed.

(* functions of the stripped tree *)
Lemma content_eqs : forall p q, eqs p q -> content p = content q.
Proof.
  induction p as [l c ns hp IHns IHhp] using (page_ind' digest V). intros q E.
  apply eqs_inv in E. destruct q as [l' c' ns' hp']. cbn [TreeM.plvl TreeM.pnodes TreeM.phigh] in E. destruct E as (_ & En & Eh).
  rewrite !content_eq. cbn [TreeM.pnodes TreeM.phigh]. f_equal.
  - clear Eh IHhp. revert ns' En. induction IHns as [|n r Hn Hr IH]; intros ns' En; apply eqs_nodes_inv in En; destruct ns' as [|m s]; try tauto.
    destruct En as (A & B & C & D). cbn [Spec.content_nodes]. rewrite A, B. f_equal; [|f_equal; apply IH; exact D].
    apply eqs_opt_inv in C. destruct (nlt n) as [x|], (nlt m) as [y|]; try tauto. cbn. apply Hn. exact C.
  - apply eqs_opt_inv in Eh. destruct hp as [x|], hp' as [y|]; try tauto. cbn. apply IHhp. exact Eh.
Qed.
Lemma ref_hash_eqs : forall p q, eqs p q -> ref_hash p = ref_hash q.
Proof.
  induction p as [l c ns hp IHns IHhp] using (page_ind' digest V). intros q E.
  apply eqs_inv in E. destruct q as [l' c' ns' hp']. cbn [TreeM.plvl TreeM.pnodes TreeM.phigh] in E. destruct E as (_ & En & Eh).
  rewrite !ref_hash_eq. cbn [TreeM.pnodes TreeM.phigh]. f_equal. f_equal.
  - clear Eh IHhp. revert ns' En. induction IHns as [|n r Hn Hr IH]; intros ns' En; apply eqs_nodes_inv in En; destruct ns' as [|m s]; try tauto.
    destruct En as (A & B & C & D). cbn [Spec.ref_toks]. rewrite A, B. f_equal; [|cbn [app]; do 2 f_equal; apply IH; exact D].
    apply eqs_opt_inv in C. destruct (nlt n) as [x|], (nlt m) as [y|]; try tauto. cbn. f_equal. f_equal. apply Hn. exact C.
  - apply eqs_opt_inv in Eh. destruct hp as [x|], hp' as [y|]; try tauto. cbn. f_equal. f_equal. apply IHhp. exact Eh.
Qed.
Lemma shape_eqs : forall p q L, eqs p q -> shape L p -> shape L q.
Proof.
  induction p as [l c ns hp IHns IHhp] using (page_ind' digest V). intros q L E Hs.
  apply eqs_inv in E. destruct q as [l' c' ns' hp']. cbn [TreeM.plvl TreeM.pnodes TreeM.phigh] in E. destruct E as (<- & En & Eh).
  apply shape_eq in Hs. apply shape_eq. cbn [TreeM.plvl TreeM.pnodes TreeM.phigh] in *. destruct Hs as (A & B & C & D).
  split; [exact A|]. split.
  { intros ->. apply eqs_nodes_inv in En. destruct ns; [congruence|tauto]. }
  split.
  - clear Eh IHhp B D. revert ns' En C. induction IHns as [|n r Hn Hr IH]; intros ns' En C; apply eqs_nodes_inv in En; destruct ns' as [|m s]; try tauto.
    destruct En as (Ek & _ & El & Er). cbn [Spec.shape_nodes] in *. destruct C as (C1 & C2 & C3). rewrite <- Ek. split; [exact C1|]. split; [|apply IH; assumption].
    apply eqs_opt_inv in El. destruct (nlt n) as [x|], (nlt m) as [y|]; try tauto. cbn in *. apply (Hn y l El C2).
  - apply eqs_opt_inv in Eh. destruct hp as [x|], hp' as [y|]; try tauto. cbn in *. apply (IHhp y l Eh D).
Qed.

Notation all_cached := (all_cached digest V). Notation all_cached_opt := (all_cached_opt digest V).
Notation all_cached_nodes := (all_cached_nodes digest V). Notation all_cached_eq := (all_cached_eq digest V).

(* ---- gen_hash ---- *)
Definition GH (rec : page -> page * digest) (q : page) : Prop :=
  cache_ok q ->
  let '(q', d) := rec q in
  d = ref_hash q /\ eqs q' q /\ cache_ok q' /\ all_cached q' /\ pcache q' = Some d.
Definition GHo rec (o : option page) := match o with Some q => GH rec q | None => True end.

Lemma gen_opt_spec rec o : GHo rec o -> cache_ok_opt o ->
  let '(o', t) := gen_opt rec o in
  t = ref_tok_opt o /\ eqs_opt o' o /\ cache_ok_opt o' /\ all_cached_opt o'.
Proof.
  destruct o as [q|]; cbn [TreeM.gen_opt]; intros HG Hc.
  - cbn in HG, Hc. specialize (HG Hc). destruct (rec q) as [q' d]. destruct HG as (A & B & C & D & _).
    cbn. subst d. repeat split; auto. unfold eqs_opt. cbn. unfold eqs in B. congruence.
  - cbn. repeat split; auto.
Qed.
Lemma gen_nodes_spec rec : forall ns, Forall (fun n => GHo rec (nlt n)) ns -> cache_ok_nodes ns ->
  let '(ns', t) := gen_nodes rec ns in
  t = ref_toks ns /\ eqs_nodes ns' ns /\ cache_ok_nodes ns' /\ all_cached_nodes ns'.
Proof.
  induction ns as [|n r IH]; intros HG Hc; cbn [TreeM.gen_nodes].
  - cbn. repeat split; auto.
  - inversion HG as [|? ? Hn Hr]; subst. cbn [Spec.cache_ok_nodes] in Hc. destruct Hc as (Hc1 & Hc2).
    pose proof (gen_opt_spec rec (nlt n) Hn Hc1) as HO. destruct (gen_opt rec (nlt n)) as [lt' t1]. destruct HO as (A & B & C & D).
    specialize (IH Hr Hc2). fold (gen_nodes rec) in *. destruct (gen_nodes rec r) as [r' t2]. destruct IH as (A' & B' & C' & D').
    subst. split; [reflexivity|]. split.
    + apply eqs_nodes_inv. destruct n as [k v l]. cbn in *. auto.
    + destruct n as [k v l]. cbn in *. auto.
Qed.

Theorem gen_hash_spec : forall p, GH gen_hash p.
Proof.
  induction p as [l c ns hp IHns IHhp] using (page_ind' digest V). intros Hc.
  apply cache_ok_eq in Hc. cbn [TreeM.pcache TreeM.pnodes TreeM.phigh] in Hc. destruct Hc as (Hc0 & Hcn & Hch).
  destruct c as [d|]; cbn [TreeM.gen_hash].
  - (* cached: returned as is *)
    destruct Hc0 as (Hd & Hn & Hh). split; [exact Hd|]. split; [reflexivity|].
    split; [apply cache_ok_eq; cbn [TreeM.pcache TreeM.pnodes TreeM.phigh]; auto|].
    split; [apply all_cached_eq; cbn [TreeM.pcache TreeM.pnodes TreeM.phigh]; repeat split; auto; discriminate|reflexivity].
  - pose proof (gen_nodes_spec gen_hash ns IHns Hcn) as HN. destruct (gen_nodes gen_hash ns) as [ns' toks]. destruct HN as (A & B & C & D).
    pose proof (gen_opt_spec gen_hash hp IHhp Hch) as HO. destruct (gen_opt gen_hash hp) as [hp' t3]. destruct HO as (A' & B' & C' & D').
    subst toks t3. change (H (ref_toks ns ++ ref_tok_opt hp)) with (ref_hash (Page l None ns hp)).
    split; [reflexivity|].
    assert (E: eqs (Page l (Some (ref_hash (Page l None ns hp))) ns' hp') (Page l None ns hp)).
    { apply eqs_inv. cbn. auto. }
    split; [exact E|]. split.
    + apply cache_ok_eq. cbn [TreeM.pcache TreeM.pnodes TreeM.phigh]. split; [split; [symmetry; apply ref_hash_eqs; exact E|split; [exact D|exact D']]|]. split; [exact C|exact C'].
    + split; [apply all_cached_eq; cbn; repeat split; auto; discriminate|reflexivity].
Qed.
Lemma strip_idem : forall p, strip (strip p) = strip p.
Proof.
  induction p as [l c ns hp IHns IHhp] using (page_ind' digest V).
  rewrite (strip_eq (Page l c ns hp)). cbn [TreeM.plvl TreeM.pnodes TreeM.phigh].
  rewrite strip_eq. cbn [TreeM.plvl TreeM.pnodes TreeM.phigh]. f_equal.
  - clear IHhp. induction IHns as [|n r Hn Hr IH]; [reflexivity|]. cbn [strip_nodes]. rewrite IH. f_equal.
    destruct n as [k v lt]. cbn [TreeM.set_lt TreeM.nlt] in *. f_equal.
    destruct lt as [q|]; cbn [strip_opt PO] in *; [rewrite Hn|]; reflexivity.
  - destruct hp as [h|]; cbn [strip_opt PO] in *; [rewrite IHhp|]; reflexivity.
Qed.
End HashSpec.
