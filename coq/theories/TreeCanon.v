From MST Require Import Base TreeM Spec TreeUpsert TreeHash.

Section Canon.
Variable digest V : Type.
Variable lvl_of : N -> N.
Hypothesis lvl_of_u8 : forall k, lvl_of k < 255.

Notation page := (page digest V).
Notation node := (node digest V).
Notation Page := (Page digest V).
Notation plvl := (plvl digest V). Notation pnodes := (pnodes digest V). Notation phigh := (phigh digest V).
Notation nkey := (nkey digest V). Notation nval := (nval digest V). Notation nlt := (nlt digest V).
Notation content := (content digest V). Notation content_opt := (content_opt digest V). Notation content_nodes := (content_nodes digest V).
Notation shape := (shape digest V lvl_of). Notation shape_opt := (shape_opt digest V lvl_of). Notation shape_nodes := (shape_nodes digest V lvl_of).
Notation shape_eq := (shape_eq digest V lvl_of). Notation content_eq := (content_eq digest V).
Notation eqs := (eqs digest V). Notation eqs_opt := (eqs_opt digest V). Notation eqs_nodes := (eqs_nodes digest V).
Notation shape_key_levels := (shape_key_levels digest V lvl_of lvl_of_u8).

Definition lowk (l : N) (kv : N * V) : Prop := lvl_of (fst kv) < l.

Lemma content_low L (p : page) : shape L p -> Forall (lowk L) (content p).
Proof.
  intros Hs. destruct (shape_key_levels p L Hs) as (Hk & _). apply shape_eq in Hs. destruct Hs as (Hl & _).
  rewrite Forall_forall in *. intros [k v] Hin. unfold lowk. cbn [fst].
  assert (In k (keys (content p))) by (unfold keys; apply in_map_iff; exists (k, v); auto).
  specialize (Hk _ H). lia.
Qed.
Lemma content_opt_low L (o : option page) : shape_opt L o -> Forall (lowk L) (content_opt o).
Proof. destruct o; cbn; [apply content_low|constructor]. Qed.

(* first element at the page level splits the list uniquely *)
Lemma split_first l (a a' b b' : list (N * V)) x x' :
  Forall (lowk l) a -> Forall (lowk l) a' -> lvl_of (fst x) = l -> lvl_of (fst x') = l ->
  a ++ x :: b = a' ++ x' :: b' -> a = a' /\ x = x' /\ b = b'.
Proof.
  revert a'. induction a as [|y a IH]; intros a' Ha Ha' Hx Hx' E.
  - destruct a' as [|y' a']; cbn [app] in E.
    + injection E as E1 E2. auto.
    + exfalso. injection E as E1 E2. inversion Ha' as [|? ? Hy' _]. unfold lowk in Hy'. rewrite <- E1 in Hy'. lia.
  - destruct a' as [|y' a']; cbn [app] in E.
    + exfalso. injection E as E1 E2. inversion Ha as [|? ? Hy _]. unfold lowk in Hy. rewrite E1 in Hy. lia.
    + injection E as E1 E2. inversion Ha as [|? ? _ Ha0]. inversion Ha' as [|? ? _ Ha0'].
      destruct (IH a' Ha0 Ha0' Hx Hx' E2) as (Q1 & Q2 & Q3). subst. auto.
Qed.
Lemma no_level_key l (a : list (N * V)) a' x b : Forall (lowk l) a -> lvl_of (fst x) = l -> a = a' ++ x :: b -> False.
Proof. intros Ha Hx ->. rewrite Forall_app in Ha. destruct Ha as (_ & Ha). inversion Ha; subst. unfold lowk in *. lia. Qed.

Definition CAN (p : page) : Prop := forall L L' q, shape L p -> shape L' q -> content p = content q -> eqs p q.
Definition CANo (o : option page) : Prop := match o with Some p => CAN p | None => True end.

Lemma canon_opt l o o' : CANo o -> shape_opt l o -> shape_opt l o' -> content_opt o = content_opt o' -> eqs_opt o o'.
Proof.
  destruct o as [p|], o' as [q|]; cbn; intros Hc Hs Hs' E.
  - apply eqs_opt_inv. apply (Hc l l q Hs Hs' E).
  - exfalso. apply (shape_content_nonempty _ _ _ _ _ Hs). exact E.
  - exfalso. apply (shape_content_nonempty _ _ _ _ _ Hs'). symmetry. exact E.
  - reflexivity.
Qed.

Lemma canon_nodes l : forall ns, Forall (fun n => CANo (nlt n)) ns -> forall hp, CANo hp -> forall ns' hp',
  shape_nodes l ns -> shape_opt l hp -> shape_nodes l ns' -> shape_opt l hp' ->
  content_nodes ns ++ content_opt hp = content_nodes ns' ++ content_opt hp' ->
  eqs_nodes ns ns' /\ eqs_opt hp hp'.
Proof.
  induction ns as [|n r IH]; intros Hns hp Hhp ns' hp' S1 S2 S1' S2' E.
  - destruct ns' as [|m s].
    + cbn in E. split; [reflexivity|]. eapply canon_opt; eauto.
    + exfalso. cbn [Spec.content_nodes app] in E. cbn [Spec.shape_nodes] in S1'. destruct S1' as (Hm & _).
      rewrite <- app_assoc in E. cbn [app] in E. eapply (no_level_key l (content_opt hp) _ (nkey m, nval m)); [apply content_opt_low; exact S2|exact Hm|exact E].
  - inversion Hns as [|? ? Hn Hr]; subst. cbn [Spec.shape_nodes] in S1. destruct S1 as (Hnl & Hnc & Hrs).
    destruct ns' as [|m s].
    + exfalso. cbn [Spec.content_nodes app] in E. rewrite <- app_assoc in E. cbn [app] in E. symmetry in E.
      eapply (no_level_key l (content_opt hp') _ (nkey n, nval n)); [apply content_opt_low; exact S2'|exact Hnl|exact E].
    + cbn [Spec.shape_nodes] in S1'. destruct S1' as (Hml & Hmc & Hss).
      cbn [Spec.content_nodes] in E. rewrite <- !app_assoc in E. cbn [app] in E.
      destruct (split_first l (content_opt (nlt n)) (content_opt (nlt m)) _ _ (nkey n, nval n) (nkey m, nval m) (content_opt_low _ _ Hnc) (content_opt_low _ _ Hmc) Hnl Hml E) as (E1 & E2 & E3).
      destruct (IH Hr hp Hhp s hp' Hrs S2 Hss S2' E3) as (I1 & I2).
      split; [|exact I2]. apply (eqs_nodes_inv digest V lvl_of). injection E2 as Ek Ev.
      split; [exact Ek|]. split; [exact Ev|]. split; [|exact I1]. eapply canon_opt; eauto.
Qed.

Theorem canonical : forall p, CAN p.
Proof.
  induction p as [l c ns hp IHns IHhp] using (page_ind' digest V). intros L L' q Hs Hs' E.
  destruct q as [l' c' ns' hp'].
  pose proof Hs as Hs0. pose proof Hs' as Hs0'.
  apply shape_eq in Hs. apply shape_eq in Hs'. cbn [TreeM.plvl TreeM.pnodes TreeM.phigh] in *.
  destruct Hs as (HL & Hne & Hsn & Hsh). destruct Hs' as (HL' & Hne' & Hsn' & Hsh').
  assert (El: l = l').
  { destruct (shape_key_levels _ _ Hs0) as (K1 & _). destruct (shape_key_levels _ _ Hs0') as (K2 & _). cbn [TreeM.plvl] in *.
    rewrite Forall_forall in K1, K2.
    destruct ns as [|n r]; [congruence|]. destruct ns' as [|m s]; [congruence|].
    cbn [Spec.shape_nodes] in Hsn, Hsn'. destruct Hsn as (A & _). destruct Hsn' as (A' & _).
    assert (In (nkey n) (keys (content (Page l c (n :: r) hp)))).
    { rewrite content_eq. cbn [TreeM.pnodes]. rewrite keys_app, in_app_iff. left. apply In_nkey_content. now left. }
    assert (In (nkey m) (keys (content (Page l' c' (m :: s) hp')))).
    { rewrite content_eq. cbn [TreeM.pnodes]. rewrite keys_app, in_app_iff. left. apply In_nkey_content. now left. }
    rewrite E in H. rewrite <- E in H0. specialize (K2 _ H). specialize (K1 _ H0). lia. }
  subst l'. rewrite !content_eq in E. cbn [TreeM.pnodes TreeM.phigh] in E.
  destruct (canon_nodes l ns IHns hp IHhp ns' hp' Hsn Hsh Hsn' Hsh' E) as (A & B).
  apply eqs_inv. cbn [TreeM.plvl TreeM.pnodes TreeM.phigh]. auto.
Qed.
Print Assumptions canonical.
End Canon.
