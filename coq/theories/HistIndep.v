From MST Require Import Base TreeM Spec TreeUpsert TreeHash TreeInv TreeCanon.

Section HistIndep.
Variable digest V : Type.
Variable H : list (tok digest V) -> digest.
Variable lvl_of : N -> N.
Hypothesis lvl_of_u8 : forall k, lvl_of k < 255.

Notation page := (page digest V).
Notation node := (node digest V).
Notation mst := (mst digest V).
Notation plvl := (plvl digest V). Notation pnodes := (pnodes digest V). Notation phigh := (phigh digest V). Notation pcache := (pcache digest V).
Notation nlt := (nlt digest V).
Notation root := (root digest V). Notation root_hash := (root_hash digest V).
Notation content := (content digest V).
Notation cache_ok := (cache_ok digest V H). Notation cache_ok_opt := (cache_ok_opt digest V H). Notation cache_ok_nodes := (cache_ok_nodes digest V H).
Notation all_cached := (all_cached digest V). Notation all_cached_opt := (all_cached_opt digest V). Notation all_cached_nodes := (all_cached_nodes digest V).
Notation ref_hash := (ref_hash digest V H).
Notation eqs := (eqs digest V). Notation eqs_opt := (eqs_opt digest V). Notation eqs_nodes := (eqs_nodes digest V).
Notation Inv := (Inv digest V H lvl_of).
Notation run := (run digest V H lvl_of). Notation final_map := (final_map V).
Notation mst_root_hash := (mst_root_hash digest V H).

(* fully cached, valid trees that agree up to caches are identical *)
Definition FULL (p : page) : Prop := forall q, eqs p q -> all_cached p -> all_cached q -> cache_ok p -> cache_ok q -> p = q.
Definition FULLo (o : option page) := match o with Some p => FULL p | None => True end.

Lemma full_opt o o' : FULLo o -> eqs_opt o o' -> all_cached_opt o -> all_cached_opt o' -> cache_ok_opt o -> cache_ok_opt o' -> o = o'.
Proof.
  intros F E. apply eqs_opt_inv in E. destruct o as [p|], o' as [q|]; cbn in *; try tauto.
  intros. f_equal. apply F; auto.
Qed.
Lemma full_nodes : forall ns, Forall (fun n => FULLo (nlt n)) ns -> forall ns', eqs_nodes ns ns' ->
  all_cached_nodes ns -> all_cached_nodes ns' -> cache_ok_nodes ns -> cache_ok_nodes ns' -> ns = ns'.
Proof.
  induction ns as [|n r IH]; intros F ns' E A A' C C'; apply (eqs_nodes_inv digest V lvl_of) in E; destruct ns' as [|m s]; try tauto.
  inversion F as [|? ? Fn Fr]; subst. destruct E as (E1 & E2 & E3 & E4). cbn in A, A', C, C'.
  destruct A as (A1 & A2), A' as (A1' & A2'), C as (C1 & C2), C' as (C1' & C2').
  f_equal; [|apply IH; auto]. destruct n as [k v l], m as [k' v' l']. cbn in *. subst. f_equal.
  apply full_opt; auto.
Qed.
Theorem full_eq : forall p, FULL p.
Proof.
  induction p as [l c ns hp IHns IHhp] using (page_ind' digest V). intros q E A A' C C'.
  pose proof (ref_hash_eqs digest V H lvl_of _ _ E) as ER.
  apply eqs_inv in E. destruct q as [l' c' ns' hp']. cbn [TreeM.plvl TreeM.pnodes TreeM.phigh] in E. destruct E as (<- & En & Eh).
  apply all_cached_eq in A, A'. apply cache_ok_eq in C, C'. cbn [TreeM.pcache TreeM.pnodes TreeM.phigh] in *.
  destruct A as (A0 & A1 & A2), A' as (A0' & A1' & A2'), C as (C0 & C1 & C2), C' as (C0' & C1' & C2').
  destruct c as [d|]; [|congruence]. destruct c' as [d'|]; [|congruence].
  destruct C0 as (-> & _). destruct C0' as (-> & _). rewrite ER.
  f_equal; [apply full_nodes; auto|apply full_opt; auto].
Qed.

Theorem C01_history_independence ops1 ops2 : final_map ops1 = final_map ops2 ->
  exists t1 t2, run ops1 = Ok t1 /\ run ops2 = Ok t2 /\
    eqs (root t1) (root t2) /\ mst_root_hash t1 = mst_root_hash t2.
Proof.
  intros EF.
  destruct (run_inv digest V H lvl_of lvl_of_u8 ops1) as (t1 & R1 & I1 & C1).
  destruct (run_inv digest V H lvl_of lvl_of_u8 ops2) as (t2 & R2 & I2 & C2).
  exists t1, t2. split; [exact R1|]. split; [exact R2|].
  assert (EC: content (root t1) = content (root t2)) by congruence.
  assert (EQ: eqs (root t1) (root t2)).
  { destruct I1 as (_ & _ & S1 & _). destruct I2 as (_ & _ & S2 & _).
    destruct S1 as [(N1 & H1 & L1)|S1], S2 as [(N2 & H2 & L2)|S2].
    - apply eqs_inv. rewrite N1, N2, H1, H2, L1, L2. repeat split; reflexivity.
    - exfalso. apply (shape_content_nonempty _ _ _ _ _ S2). rewrite <- EC. rewrite content_eq, N1, H1. reflexivity.
    - exfalso. apply (shape_content_nonempty _ _ _ _ _ S1). rewrite EC. rewrite content_eq, N2, H2. reflexivity.
    - apply (canonical digest V lvl_of lvl_of_u8 _ 256 256 _ S1 S2 EC). }
  split; [exact EQ|].
  pose proof (mst_root_hash_spec digest V H lvl_of t1 I1) as HS1.
  pose proof (mst_root_hash_spec digest V H lvl_of t2 I2) as HS2.
  destruct (mst_root_hash t1) as [t1' d1], (mst_root_hash t2) as [t2' d2].
  destruct HS1 as ((_ & K1 & _) & D1 & E1 & A1 & RH1). destruct HS2 as ((_ & K2 & _) & D2 & E2 & A2 & RH2).
  assert (Ed: d1 = d2). { rewrite D1, D2. apply (ref_hash_eqs digest V H lvl_of). exact EQ. }
  assert (Ep: root t1' = root t2').
  { apply full_eq; auto. unfold TreeHash.eqs in *. congruence. }
  destruct t1' as [p1 h1], t2' as [p2 h2]. cbn [TreeM.root TreeM.root_hash] in *. rewrite RH1, RH2, Ep, Ed. reflexivity.
Qed.
Print Assumptions C01_history_independence.
End HistIndep.
