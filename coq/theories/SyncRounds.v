From Coq Require Import PeanoNat Arith.
From MST Require Import Base TreeM Diff Spec TreeRanges Intervals DiffTrees Sync.

Section Rounds.
Variable digest V : Type.
Variable H : list (tok digest V) -> digest.
Variable deqb : digest -> digest -> bool.
Hypothesis deqb_spec : forall a b, deqb a b = true <-> a = b.
Hypothesis Hinj : forall a b, H a = H b -> a = b.
Variable Val : Type.
Variable val_dec : forall a b : Val, {a = b} + {a <> b}.
Variable vh : Val -> V.
Hypothesis vh_inj : forall a b, vh a = vh b -> a = b.
Variable merge : Val -> Val -> Val.
Hypothesis merge_anti : forall o x, merge o x = o -> merge x o = x -> o = x.
Hypothesis merge_sel : forall o x, merge o x = o \/ merge o x = x.      (* peer-wins, max of a total order *)
Variable ser : store Val -> list (prange digest).
Hypothesis ser_RL : forall s, store_ok Val s -> RL digest V H (cmap V Val vh s) (ser s).

Notation store := (store Val).
Notation store_ok := (store_ok Val).
Notation slookup := (slookup Val).
Notation pull := (pull digest deqb Val merge ser).
Notation apply_fetched := (apply_fetched Val merge).
Notation fetch := (fetch Val).
Notation merged := (merged Val merge).
Notation skeys := (skeys Val).
Notation diff := (Diff.diff digest deqb).

Definition opt_dec (a b : option Val) : {a = b} + {a <> b}.
Proof. destruct a as [x|], b as [y|]; try (right; discriminate); [destruct (val_dec x y) as [->|Hn]; [left; reflexivity|right; congruence]|left; reflexivity]. Defined.
Definition differs (a b : store) (k : N) : nat := if opt_dec (slookup k a) (slookup k b) then 0%nat else 1%nat.
Definition dis (U : list N) (a b : store) : nat := fold_right (fun k acc => (differs a b k + acc)%nat) 0%nat U.

Lemma dis_cons k U a b : dis (k :: U) a b = (differs a b k + dis U a b)%nat. Proof. reflexivity. Qed.
Lemma differs_sym a b k : differs a b k = differs b a k.
Proof. unfold differs. destruct (opt_dec (slookup k a) (slookup k b)), (opt_dec (slookup k b) (slookup k a)); congruence. Qed.
Lemma dis_sym U a b : dis U a b = dis U b a.
Proof. induction U as [|k U IH]; [reflexivity|]. rewrite !dis_cons, IH, (differs_sym a b k). reflexivity. Qed.
Lemma dis_mono U a a' b : (forall k, In k U -> (differs a' b k <= differs a b k)%nat) -> (dis U a' b <= dis U a b)%nat.
Proof. induction U as [|k U IH]; intros Hk; [apply le_n|]. rewrite !dis_cons. specialize (IH (fun z Hz => Hk z (or_intror Hz))). specialize (Hk k (or_introl eq_refl)). lia. Qed.
Lemma dis_strict U a a' b k0 : In k0 U -> (forall k, In k U -> (differs a' b k <= differs a b k)%nat) ->
  (differs a' b k0 < differs a b k0)%nat -> (dis U a' b < dis U a b)%nat.
Proof.
  induction U as [|k U IH]; intros Hin Hk Hs; [destruct Hin|]. rewrite !dis_cons.
  pose proof (dis_mono U a a' b (fun z Hz => Hk z (or_intror Hz))). destruct Hin as [->|Hin].
  - lia.
  - specialize (IH Hin (fun z Hz => Hk z (or_intror Hz)) Hs). specialize (Hk k (or_introl eq_refl)). lia.
Qed.
Lemma dis_zero U a b : store_ok a -> store_ok b -> (forall k, In k (skeys a) -> In k U) -> (forall k, In k (skeys b) -> In k U) ->
  dis U a b = 0%nat -> a = b.
Proof.
  intros Sa Sb Ha Hb Hz. apply store_ext; auto. intros k.
  destruct (in_dec N.eq_dec k U) as [Hin|Hn].
  - clear Ha Hb. induction U as [|k' U IH]; [destruct Hin|]. rewrite dis_cons in Hz. unfold differs at 1 in Hz.
    destruct (opt_dec (slookup k' a) (slookup k' b)) as [E|E]; [|lia]. destruct Hin as [->|Hin]; [exact E|]. apply IH; auto.
  - rewrite !slookup_none; [reflexivity| |]; intros C; apply Hn; auto.
Qed.
Lemma dis_refl U a : dis U a a = 0%nat.
Proof. induction U as [|k U IH]; [reflexivity|]. rewrite dis_cons, IH. unfold differs. destruct (opt_dec (slookup k a) (slookup k a)); [reflexivity|congruence]. Qed.

(* what a pull does to each key *)
Lemma pull_lookup a b a' : store_ok a -> store_ok b -> pull a b = Ok a' -> forall k,
  slookup k a' = slookup k a \/ (exists x, slookup k b = Some x /\ slookup k a' = Some (merged a k x)).
Proof.
  intros Sa Sb E k. unfold Sync.pull in E. destruct (diff (ser a) (ser b)) as [rs| |] eqn:Ed; try discriminate. cbn [bind] in E. injection E as <-.
  destruct (in_dec N.eq_dec k (skeys (fetch rs b))) as [Hin|Hn].
  - right. unfold Sync.skeys in Hin. apply in_map_iff in Hin as ([k' x] & Ek & Hin). cbn in Ek. subst k'.
    exists x. split.
    + apply (slookup_in Val k x b Sb). unfold Sync.fetch in Hin. apply filter_In in Hin. tauto.
    + apply apply_fetched_hit; [apply fetch_ok; exact Sb|exact Hin].
  - left. apply apply_fetched_other. exact Hn.
Qed.
Lemma pull_ok_store a b a' : store_ok a -> store_ok b -> pull a b = Ok a' -> store_ok a'.
Proof. intros Sa Sb E. unfold Sync.pull in E. destruct (diff (ser a) (ser b)); try discriminate. cbn [bind] in E. injection E as <-. apply apply_fetched_ok. exact Sa. Qed.
Lemma pull_keys a b a' : store_ok a -> store_ok b -> pull a b = Ok a' -> forall k, In k (skeys a') -> In k (skeys a) \/ In k (skeys b).
Proof.
  intros Sa Sb E k Hk. destruct (pull_lookup a b a' Sa Sb E k) as [Eq|(x & Eb & _)].
  - left. destruct (slookup k a') as [y|] eqn:Ey.
    + symmetry in Eq. eapply slookup_some_key; eauto.
    + exfalso. unfold Sync.skeys in Hk. apply in_map_iff in Hk as ([k' y] & Ek & Hin). cbn in Ek. subst k'.
      apply (slookup_in Val k y a' (pull_ok_store _ _ _ Sa Sb E)) in Hin. congruence.
  - right. eapply slookup_some_key; eauto.
Qed.

Lemma merged_sel a k x : merged a k x = x \/ slookup k a = Some (merged a k x).
Proof. unfold Sync.merged. destruct (slookup k a) as [o|]; [destruct (merge_sel o x) as [->| ->]; auto|auto]. Qed.

(* a pull never creates a new disagreement, and every change removes one *)
Lemma pull_differs a b a' : store_ok a -> store_ok b -> pull a b = Ok a' -> forall k,
  (differs a' b k <= differs a b k)%nat /\ (slookup k a' <> slookup k a -> (differs a' b k < differs a b k)%nat).
Proof.
  intros Sa Sb E k. destruct (pull_lookup a b a' Sa Sb E k) as [Eq|(x & Eb & Ea')].
  - unfold differs. rewrite Eq. split; [lia|congruence].
  - destruct (merged_sel a k x) as [Em|Em].
    + (* took the peer's value: now agrees *)
      assert (slookup k a' = slookup k b) by congruence.
      unfold differs. destruct (opt_dec (slookup k a') (slookup k b)) as [_|C]; [|contradiction].
      split; [lia|]. intros Hc. destruct (opt_dec (slookup k a) (slookup k b)) as [C|_]; [congruence|lia].
    + (* kept its own value: unchanged *)
      assert (slookup k a' = slookup k a) by congruence.
      unfold differs. rewrite H0. split; [lia|congruence].
Qed.

Lemma kv_dec (x y : N * Val) : {x = y} + {x <> y}.
Proof. decide equality; try apply val_dec; try apply N.eq_dec. Defined.
Definition store_dec : forall a b : store, {a = b} + {a <> b} := list_eq_dec kv_dec.

Fixpoint sync_rounds (n : nat) (a b : store) : res (store * store) :=
  match n with
  | O => Ok (a, b)
  | S n' => do a' <- pull a b; do b' <- pull b a'; sync_rounds n' a' b'
  end.

Lemma changed_key a a' : store_ok a -> store_ok a' -> a' <> a -> exists k, slookup k a' <> slookup k a /\ (In k (skeys a) \/ In k (skeys a')).
Proof.
  intros Sa Sa' Hne.
  destruct (Exists_dec (fun k => slookup k a' <> slookup k a) (skeys a ++ skeys a')) as [He|Hn].
  - intros k. destruct (opt_dec (slookup k a') (slookup k a)); [right; tauto|left; auto].
  - apply Exists_exists in He as (k & Hin & Hk). exists k. split; [exact Hk|]. apply in_app_iff in Hin. tauto.
  - exfalso. apply Hne. apply store_ext; auto. intros k. rewrite <- Forall_Exists_neg, Forall_forall in Hn.
    destruct (in_dec N.eq_dec k (skeys a ++ skeys a')) as [Hin|Hout].
    + specialize (Hn k Hin). destruct (opt_dec (slookup k a') (slookup k a)); tauto.
    + rewrite !slookup_none; [reflexivity| |]; intros C; apply Hout; apply in_app_iff; auto.
Qed.

Theorem C05_rounds U : forall n a b, store_ok a -> store_ok b ->
  (forall k, In k (skeys a) -> In k U) -> (forall k, In k (skeys b) -> In k U) ->
  (dis U a b <= n)%nat -> exists a' b', sync_rounds n a b = Ok (a', b') /\ a' = b'.
Proof.
  induction n as [|n IH]; intros a b Sa Sb Ua Ub Hd.
  - exists a, b. split; [reflexivity|]. apply (dis_zero U); auto. lia.
  - cbn [sync_rounds].
    destruct (diff_ok digest V H deqb deqb_spec Val vh ser ser_RL a b Sa Sb) as (rs & Ed).
    assert (Ea: exists a', pull a b = Ok a') by (unfold Sync.pull; rewrite Ed; cbn [bind]; eauto). destruct Ea as (a' & Ea). rewrite Ea. cbn [bind].
    pose proof (pull_ok_store _ _ _ Sa Sb Ea) as Sa'.
    destruct (diff_ok digest V H deqb deqb_spec Val vh ser ser_RL b a' Sb Sa') as (rs' & Ed').
    assert (Eb: exists b', pull b a' = Ok b') by (unfold Sync.pull; rewrite Ed'; cbn [bind]; eauto). destruct Eb as (b' & Eb). rewrite Eb. cbn [bind].
    pose proof (pull_ok_store _ _ _ Sb Sa' Eb) as Sb'.
    assert (Ua': forall k, In k (skeys a') -> In k U). { intros k Hk. destruct (pull_keys _ _ _ Sa Sb Ea k Hk); auto. }
    assert (Ub': forall k, In k (skeys b') -> In k U). { intros k Hk. destruct (pull_keys _ _ _ Sb Sa' Eb k Hk); auto. }
    apply IH; auto.
    (* the measure drops unless already equal *)
    assert (M1: (dis U a' b <= dis U a b)%nat) by (apply dis_mono; intros k _; apply (pull_differs a b a' Sa Sb Ea k)).
    assert (M2: (dis U b' a' <= dis U b a')%nat) by (apply dis_mono; intros k _; apply (pull_differs b a' b' Sb Sa' Eb k)).
    rewrite (dis_sym U a' b') . rewrite (dis_sym U a' b) in M1.
    destruct (store_dec a b) as [Eab|Nab].
    + subst b. (* already equal: measure is 0 and stays 0 *)
      pose proof (dis_refl U a). lia.
    + assert (Strict: (dis U b' a' < dis U a b)%nat); [|lia].
      destruct (store_dec a' a) as [Ea'a|Na'a].
      * (* first pull changed nothing: by progress the second one changes b *)
        subst a'.
        destruct (C05_progress digest V H deqb deqb_spec Hinj Val val_dec vh vh_inj merge merge_anti ser ser_RL a b Sa Sb Nab) as [(x & Ex & Nx)|(y & Ey & Ny)].
        -- rewrite Ea in Ex. injection Ex as <-. congruence.
        -- rewrite Eb in Ey. injection Ey as <-.
           destruct (changed_key b b' Sb Sb' Ny) as (k & Hk & Hin).
           apply (Nat.lt_le_trans _ (dis U b a)); [|rewrite dis_sym; lia].
           apply (dis_strict U b b' a k); [destruct Hin; auto| intros z _; apply (pull_differs b a b' Sb Sa Eb z) | apply (pull_differs b a b' Sb Sa Eb k); exact Hk].
      * destruct (changed_key a a' Sa Sa' Na'a) as (k & Hk & Hin).
        apply (Nat.le_lt_trans _ (dis U b a')); [exact M2|]. rewrite (dis_sym U b a').
        apply (dis_strict U a a' b k); [destruct Hin; auto| intros z _; apply (pull_differs a b a' Sa Sb Ea z) | apply (pull_differs a b a' Sa Sb Ea k); exact Hk].
Qed.
End Rounds.
