(* replacing the i-th element of a list *)
From Coq Require Import List Arith Lia.
Import ListNotations.

Definition upd {A} (l : list A) (i : nat) (x : A) : list A := firstn i l ++ x :: skipn (S i) l.

Lemma upd_length {A} (l : list A) i x : (i < length l)%nat -> length (upd l i x) = length l.
Proof. intros Hi. unfold upd. rewrite app_length, firstn_length_le by lia. cbn [length]. rewrite skipn_length. lia. Qed.
Lemma nth_upd_same {A} (l : list A) i x : (i < length l)%nat -> nth_error (upd l i x) i = Some x.
Proof. intros Hi. unfold upd. rewrite nth_error_app2; rewrite firstn_length_le by lia; [rewrite Nat.sub_diag; reflexivity|lia]. Qed.
Lemma nth_upd_other {A} (l : list A) i j x : (i < length l)%nat -> i <> j -> nth_error (upd l i x) j = nth_error l j.
Proof.
  revert i j. induction l as [|z l IH]; intros i j Hi Hn; [cbn in Hi; lia|].
  destruct i as [|i].
  - destruct j as [|j]; [congruence|]. unfold upd. cbn. reflexivity.
  - destruct j as [|j]; [unfold upd; cbn; reflexivity|].
    unfold upd. cbn [firstn skipn app nth_error]. apply (IH i j); [cbn in Hi; lia|congruence].
Qed.
Lemma upd_same {A} (l : list A) i x : nth_error l i = Some x -> upd l i x = l.
Proof. intros E. unfold upd. rewrite <- (firstn_skipn i l) at 3. f_equal. clear -E. revert i E.
  induction l as [|z l IH]; intros [|i] E; cbn in *; try discriminate; [congruence|auto]. Qed.
Lemma map_upd {A B} (f : A -> B) l i x : map f (upd l i x) = upd (map f l) i (f x).
Proof. unfold upd. rewrite map_app, firstn_map. cbn [map]. rewrite skipn_map. reflexivity. Qed.
Lemma Forall_upd {A} (P : A -> Prop) l i x : Forall P l -> P x -> Forall P (upd l i x).
Proof.
  intros F Px. unfold upd. apply Forall_app. split.
  - apply Forall_forall. intros y Hy. rewrite Forall_forall in F. apply F. rewrite <- (firstn_skipn i l). apply in_app_iff. now left.
  - constructor; [exact Px|]. apply Forall_forall. intros y Hy. rewrite Forall_forall in F. apply F.
    rewrite <- (firstn_skipn (S i) l). apply in_app_iff. now right.
Qed.
Lemma Forall_nth {A} (P : A -> Prop) l i x : Forall P l -> nth_error l i = Some x -> P x.
Proof. intros F E. rewrite Forall_forall in F. apply F. eapply nth_error_In; eauto. Qed.
