(* Specification-side definitions over the tree model, and their basic lemmas *)
From MST Require Export Base TreeM.
From Coq Require Export Sorted.

Section Spec.
Variable digest V : Type.
Variable H : list (tok digest V) -> digest.
Variable lvl_of : N -> N.

Notation page := (page digest V).
Notation node := (node digest V).
Notation Page := (Page digest V).
Notation Node := (Node digest V).
Notation plvl := (plvl digest V). Notation pnodes := (pnodes digest V).
Notation phigh := (phigh digest V). Notation pcache := (pcache digest V).
Notation nkey := (nkey digest V). Notation nval := (nval digest V). Notation nlt := (nlt digest V).
Notation set_lt := (set_lt digest V). Notation set_val := (set_val digest V).

(* nested induction principle *)
Definition PO (P : page -> Prop) (o : option page) : Prop := match o with Some q => P q | None => True end.
Fixpoint page_ind' (P : page -> Prop)
  (HP : forall l c ns hp, Forall (fun n => PO P (nlt n)) ns -> PO P hp -> P (Page l c ns hp)) (p : page) {struct p} : P p :=
  match p with
  | TreeM.Page _ _ l c ns hp =>
    HP l c ns hp
      ((fix go (ns : list node) : Forall (fun n => PO P (nlt n)) ns :=
          match ns with
          | [] => Forall_nil _
          | n :: r => Forall_cons (P := fun n => PO P (nlt n)) n
                        (match nlt n as o return PO P o with Some q => page_ind' P HP q | None => I end) (go r)
          end) ns)
      (match hp as o return PO P o with Some h => page_ind' P HP h | None => I end)
  end.

(* ---- content ---- *)
Fixpoint content (p : page) : list (N * V) :=
  match p with
  | TreeM.Page _ _ _ _ ns hp =>
    (fix go (ns : list node) : list (N * V) :=
       match ns with
       | [] => []
       | n :: r => (match nlt n with None => [] | Some c => content c end) ++ (nkey n, nval n) :: go r
       end) ns ++ (match hp with None => [] | Some h => content h end)
  end.
Definition content_opt (o : option page) := match o with None => [] | Some p => content p end.
Fixpoint content_nodes (ns : list node) : list (N * V) :=
  match ns with [] => [] | n :: r => content_opt (nlt n) ++ (nkey n, nval n) :: content_nodes r end.
Lemma content_eq p : content p = content_nodes (pnodes p) ++ content_opt (phigh p).
Proof. destruct p as [l c ns hp]. reflexivity. Qed.
Lemma content_nodes_app a b : content_nodes (a ++ b) = content_nodes a ++ content_nodes b.
Proof. induction a as [|n a IH]; simpl; auto. rewrite IH, <- !app_assoc. reflexivity. Qed.

Definition keys (l : list (N * V)) : list N := map fst l.
Lemma keys_app a b : keys (a ++ b) = keys a ++ keys b.
Proof. unfold keys. apply map_app. Qed.
Lemma keys_cons x a : keys (x :: a) = fst x :: keys a.
Proof. reflexivity. Qed.
Definition sorted (l : list (N * V)) : Prop := StronglySorted N.lt (keys l).

(* ---- shape: levels strictly decrease, pages non-empty, key levels agree ---- *)
Fixpoint shape (L : N) (p : page) : Prop :=
  match p with
  | TreeM.Page _ _ lvl _ ns hp =>
    lvl < L /\ ns <> [] /\
    (fix go (ns : list node) : Prop :=
       match ns with
       | [] => True
       | n :: r => lvl_of (nkey n) = lvl /\ (match nlt n with None => True | Some c => shape lvl c end) /\ go r
       end) ns /\
    (match hp with None => True | Some h => shape lvl h end)
  end.
Definition shape_opt (L : N) (o : option page) : Prop := match o with None => True | Some p => shape L p end.
Fixpoint shape_nodes (lvl : N) (ns : list node) : Prop :=
  match ns with [] => True | n :: r => lvl_of (nkey n) = lvl /\ shape_opt lvl (nlt n) /\ shape_nodes lvl r end.
Lemma shape_eq L p : shape L p <-> plvl p < L /\ pnodes p <> [] /\ shape_nodes (plvl p) (pnodes p) /\ shape_opt (plvl p) (phigh p).
Proof. destruct p as [l c ns hp]. cbn [shape TreeM.plvl TreeM.pnodes TreeM.phigh].
  assert (E: forall ns, (fix go (ns : list node) : Prop :=
       match ns with
       | [] => True
       | n :: r => lvl_of (nkey n) = l /\ (match nlt n with None => True | Some c => shape l c end) /\ go r
       end) ns <-> shape_nodes l ns).
  { induction ns0 as [|n r IH]; cbn [shape_nodes]; [tauto|]. rewrite IH. destruct (nlt n); cbn [shape_opt]; tauto. }
  rewrite E. destruct hp; cbn [shape_opt]; tauto. Qed.
Lemma shape_nodes_app lvl a b : shape_nodes lvl (a ++ b) <-> shape_nodes lvl a /\ shape_nodes lvl b.
Proof. induction a as [|n a IH]; simpl; [tauto|]. rewrite IH. tauto. Qed.
Lemma shape_mono L L' p : L <= L' -> shape L p -> shape L' p.
Proof. rewrite !shape_eq. intros ? (?&?&?&?). repeat split; auto. lia. Qed.
Lemma shape_opt_mono L L' o : L <= L' -> shape_opt L o -> shape_opt L' o.
Proof. destruct o; simpl; auto. apply shape_mono. Qed.

(* ---- reference digest and cache validity ---- *)
Fixpoint ref_hash (p : page) : digest :=
  match p with
  | TreeM.Page _ _ _ _ ns hp =>
    H ((fix go (ns : list node) : list (tok digest V) :=
          match ns with
          | [] => []
          | n :: r => (match nlt n with Some c => [TD _ _ (ref_hash c)] | None => [] end)
                        ++ [TK _ _ (nkey n); TV _ _ (nval n)] ++ go r
          end) ns ++ match hp with Some h => [TD _ _ (ref_hash h)] | None => [] end)
  end.
Definition ref_tok_opt (o : option page) : list (tok digest V) := match o with Some c => [TD _ _ (ref_hash c)] | None => [] end.
Fixpoint ref_toks (ns : list node) : list (tok digest V) :=
  match ns with [] => [] | n :: r => ref_tok_opt (nlt n) ++ [TK _ _ (nkey n); TV _ _ (nval n)] ++ ref_toks r end.
Lemma ref_hash_eq p : ref_hash p = H (ref_toks (pnodes p) ++ ref_tok_opt (phigh p)).
Proof. destruct p as [l c ns hp]. reflexivity. Qed.

(* every cache in the subtree is filled *)
Fixpoint all_cached (p : page) : Prop :=
  match p with
  | TreeM.Page _ _ _ c ns hp =>
    c <> None /\
    (fix go (ns : list node) : Prop :=
       match ns with [] => True | n :: r => (match nlt n with Some q => all_cached q | None => True end) /\ go r end) ns /\
    (match hp with Some h => all_cached h | None => True end)
  end.
Definition all_cached_opt (o : option page) := match o with Some p => all_cached p | None => True end.
Fixpoint all_cached_nodes (ns : list node) : Prop :=
  match ns with [] => True | n :: r => all_cached_opt (nlt n) /\ all_cached_nodes r end.
Lemma all_cached_eq p : all_cached p <-> pcache p <> None /\ all_cached_nodes (pnodes p) /\ all_cached_opt (phigh p).
Proof. destruct p as [l c ns hp]. reflexivity. Qed.
Lemma all_cached_nodes_app a b : all_cached_nodes (a ++ b) <-> all_cached_nodes a /\ all_cached_nodes b.
Proof. induction a as [|n a IH]; simpl; [tauto|]. rewrite IH. tauto. Qed.

(* a cached digest is the reference digest, and a cached page has a fully cached subtree
   (maybe_generate_hash returns early on a cached page, and serialisation expects every digest) *)
Fixpoint cache_ok (p : page) : Prop :=
  match p with
  | TreeM.Page _ _ _ c ns hp =>
    (match c with Some d => d = ref_hash p /\ all_cached_nodes ns /\ all_cached_opt hp | None => True end) /\
    (fix go (ns : list node) : Prop :=
       match ns with [] => True | n :: r => (match nlt n with Some q => cache_ok q | None => True end) /\ go r end) ns /\
    (match hp with Some h => cache_ok h | None => True end)
  end.
Definition cache_ok_opt (o : option page) := match o with Some p => cache_ok p | None => True end.
Fixpoint cache_ok_nodes (ns : list node) : Prop :=
  match ns with [] => True | n :: r => cache_ok_opt (nlt n) /\ cache_ok_nodes r end.
Lemma cache_ok_eq p : cache_ok p <->
  (match pcache p with Some d => d = ref_hash p /\ all_cached_nodes (pnodes p) /\ all_cached_opt (phigh p) | None => True end) /\
  cache_ok_nodes (pnodes p) /\ cache_ok_opt (phigh p).
Proof. destruct p as [l c ns hp]. reflexivity. Qed.
Lemma cache_ok_nodes_app a b : cache_ok_nodes (a ++ b) <-> cache_ok_nodes a /\ cache_ok_nodes b.
Proof. induction a as [|n a IH]; simpl; [tauto|]. rewrite IH. tauto. Qed.

(* ---- small facts ---- *)
Lemma SS_app (l1 l2 : list N) :
  StronglySorted N.lt (l1 ++ l2) <->
  StronglySorted N.lt l1 /\ StronglySorted N.lt l2 /\ (forall x y, In x l1 -> In y l2 -> x < y).
Proof.
  induction l1 as [|a l1 IH]; simpl.
  - split; [intros HS; repeat split; auto; try constructor; intros ? ? []|tauto].
  - split.
    + intros HS. inversion HS as [|? ? Hs Hf]; subst. apply IH in Hs as (H1 & H2 & H3).
      rewrite Forall_app in Hf. destruct Hf as [Hf1 Hf2].
      repeat split; auto. constructor; auto.
      intros x y [<-|Hx] Hy; [rewrite Forall_forall in Hf2; auto|auto].
    + intros (H1 & H2 & H3). inversion H1 as [|? ? Hs Hf]; subst.
      constructor. apply IH; repeat split; auto.
      rewrite Forall_app; split; auto. rewrite Forall_forall; intros; apply H3; auto.
Qed.
Lemma In_nkey_content m ns : In m ns -> In (nkey m) (keys (content_nodes ns)).
Proof. induction ns as [|n r IH]; cbn [In content_nodes]; [tauto|]. intros [->|Hm]; rewrite keys_app, in_app_iff; right; rewrite keys_cons; cbn [In fst]; auto. Qed.
Lemma max_key_In (p : page) x : max_key _ _ p = Some x -> exists m, In m (pnodes p) /\ nkey m = x.
Proof. unfold max_key. destruct (rev (pnodes p)) as [|m r] eqn:E; [discriminate|]. intros [= <-].
  exists m; split; auto. apply in_rev. rewrite E. now left. Qed.
Lemma max_key_ex (p : page) : pnodes p <> [] -> exists x, max_key _ _ p = Some x.
Proof. unfold max_key. intros Hne. destruct (rev (pnodes p)) eqn:E; eauto.
  apply (f_equal (@rev _)) in E. rewrite rev_involutive in E. simpl in E. contradiction. Qed.
Lemma min_key_In (p : page) x : min_key _ _ p = Some x -> In x (keys (content p)).
Proof. unfold min_key. destruct p as [l c [|m r] hp]; cbn [TreeM.pnodes]; [discriminate|]. intros [= <-].
  rewrite content_eq. cbn [TreeM.pnodes content_nodes]. rewrite !keys_app, !in_app_iff. left. right. rewrite keys_cons. cbn. auto. Qed.
Lemma max_key_In_content (p : page) x : max_key _ _ p = Some x -> In x (keys (content p)).
Proof. intros Hm. apply max_key_In in Hm as (m & Hm & <-). rewrite content_eq, keys_app, in_app_iff. left.
  now apply In_nkey_content. Qed.
Lemma shape_nonempty L (p : page) : shape L p -> nonempty _ _ p = true.
Proof. rewrite shape_eq. intros (_&Hne&_). unfold nonempty. destruct (pnodes p); congruence. Qed.
Lemma min_key_ex (p : page) : nonempty _ _ p = true -> exists x, min_key _ _ p = Some x.
Proof. unfold nonempty, min_key. destruct (pnodes p); [discriminate|eauto]. Qed.
Lemma shape_content_nonempty L p : shape L p -> content p <> [].
Proof. rewrite shape_eq. intros (_ & Hne & _). rewrite content_eq. destruct (pnodes p) as [|n r]; [congruence|].
  cbn [content_nodes]. intros E. apply (f_equal (@length _)) in E. rewrite !app_length in E. cbn [length] in E. lia. Qed.
End Spec.
Arguments keys {V} l : simpl never.
Arguments content : simpl never.
Arguments shape : simpl never.
Arguments cache_ok : simpl never.
Arguments all_cached : simpl never.
Arguments ref_hash : simpl never.
