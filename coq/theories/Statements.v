(* Design-phase pinning of the property statements against the spike model.
   Nothing is proved here: each Cxx_* is a [Prop]; the development must end with
   [Theorem Cxx_* : <this Prop>] (or a [_partial]/[_refuted] variant named as such). *)
From MST Require Import Base TreeM Diff.
From Coq Require Import Sorted.

Section S.
Variable digest V : Type.
Variable deqb : digest -> digest -> bool.
Hypothesis deqb_spec : forall a b, deqb a b = true <-> a = b.
Variable H : list (tok digest V) -> digest.
Variable lvl_of : N -> N.                 (* = level (key_digest k) base *)
Hypothesis lvl_of_u8 : forall k, lvl_of k < 255.

Notation page := (page digest V).
Notation node := (node digest V).
Notation mst := (mst digest V).
Notation prange := (prange digest).
Notation upsert := (mst_upsert digest V true).          (* repaired split condition *)
Notation root_hash_op := (mst_root_hash digest V H).
Notation serialise := (mst_serialise digest V).
Notation diff := (diff digest deqb).
Definition Hinj : Prop := forall a b, H a = H b -> a = b.

(* ---------------- histories ---------------- *)
Inductive op := Upsert (k : N) (v : V) | HashReq.
Definition step (t : mst) (o : op) : res mst :=
  match o with Upsert k v => upsert t k (lvl_of k) v | HashReq => Ok (fst (root_hash_op t)) end.
Fixpoint run_from (t : mst) (ops : list op) : res mst :=
  match ops with [] => Ok t | o :: r => do t' <- step t o; run_from t' r end.
Definition run : list op -> res mst := run_from (mst_init digest V).

Fixpoint ins (k : N) (v : V) (l : list (N * V)) : list (N * V) :=
  match l with
  | [] => [(k, v)]
  | (k', v') :: r => if k <? k' then (k, v) :: l else if k =? k' then (k, v) :: r else (k', v') :: ins k v r
  end.
Definition final_map (ops : list op) : list (N * V) :=
  fold_left (fun m o => match o with Upsert k v => ins k v m | HashReq => m end) ops [].
Fixpoint lookup (k : N) (l : list (N * V)) : option V :=
  match l with [] => None | (k', v) :: r => if k =? k' then Some v else lookup k r end.
Definition keys (l : list (N * V)) : list N := map fst l.
Definition span_of_map (m : list (N * V)) : option (N * N) :=
  match m with [] => None | (k, _) :: r => Some (k, last (keys r) k) end.

(* ---------------- observables ---------------- *)
Definition hashed (t : mst) : mst := fst (root_hash_op t).
Definition root_digest (t : mst) : digest := snd (root_hash_op t).
Definition ranges (t : mst) : res (option (list prange)) := serialise (hashed t).

Fixpoint strip (p : page) : page :=
  match p with
  | Page _ _ l _ ns hp =>
    Page _ _ l None
      ((fix go (ns : list node) : list node :=
          match ns with [] => [] | Node _ _ k v lt :: r =>
            Node _ _ k v (match lt with Some c => Some (strip c) | None => None end) :: go r end) ns)
      (match hp with Some h => Some (strip h) | None => None end)
  end.
Fixpoint content (p : page) : list (N * V) :=
  match p with
  | Page _ _ _ _ ns hp =>
    (fix go (ns : list node) : list (N * V) :=
       match ns with [] => [] | Node _ _ k v lt :: r =>
         (match lt with Some c => content c | None => [] end) ++ (k, v) :: go r end) ns
    ++ match hp with Some h => content h | None => [] end
  end.
Fixpoint ref_hash (p : page) : digest :=      (* the documented construction, caches ignored *)
  match p with
  | Page _ _ _ _ ns hp =>
    H ((fix go (ns : list node) : list (tok digest V) :=
          match ns with [] => [] | Node _ _ k v lt :: r =>
            (match lt with Some c => [TD _ _ (ref_hash c)] | None => [] end)
              ++ [TK _ _ k; TV _ _ v] ++ go r end) ns
       ++ match hp with Some h => [TD _ _ (ref_hash h)] | None => [] end)
  end.
Fixpoint subpages (p : page) : list page :=   (* pre-order: page, each key's lower subtree, high page *)
  match p with
  | Page _ _ _ _ ns hp =>
    p :: (fix go (ns : list node) : list page :=
            match ns with [] => [] | Node _ _ _ _ lt :: r =>
              (match lt with Some c => subpages c | None => [] end) ++ go r end) ns
      ++ match hp with Some h => subpages h | None => [] end
  end.
Definition children (p : page) : list page :=
  flat_map (fun n => match nlt _ _ n with Some c => [c] | None => [] end) (pnodes _ _ p)
  ++ match phigh _ _ p with Some h => [h] | None => [] end.
Definition nonempty_tree (t : mst) : Prop := content (root _ _ t) <> [].

(* ======== C09 / C10 / C15 : invariants over every history (hence every intermediate state) ======== *)
Definition page_ok (p : page) : Prop :=
  pnodes _ _ p <> [] /\
  Forall (fun n => lvl_of (nkey _ _ n) = plvl _ _ p) (pnodes _ _ p) /\
  Forall (fun c => plvl _ _ c < plvl _ _ p) (children p).
Definition C09_invariant : Prop := forall ops, exists t, run ops = Ok t /\
  StronglySorted N.lt (keys (content (root _ _ t))) /\
  (nonempty_tree t -> Forall page_ok (subpages (root _ _ t))) /\
  (~ nonempty_tree t -> pnodes _ _ (root _ _ t) = [] /\ phigh _ _ (root _ _ t) = None).
Definition C09_canonical : Prop := forall p q,
  Forall page_ok (subpages p) -> Forall page_ok (subpages q) ->
  StronglySorted N.lt (keys (content p)) -> content p = content q -> strip p = strip q.
Definition C10_map_semantics : Prop := forall ops, exists t, run ops = Ok t /\ content (root _ _ t) = final_map ops.
Definition C10_node_iter : Prop := forall ops t, run ops = Ok t ->
  exists ns, node_iter _ _ t = Ok ns /\ map (fun n => (nkey _ _ n, nval _ _ n)) ns = final_map ops.
Definition C15_no_panic : Prop := forall ops, exists t, run ops = Ok t /\
  (exists l, ranges t = Ok (Some l)) /\ (exists ns, node_iter _ _ t = Ok ns).
  (* + C13_total for diff on the resulting ranges; traverse is total by typing *)

(* ======== HistIndep / C02 / HashInj / LevelSpec ======== *)
Definition C01_history_independence : Prop := forall ops1 ops2, final_map ops1 = final_map ops2 ->
  exists t1 t2, run ops1 = Ok t1 /\ run ops2 = Ok t2 /\
    strip (root _ _ t1) = strip (root _ _ t2) /\ root_digest t1 = root_digest t2 /\ ranges t1 = ranges t2.
Fixpoint cache_ok (p : page) : Prop :=
  match p with
  | Page _ _ _ c ns hp =>
    (match c with Some d => d = ref_hash p | None => True end) /\
    (fix go (ns : list node) : Prop := match ns with [] => True | n :: r =>
        (match nlt _ _ n with Some q => cache_ok q | None => True end) /\ go r end) ns /\
    (match hp with Some h => cache_ok h | None => True end)
  end.
Definition C02_never_stale : Prop := forall ops t, run ops = Ok t ->
  cache_ok (root _ _ t) /\
  (forall d, root_hash _ _ t = Some d ->
     d = ref_hash (root _ _ t) /\ Forall (fun q => pcache _ _ q <> None) (subpages (root _ _ t))) /\
  root_digest t = ref_hash (root _ _ t) /\
  (nonempty_tree t -> forall l, ranges t = Ok (Some l) -> map (ph _) l = map ref_hash (subpages (root _ _ t))).
Definition C02_gate : Prop := forall ops t k v, run ops = Ok t ->
  exists t', upsert t k (lvl_of k) v = Ok t' /\ root_hash _ _ t' = None /\ serialise t' = Ok None.
Definition C02_available : Prop := forall ops t, run ops = Ok t ->
  root_hash _ _ (hashed t) = Some (root_digest t) /\ exists l, serialise (hashed t) = Ok (Some l).
Definition C03_injective : Prop := Hinj -> forall ops1 ops2 t1 t2, run ops1 = Ok t1 -> run ops2 = Ok t2 ->
  root_digest t1 = root_digest t2 -> final_map ops1 = final_map ops2.

Fixpoint leading_zeros (bytes : list N) : nat :=
  match bytes with 0 :: r => S (leading_zeros r) | _ => O end.
Definition C14_level_spec : Prop := forall bytes base, 1 <= base <= 255 ->
  let z := leading_zeros bytes in
  level bytes base = 2 * N.of_nat z +
    match nth_error bytes z with Some b => if b mod base =? 0 then 1 else 0 | None => 0 end.
Definition C14_level_bound : Prop := forall bytes base, level bytes base <= 2 * N.of_nat (length bytes).
Definition C14_reference : Prop := forall ops t, run ops = Ok t ->
  root_digest t = ref_hash (strip (root _ _ t)) /\
  (forall ops' t', final_map ops' = final_map ops -> run ops' = Ok t' -> strip (root _ _ t') = strip (root _ _ t)).

(* ======== C11 ======== *)
Definition span_of (p : page) : option (N * N) := span_of_map (content p).
Definition range_spec (p : page) (r : prange) : Prop :=
  span_of p = Some (ps _ r, pe _ r) /\ ph _ r = ref_hash p.
Definition inside (a b : N * N) : Prop := fst b <= fst a /\ snd a <= snd b.
Definition C11_ranges : Prop := forall ops t, run ops = Ok t ->
  (~ nonempty_tree t -> ranges t = Ok (Some [])) /\
  (nonempty_tree t -> exists l, ranges t = Ok (Some l) /\
     Forall2 range_spec (subpages (root _ _ t)) l /\        (* every page once, pre-order, span + digest *)
     (forall p c sp sc, In p (subpages (root _ _ t)) -> In c (children p) ->
        span_of p = Some sp -> span_of c = Some sc -> inside sc sp /\ sc <> sp) /\
     (forall p i j c1 c2 s1 s2, In p (subpages (root _ _ t)) -> (i < j)%nat ->
        nth_error (children p) i = Some c1 -> nth_error (children p) j = Some c2 ->
        span_of c1 = Some s1 -> span_of c2 = Some s2 -> snd s1 < fst s2)).

(* ======== C12 / DiffTotal : diff on arbitrary lists ======== *)
Definition wf_pr (r : prange) : Prop := ps _ r <= pe _ r.
Definition bounds_of (l : list prange) : list N := flat_map (fun r => [ps _ r; pe _ r]) l.
Fixpoint strictly_ascending (l : list drange) : Prop :=
  match l with
  | a :: r => match r with b :: _ => de a < ds b | [] => True end /\ strictly_ascending r
  | [] => True
  end.
Definition C13_total : Prop := forall local peer, Forall wf_pr local -> Forall wf_pr peer ->
  exists rs, diff local peer = Ok rs /\
    Forall (fun r => ds r <= de r) rs /\ strictly_ascending rs /\
    Forall (fun r => In (ds r) (bounds_of (local ++ peer)) /\ In (de r) (bounds_of (local ++ peer))) rs.
Definition C08_empty_peer : Prop := forall local, diff local [] = Ok [].

(* ======== diff on real trees ======== *)
Definition tree_diff (tl tp : mst) : res (list drange) :=
  do rl <- ranges tl; do rp <- ranges tp;
  match rl, rp with Some a, Some b => diff a b | _, _ => Panic 0 end.
Definition covered (k : N) (rs : list drange) : Prop := exists r, In r rs /\ ds r <= k <= de r.
Definition span_covers (mp ml : list (N * V)) : Prop :=
  ml = [] \/ exists a b, span_of_map mp = Some (a, b) /\ Forall (fun k => a <= k <= b) (keys ml).

Definition C08_identical : Prop := forall ops1 ops2 t1 t2, final_map ops1 = final_map ops2 ->
  run ops1 = Ok t1 -> run ops2 = Ok t2 -> tree_diff t1 t2 = Ok [].
Definition C12_confined : Prop := forall opsL opsP tL tP, run opsL = Ok tL -> run opsP = Ok tP ->
  exists rs, tree_diff tL tP = Ok rs /\
    Forall (fun r => In (ds r) (keys (final_map opsP)) /\
                     (In (de r) (keys (final_map opsP)) \/ In (de r) (keys (final_map opsL))) /\
                     exists a b, span_of_map (final_map opsP) = Some (a, b) /\ a <= ds r /\ de r <= b) rs.
Definition C07_complete : Prop := Hinj -> forall opsL opsP tL tP rs,
  run opsL = Ok tL -> run opsP = Ok tP -> tree_diff tL tP = Ok rs ->
  span_covers (final_map opsP) (final_map opsL) ->
  forall k v, In (k, v) (final_map opsP) -> lookup k (final_map opsL) <> Some v -> covered k rs.
Definition C07_empty_local : Prop := forall opsL opsP tL tP a b,
  run opsL = Ok tL -> run opsP = Ok tP -> final_map opsL = [] -> span_of_map (final_map opsP) = Some (a, b) ->
  tree_diff tL tP = Ok [DR a b].
Definition C04_no_false_convergence : Prop := Hinj -> forall opsA opsB tA tB,
  run opsA = Ok tA -> run opsB = Ok tB ->
  tree_diff tA tB = Ok [] -> tree_diff tB tA = Ok [] -> final_map opsA = final_map opsB.

(* ======== C05 / C06 : stores, pulls, schedules ======== *)
Variable Val : Type.
Variable vh : Val -> V.                       (* the user's value hasher *)
Variable veqb : Val -> Val -> bool.
Hypothesis veqb_spec : forall a b, veqb a b = true <-> a = b.
Definition vh_inj : Prop := forall a b, vh a = vh b -> a = b.
Variable merge : Val -> Val -> Val.           (* merge old fetched *)
Definition is_peer_wins : Prop := forall o f, merge o f = f.
Definition is_join : Prop :=
  (forall a, merge a a = a) /\ (forall a b, merge a b = merge b a) /\
  (forall a b c, merge a (merge b c) = merge (merge a b) c).
Definition is_linear : Prop := forall a b, merge a b = a \/ merge a b = b.

Definition store := list (N * Val).           (* strictly key-sorted *)
Definition store_ok (s : store) : Prop := StronglySorted N.lt (map fst s).
Fixpoint sins (k : N) (x : Val) (l : store) : store :=
  match l with
  | [] => [(k, x)]
  | (k', x') :: r => if k <? k' then (k, x) :: l else if k =? k' then (k, x) :: r else (k', x') :: sins k x r
  end.
Fixpoint slookup (k : N) (l : store) : option Val :=
  match l with [] => None | (k', x) :: r => if k =? k' then Some x else slookup k r end.
Definition ops_of (s : store) : list op := map (fun kx => Upsert (fst kx) (vh (snd kx))) s.
Definition in_ranges (rs : list drange) (k : N) : bool := existsb (fun r => (ds r <=? k) && (k <=? de r)) rs.
Definition apply_fetched (dst : store) (fetched : store) : store :=
  fold_left (fun acc kx => sins (fst kx) (match slookup (fst kx) acc with Some o => merge o (snd kx) | None => snd kx end) acc)
            fetched dst.
(* abstract pull: trees are freshly built from the stores (C06 shows the incremental ones are the same) *)
Definition pull (dst src : store) : res store :=
  do td <- run (ops_of dst); do ts <- run (ops_of src);
  do rs <- tree_diff td ts;
  Ok (apply_fetched dst (filter (fun kx => in_ranges rs (fst kx)) src)).
Definition disagree (a b : store) : nat :=
  length (filter (fun k => negb (match slookup k a, slookup k b with
                                 | Some x, Some y => veqb x y | None, None => true | _, _ => false end))
                 (nodup N.eq_dec (map fst a ++ map fst b))).
Fixpoint sync_rounds (n : nat) (a b : store) : res (store * store) :=
  match n with
  | O => Ok (a, b)
  | S n' => do a' <- pull a b; do b' <- pull b a'; sync_rounds n' a' b'
  end.
Definition C05_progress : Prop := Hinj -> vh_inj -> (is_peer_wins \/ is_join) ->
  forall a b, store_ok a -> store_ok b -> a <> b ->
  exists a' b', pull a b = Ok a' /\ pull b a = Ok b' /\ (a' <> a \/ b' <> b).
Definition C05_rounds : Prop := Hinj -> vh_inj -> (is_peer_wins \/ (is_join /\ is_linear)) ->
  forall a b, store_ok a -> store_ok b ->
  exists a' b', sync_rounds (disagree a b) a b = Ok (a', b') /\ a' = b' /\
    exists ta tb, run (ops_of a') = Ok ta /\ run (ops_of b') = Ok tb /\ root_digest ta = root_digest tb.
Definition pointwise_join (a b : store) : store := apply_fetched a b.
Definition C05_join_result : Prop := Hinj -> vh_inj -> is_join -> is_linear ->
  forall a b a' b', store_ok a -> store_ok b ->
  sync_rounds (disagree a b) a b = Ok (a', b') -> a' = pointwise_join a b.

(* C06: replicas keep incremental trees with caches; events interleave arbitrarily *)
Record replica := R { r_store : store; r_tree : mst }.
Inductive event := Write (r : nat) (k : N) (x : Val) | HashEv (r : nat) | Pull (dst src : nat).
Definition upd {A} (l : list A) (i : nat) (x : A) : list A := firstn i l ++ x :: skipn (S i) l.
Definition r_write (rp : replica) (k : N) (x : Val) : res replica :=
  let x' := match slookup k (r_store rp) with Some o => merge o x | None => x end in
  do t' <- upsert (r_tree rp) k (lvl_of k) (vh x'); Ok (R (sins k x' (r_store rp)) t').
Definition r_pull (dst src : replica) : res (replica * replica) :=
  let src' := R (r_store src) (hashed (r_tree src)) in            (* src hashes, serialises, snapshots *)
  let dst1 := R (r_store dst) (hashed (r_tree dst)) in            (* dst hashes its own, in place *)
  do rs <- (do rl <- serialise (r_tree dst1); do rp <- serialise (r_tree src');
            match rl, rp with Some a, Some b => diff a b | _, _ => Panic 0 end);
  do dst2 <- fold_left (fun acc kx => do rp <- acc; r_write rp (fst kx) (snd kx))
                       (filter (fun kx => in_ranges rs (fst kx)) (r_store src)) (Ok dst1);
  Ok (dst2, src').
Definition ev_step (rs : list replica) (e : event) : res (list replica) :=
  match e with
  | Write i k x => match nth_error rs i with Some rp => do rp' <- r_write rp k x; Ok (upd rs i rp') | None => Ok rs end
  | HashEv i => match nth_error rs i with Some rp => Ok (upd rs i (R (r_store rp) (hashed (r_tree rp)))) | None => Ok rs end
  | Pull i j => if Nat.eqb i j then Ok rs else
      match nth_error rs i, nth_error rs j with
      | Some d, Some s => do ds' <- r_pull d s; Ok (upd (upd rs i (fst ds')) j (snd ds'))
      | _, _ => Ok rs
      end
  end.
Fixpoint ev_run (rs : list replica) (es : list event) : res (list replica) :=
  match es with [] => Ok rs | e :: r => do rs' <- ev_step rs e; ev_run rs' r end.
Definition fresh (n : nat) : list replica := repeat (R [] (mst_init digest V)) n.
Definition all_pairs_block (n : nat) (es : list event) : Prop :=
  (forall e, In e es -> exists i j, e = Pull i j) /\
  forall i j, (i < n)%nat -> (j < n)%nat -> i <> j -> In (Pull i j) es.
Definition written (es : list event) : store :=          (* join of everything ever written *)
  fold_left (fun acc e => match e with Write _ k x => apply_fetched acc [(k, x)] | _ => acc end) es [].
Definition C06_convergence : Prop := Hinj -> vh_inj -> is_join ->
  forall n es, exists bound : nat, forall blocks : list (list event),
    Forall (all_pairs_block n) blocks -> (bound <= length blocks)%nat ->
    exists rs, ev_run (fresh n) (es ++ concat blocks) = Ok rs /\ length rs = n /\
      Forall (fun rp => r_store rp = written es) rs /\
      forall r1 r2, In r1 rs -> In r2 rs -> root_digest (r_tree r1) = root_digest (r_tree r2).
Definition C06_refinement : Prop := forall n es rs, ev_run (fresh n) es = Ok rs ->
  Forall (fun rp => store_ok (r_store rp) /\
                    exists t, run (ops_of (r_store rp)) = Ok t /\
                      strip (root _ _ (r_tree rp)) = strip (root _ _ t) /\
                      root_digest (r_tree rp) = root_digest t /\ ranges (r_tree rp) = ranges t) rs.

(* ======== Trav ======== *)
Definition all_true : nat -> bool := fun _ => true.
Definition full_events (t : mst) : list (ev digest V) := fst (traverse _ _ all_true t).
Definition C17_iter_agrees : Prop := forall ops t, run ops = Ok t ->
  exists ns, node_iter _ _ t = Ok ns /\
    ns = flat_map (fun e => match e with EVisit _ _ n => [n] | _ => [] end) (full_events t).
Definition first_false (answers : nat -> bool) (bound : nat) : nat :=   (* index of first false below bound, else bound *)
  (fix go (i fuel : nat) : nat := match fuel with O => i | S f => if answers i then go (S i) f else i end) O bound.
Definition C17_prefix : Prop := forall ops t answers, run ops = Ok t ->
  let full := full_events t in
  let k := first_false answers (length full) in
  traverse _ _ answers t = (firstn (S k) full, Nat.leb (length full) k).
Inductive page_events : page -> bool -> list (ev digest V) -> Prop :=   (* the nesting protocol *)
| PE p hp body tail :
    nodes_events (pnodes _ _ p) body ->
    opt_events (phigh _ _ p) true tail ->
    page_events p hp (EIn _ _ p hp :: body ++ EOut _ _ p :: tail)
with nodes_events : list node -> list (ev digest V) -> Prop :=
| NE_nil : nodes_events [] []
| NE_cons n r sub rest :
    opt_events (nlt _ _ n) false sub ->
    nodes_events r rest ->
    nodes_events (n :: r) (EPre _ _ n :: sub ++ EVisit _ _ n :: EPost _ _ n :: rest)
with opt_events : option page -> bool -> list (ev digest V) -> Prop :=
| OE_none hp : opt_events None hp []
| OE_some p hp l : page_events p hp l -> opt_events (Some p) hp l.
Definition C17_nesting : Prop := forall t, page_events (root _ _ t) false (full_events t).
End S.

(* C16 and C18 are corollaries/uses of the above in the model:
   C16_new_ok  : every r in ranges t has ps r <= pe r            (from C11: span_of gives a <= b)
   C18         : all statements above are closed over digest, V, H, lvl_of (hence base, width, hashers, key bytes) *)
