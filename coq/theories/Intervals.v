From MST Require Import Base TreeM Diff.
From Coq Require Import Sorted Permutation.

Definition wf (r : drange) : Prop := ds r <= de r.
Definition inr (x : N) (r : drange) : Prop := ds r <= x <= de r.
Definition inl (x : N) (l : list drange) : Prop := exists r, In r l /\ inr x r.
Definition bnds (l : list drange) : list N := flat_map (fun r => [ds r; de r]) l.
Fixpoint strict_asc (l : list drange) : Prop :=
  match l with a :: r => match r with b :: _ => de a < ds b | [] => True end /\ strict_asc r | [] => True end.
Fixpoint weak_asc (l : list drange) : Prop :=
  match l with a :: r => match r with b :: _ => de a <= ds b | [] => True end /\ weak_asc r | [] => True end.
Fixpoint start_sorted (l : list drange) : Prop :=
  match l with a :: r => Forall (fun b => ds a <= ds b) r /\ start_sorted r | [] => True end.

Lemma inl_cons x a l : inl x (a :: l) <-> inr x a \/ inl x l.
Proof. unfold inl; split.
  - intros (r & [<-|H] & Hx); eauto.
  - intros [H|(r & H & Hx)]; [exists a|exists r]; simpl; auto. Qed.
Lemma inl_nil x : ~ inl x [].
Proof. intros (r & [] & _). Qed.
Lemma inl_app x a b : inl x (a ++ b) <-> inl x a \/ inl x b.
Proof. unfold inl. split.
  - intros (r & H & Hx). apply in_app_iff in H as [H|H]; eauto.
  - intros [(r & H & Hx)|(r & H & Hx)]; exists r; rewrite in_app_iff; auto. Qed.

(* ---------------- merge_go ---------------- *)
Lemma merge_go_ok : forall rest last,
  wf last -> Forall wf rest -> Forall (fun b => ds last <= ds b) rest -> start_sorted rest ->
  exists out, merge_go last rest = Ok out /\
    Forall wf out /\ strict_asc out /\
    (exists h t, out = h :: t /\ ds h = ds last) /\
    (forall x, inl x out <-> inr x last \/ inl x rest) /\
    (forall b, In b (bnds out) -> In b (bnds (last :: rest))).
Proof.
  induction rest as [|r rest IH]; intros last Hl Hr Hle Hs.
  - exists [last]. cbn [merge_go]. split; [reflexivity|]. split; [constructor; auto|]. split; [simpl; auto|].
    split; [exists last, []; auto|]. split.
    + intros x. rewrite inl_cons. split; [tauto|]. intros [H|H]; auto.
    + intros b Hb. exact Hb.
  - simpl in Hs. destruct Hs as (Hs1 & Hs2). inversion Hr as [|? ? Hwr Hr']; subst. inversion Hle as [|? ? Hl1 Hle']; subst.
    cbn [merge_go]. unfold assert. replace (ds last <=? ds r) with true by (symmetry; apply N.leb_le; exact Hl1). cbn [bind].
    destruct (de r <=? de last) eqn:E1.
    + apply N.leb_le in E1.
      destruct (IH last Hl Hr' Hle' Hs2) as (out & E & W & S & Hh & U & Bd).
      exists out. split; [exact E|]. split; [exact W|]. split; [exact S|]. split; [exact Hh|]. split.
      * intros x. rewrite U, inl_cons. unfold inr, wf in *. split; [tauto|]. intros [H|[H|H]]; auto. left. lia.
      * intros b Hb. apply Bd in Hb. simpl in *. tauto.
    + apply N.leb_gt in E1. destruct (ds r <=? de last) eqn:E2.
      * apply N.leb_le in E2.
        assert (Hn: wf (DR (ds last) (de r))) by (unfold wf in *; simpl; lia).
        assert (Hle2: Forall (fun b => ds (DR (ds last) (de r)) <= ds b) rest) by exact Hle'.
        destruct (IH _ Hn Hr' Hle2 Hs2) as (out & E & W & S & Hh & U & Bd).
        exists out. split; [exact E|]. split; [exact W|]. split; [exact S|]. split; [exact Hh|]. split.
        -- intros x. rewrite U, inl_cons. unfold inr, wf in *. simpl. split.
           ++ intros [H|H]; [|tauto]. destruct (N.le_gt_cases x (de last)); [left|right; left]; lia.
           ++ intros [H|[H|H]]; [left|left|right]; auto; lia.
        -- intros b Hb. apply Bd in Hb. simpl in *. tauto.
      * apply N.leb_gt in E2.
        assert (Hle2: Forall (fun b => ds r <= ds b) rest) by exact Hs1.
        destruct (IH r Hwr Hr' Hle2 Hs2) as (out & E & W & S & (h & t & -> & Hh) & U & Bd).
        rewrite E. cbn [bind]. exists (last :: h :: t). split; [reflexivity|].
        split; [constructor; auto|]. split; [simpl; split; [lia|exact S]|].
        split; [exists last, (h :: t); auto|]. split.
        -- intros x. rewrite inl_cons, U, inl_cons. tauto.
        -- intros b Hb. simpl in Hb. simpl. destruct Hb as [Hb|[Hb|Hb]]; auto. right. right. apply (Bd b). exact Hb.
Qed.

(* ---------------- stable insertion sort ---------------- *)
Lemma ins_perm x l : Permutation (ins x l) (x :: l).
Proof. induction l as [|y r IH]; simpl; auto. destruct (ds x <=? ds y); auto.
  rewrite IH. apply perm_swap. Qed.
Lemma sort_perm l : Permutation (sort_by_start l) l.
Proof. induction l as [|x r IH]; simpl; auto. rewrite ins_perm. now constructor. Qed.
Lemma ins_sorted x l : start_sorted l -> start_sorted (ins x l).
Proof. induction l as [|y r IH]; simpl; intros H; auto.
  destruct H as (H1 & H2). destruct (ds x <=? ds y) eqn:E.
  - apply N.leb_le in E. simpl. repeat split; auto. constructor; auto.
    rewrite Forall_forall in *. intros b Hb. specialize (H1 b Hb). lia.
  - apply N.leb_gt in E. simpl. split; [|auto].
    rewrite Forall_forall in *. intros b Hb. apply (Permutation_in _ (ins_perm x r)) in Hb.
    destruct Hb as [<-|Hb]; [lia|auto]. Qed.
Lemma sort_sorted l : start_sorted (sort_by_start l).
Proof. induction l; simpl; auto. now apply ins_sorted. Qed.

Lemma inl_perm x a b : Permutation a b -> inl x a <-> inl x b.
Proof. intros P. unfold inl. split; intros (r & H & Hx); exists r; split; auto; [eapply Permutation_in; eauto|eapply Permutation_in; [symmetry|]; eauto]. Qed.
Lemma bnds_perm a b : Permutation a b -> forall z, In z (bnds a) <-> In z (bnds b).
Proof. intros P z. unfold bnds. rewrite !in_flat_map. split; intros (r & H & Hz); exists r; split; auto; [eapply Permutation_in; eauto|eapply Permutation_in; [symmetry|]; eauto]. Qed.

Lemma merge_overlapping_ok l : Forall wf l -> start_sorted l ->
  exists out, merge_overlapping l = Ok out /\ Forall wf out /\ strict_asc out /\
    (forall x, inl x out <-> inl x l) /\ (forall b, In b (bnds out) -> In b (bnds l)).
Proof.
  destruct l as [|a r]; intros W S.
  - exists []. simpl. repeat split; auto.
  - inversion W; subst. simpl in S. destruct S as (S1 & S2).
    destruct (merge_go_ok r a) as (out & E & W' & SA & _ & U & Bd); auto.
    exists out. simpl. repeat split; auto; intros; [apply U in H; apply inl_cons; auto|apply U; apply inl_cons in H; auto].
Qed.

Lemma strict_windows_ok l : Forall wf l -> strict_asc l -> windows_ok l = true /\ windows_nooverlap l = true.
Proof.
  induction l as [|a r IH]; intros W S; [auto|].
  inversion W; subst. simpl in S. destruct S as (S1 & S2). destruct (IH H2 S2) as (I1 & I2).
  destruct r as [|b r']; [auto|]. inversion H2; subst.
  change (windows_ok (a :: b :: r')) with (negb (overlaps a b) && (ds a <=? de a) && (ds b <=? de b) && windows_ok (b :: r')).
  change (windows_nooverlap (a :: b :: r')) with (negb (overlaps a b) && windows_nooverlap (b :: r')).
  rewrite I1, I2. unfold overlaps, wf in *.
  assert (ds b <=? de a = false) by (apply N.leb_gt; lia).
  replace (ds a <=? de a) with true by (symmetry; apply N.leb_le; lia).
  replace (ds b <=? de b) with true by (symmetry; apply N.leb_le; lia).
  rewrite H. rewrite andb_false_r. auto.
Qed.

Lemma into_vec_ok l : Forall wf l ->
  exists out, into_vec l = Ok out /\ Forall wf out /\ strict_asc out /\
    (forall x, inl x out <-> inl x l) /\ (forall b, In b (bnds out) -> In b (bnds l)).
Proof.
  intros W. unfold into_vec.
  assert (W': Forall wf (sort_by_start l)).
  { rewrite Forall_forall in *. intros r Hr. apply W. eapply Permutation_in; [apply sort_perm|exact Hr]. }
  destruct (merge_overlapping_ok _ W' (sort_sorted l)) as (out & E & Wo & S & U & Bd).
  rewrite E. cbn [bind]. destruct (strict_windows_ok out Wo S) as (Hw & _). unfold assert. rewrite Hw. cbn [bind].
  exists out. repeat split; auto.
  - intros H. apply U in H. eapply inl_perm; [symmetry; apply sort_perm|exact H].
  - intros H. apply U. eapply inl_perm; [apply sort_perm|exact H].
  - intros b Hb. apply Bd in Hb. eapply bnds_perm; [symmetry; apply sort_perm|exact Hb].
Qed.

(* ---------------- hole punching ---------------- *)
Fixpoint wasc (l : list drange) : Prop :=
  match l with a :: r => Forall (fun b => de a <= ds b) r /\ wasc r | [] => True end.
Definition within (b : drange) (r : drange) : Prop := ds b <= ds r /\ de r <= de b.

Lemma strict_wasc l : Forall wf l -> strict_asc l -> wasc l.
Proof.
  induction l as [|a r IH]; intros W S; simpl; auto.
  inversion W; subst. simpl in S. destruct S as (S1 & S2). split; [|auto].
  specialize (IH H2 S2). destruct r as [|b r']; [constructor|].
  inversion H2; subst. simpl in IH. destruct IH as (I1 & I2).
  constructor; [lia|]. rewrite Forall_forall in *. intros c Hc. specialize (I1 c Hc). unfold wf in *. lia.
Qed.
Lemma wasc_start_sorted l : Forall wf l -> wasc l -> start_sorted l.
Proof.
  induction l as [|a r IH]; intros W S; simpl; auto.
  inversion W; subst. destruct S as (S1 & S2). split; [|auto].
  rewrite Forall_forall in *. intros b Hb. specialize (S1 b Hb). unfold wf in *. lia.
Qed.
Lemma wasc_app l1 l2 : wasc l1 -> wasc l2 -> (forall a b, In a l1 -> In b l2 -> de a <= ds b) -> wasc (l1 ++ l2).
Proof.
  induction l1 as [|a r IH]; simpl; intros W1 W2 Hx; auto.
  destruct W1 as (A & B). split.
  - rewrite Forall_app. split; auto. rewrite Forall_forall. intros b Hb. apply Hx; auto.
  - apply IH; auto.
Qed.

Lemma punch_ok g b : wf g -> wf b ->
  Forall wf (punch g b) /\ wasc (punch g b) /\ Forall (within b) (punch g b) /\
  (forall x, inl x (punch g b) -> inr x b) /\
  (forall x, inr x b -> ~ inr x g -> inl x (punch g b)) /\
  (forall z, In z (bnds (punch g b)) -> In z (bnds [b; g])).
Proof.
  intros Wg Wb. unfold punch, overlaps, wf, within, inr in *.
  destruct ((ds g <=? de b) && (ds b <=? de g)) eqn:E; cbn [negb].
  - apply andb_true_iff in E as (E1 & E2). apply N.leb_le in E1, E2.
    destruct (ds b <? ds g) eqn:F1; destruct (de g <? de b) eqn:F2;
      try apply N.ltb_lt in F1; try apply N.ltb_ge in F1; try apply N.ltb_lt in F2; try apply N.ltb_ge in F2;
      cbn [app]; (split; [repeat constructor; simpl; lia|]); (split; [simpl; repeat split; auto; repeat constructor; simpl; lia|]);
      (split; [repeat constructor; simpl; lia|]); (split; [|split]).
    all: try (intros x H; repeat (apply inl_cons in H as [H|H]); try (now apply inl_nil in H); unfold inr in H; simpl in H; lia).
    all: try (intros x H Hn; rewrite ?inl_cons; unfold inr; simpl; lia).
    all: try (intros z H; simpl in *; tauto).
  - split; [repeat constructor; auto|]. split; [simpl; auto|]. split; [repeat constructor; lia|]. split; [|split].
    + intros x H. apply inl_cons in H as [H|H]; auto. now apply inl_nil in H.
    + intros x H _. apply inl_cons. auto.
    + intros z H. simpl in *. tauto.
Qed.

Lemma flat_punch_ok g : wf g -> forall bads, Forall wf bads -> wasc bads ->
  let out := flat_map (punch g) bads in
  Forall wf out /\ wasc out /\ Forall (fun r => exists b, In b bads /\ within b r) out /\
  (forall x, inl x out -> inl x bads) /\
  (forall x, inl x bads -> ~ inr x g -> inl x out) /\
  (forall z, In z (bnds out) -> In z (bnds bads) \/ In z (bnds [g])).
Proof.
  intros Wg. induction bads as [|b r IH]; intros W S; cbn [flat_map].
  - repeat split; auto; try constructor.
  - inversion W; subst. destruct S as (S1 & S2). destruct (IH H2 S2) as (I1 & I2 & I3 & I4 & I5 & I6).
    destruct (punch_ok g b Wg H1) as (P1 & P2 & P3 & P4 & P5 & P6).
    split; [rewrite Forall_app; auto|]. split.
    { apply wasc_app; auto. intros a c Ha Hc. rewrite Forall_forall in P3, I3, S1.
      destruct (P3 a Ha) as (_ & Q1). destruct (I3 c Hc) as (b' & Hb' & Q2 & _). specialize (S1 b' Hb'). lia. }
    split.
    { rewrite Forall_app. split.
      - rewrite Forall_forall in *. intros a Ha. exists b. split; [now left|auto].
      - rewrite Forall_forall in *. intros a Ha. destruct (I3 a Ha) as (b' & Hb' & Q). exists b'. split; [now right|auto]. }
    split; [|split].
    + intros x H. apply inl_app in H as [H|H]; apply inl_cons; auto.
    + intros x H Hn. apply inl_cons in H as [H|H]; apply inl_app; auto.
    + intros z H. unfold bnds in H. rewrite flat_map_app in H. apply in_app_iff in H as [H|H].
      * apply P6 in H. simpl in *. tauto.
      * apply I6 in H. simpl in *. tauto.
Qed.

Lemma fold_punch_ok : forall goods bads, Forall wf goods -> Forall wf bads -> wasc bads ->
  let out := fold_left (fun b g => flat_map (punch g) b) goods bads in
  Forall wf out /\ wasc out /\
  (forall x, inl x out -> inl x bads) /\
  (forall x, inl x bads -> ~ inl x goods -> inl x out) /\
  (forall z, In z (bnds out) -> In z (bnds bads) \/ In z (bnds goods)).
Proof.
  induction goods as [|g gs IH]; intros bads Wg Wb S; cbn [fold_left].
  - repeat split; auto.
  - inversion Wg; subst. destruct (flat_punch_ok g H1 bads Wb S) as (F1 & F2 & _ & F4 & F5 & F6).
    destruct (IH _ H2 F1 F2) as (I1 & I2 & I3 & I4 & I5).
    split; [exact I1|]. split; [exact I2|]. split; [|split].
    + intros x H. apply F4. apply I3. exact H.
    + intros x H Hn. apply I4; [apply F5; auto|]; intros C; apply Hn; apply inl_cons; auto.
    + intros z H. apply I5 in H as [H|H].
      * apply F6 in H as [H|H]; [auto|]. right. simpl in *. tauto.
      * right. simpl. auto.
Qed.

Theorem reduce_sync_range_ok bad good :
  Forall wf bad -> strict_asc bad -> Forall wf good ->
  exists out, reduce_sync_range bad good = Ok out /\ Forall wf out /\ strict_asc out /\
    (forall x, inl x out -> inl x bad) /\
    (forall x, inl x bad -> ~ inl x good -> inl x out) /\
    (forall z, In z (bnds out) -> In z (bnds bad) \/ In z (bnds good)).
Proof.
  intros Wb Sb Wg. unfold reduce_sync_range.
  destruct (fold_punch_ok good bad Wg Wb (strict_wasc _ Wb Sb)) as (F1 & F2 & F3 & F4 & F5).
  destruct (merge_overlapping_ok _ F1 (wasc_start_sorted _ F1 F2)) as (out & E & Wo & So & U & Bd).
  rewrite E. cbn [bind]. destruct (strict_windows_ok out Wo So) as (_ & Hw). unfold assert. rewrite Hw. cbn [bind].
  exists out. split; [reflexivity|]. split; [exact Wo|]. split; [exact So|]. split; [|split].
  - intros x H. apply F3. apply U. exact H.
  - intros x H Hn. apply U. apply F4; auto.
  - intros z H. apply F5. apply Bd. exact H.
Qed.

Theorem into_diff_vec_ok b :
  Forall wf (inc b) -> Forall wf (con b) ->
  exists out, into_diff_vec b = Ok out /\ Forall wf out /\ strict_asc out /\
    (forall x, inl x out -> inl x (inc b)) /\
    (forall x, inl x (inc b) -> ~ inl x (con b) -> inl x out) /\
    (forall z, In z (bnds out) -> In z (bnds (inc b)) \/ In z (bnds (con b))).
Proof.
  intros Wi Wc. unfold into_diff_vec.
  destruct (into_vec_ok _ Wi) as (i & Ei & Wi' & Si & Ui & Bi).
  destruct (into_vec_ok _ Wc) as (c & Ec & Wc' & Sc & Uc & Bc).
  rewrite Ei, Ec. cbn [bind].
  destruct (reduce_sync_range_ok i c Wi' Si Wc') as (out & E & Wo & So & R1 & R2 & R3).
  exists out. split; [exact E|]. split; [exact Wo|]. split; [exact So|]. split; [|split].
  - intros x H. apply Ui. apply R1. exact H.
  - intros x H Hn. apply R2; [apply Ui; exact H|]. intros C. apply Hn. apply Uc. exact C.
  - intros z H. apply R3 in H as [H|H]; [left; apply Bi|right; apply Bc]; exact H.
Qed.
Print Assumptions into_diff_vec_ok.
