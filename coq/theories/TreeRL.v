From MST Require Import Base TreeM Diff Spec TreeUpsert TreeHash TreeInv TreeRanges DiffTrees.

Section TRL.
Variable digest V : Type.
Variable H : list (tok digest V) -> digest.
Variable lvl_of : N -> N.
Hypothesis lvl_of_u8 : forall k, lvl_of k < 255.

Notation mst := (mst digest V).
Notation root := (root digest V).
Notation content := (content digest V).
Notation Inv := (Inv digest V H lvl_of).
Notation mst_root_hash := (mst_root_hash digest V H).
Notation mst_serialise := (mst_serialise digest V).
Notation RL := (RL digest V H).
Notation subpages := (subpages digest V).

Definition tree_ranges (t : mst) := mst_serialise (fst (mst_root_hash t)).

Lemma Forall2_in_r {A B} (R : A -> B -> Prop) la lb : Forall2 R la lb -> forall b, In b lb -> exists a, In a la /\ R a b.
Proof. induction 1 as [|x0 y0 la' lb' Hxy HF IH]; intros b0 Hb; [destruct Hb|]. destruct Hb as [<-|Hb]; [exists x0; split; [now left|auto]|].
  destruct (IH _ Hb) as (a & Ha & Hr). exists a. split; [now right|auto]. Qed.

Lemma strict_first (a m b : list (N * V)) f k1 : StronglySorted N.lt (keys (a ++ m ++ b)) -> a <> [] ->
  first_key V (a ++ m ++ b) = Some f -> first_key V m = Some k1 -> f < k1.
Proof.
  intros HS Ha F F1. destruct a as [|[k v] a]; [congruence|]. cbn in F. injection F as <-.
  rewrite !keys_app in HS. apply SS_app in HS as (_ & _ & S3). apply S3; [rewrite keys_cons; now left|].
  rewrite in_app_iff. left. destruct m as [|[k' v'] m]; [discriminate|]. injection F1 as ->. rewrite keys_cons. now left.
Qed.
Lemma strict_last (a m b : list (N * V)) l k2 : StronglySorted N.lt (keys (a ++ m ++ b)) -> b <> [] ->
  last_key V (a ++ m ++ b) = Some l -> last_key V m = Some k2 -> k2 < l.
Proof.
  intros HS Hb L L2. rewrite app_assoc in L. rewrite last_key_app in L by exact Hb.
  rewrite !keys_app in HS. apply SS_app in HS as (_ & S2 & _). apply SS_app in S2 as (_ & _ & S4).
  apply S4.
  - unfold TreeRanges.last_key in L2. destruct (rev m) as [|[k v] r] eqn:E; [discriminate|]. injection L2 as ->.
    apply (f_equal (@rev _)) in E. rewrite rev_involutive in E. cbn in E. rewrite E, keys_app, in_app_iff. right. rewrite keys_cons. now left.
  - unfold TreeRanges.last_key in L. destruct (rev b) as [|[k v] r] eqn:E; [discriminate|]. injection L as ->.
    apply (f_equal (@rev _)) in E. rewrite rev_involutive in E. cbn in E. rewrite E, keys_app, in_app_iff. right. rewrite keys_cons. now left.
Qed.

Theorem tree_RL t : Inv t -> exists l, tree_ranges t = Ok (Some l) /\ RL (content (root t)) l.
Proof.
  intros Hi. unfold tree_ranges. pose proof (mst_root_hash_spec digest V H lvl_of t Hi) as HS.
  destruct (mst_root_hash t) as [t' d]. destruct HS as (Hi' & _ & Heq & Hac & Hrh). cbn [fst].
  unfold TreeM.mst_serialise. rewrite Hrh.
  rewrite <- (content_eqs digest V lvl_of _ _ Heq).
  destruct Hi' as (Hso & Hc & Hsh & _).
  destruct Hsh as [(En & Eh & El)|Hsh].
  - unfold TreeM.nonempty. rewrite En. exists []. split; [reflexivity|].
    assert (content (root t') = []) as -> by (rewrite content_eq, En, Eh; reflexivity).
    constructor; auto; [unfold Spec.sorted, keys; constructor|congruence|discriminate].
  - rewrite (shape_nonempty _ _ _ _ _ Hsh).
    destruct (ranges_page_spec digest V H lvl_of (root t') 256 Hsh Hac Hc) as (l & El & F2). rewrite El. cbn [bind].
    exists l. split; [reflexivity|].
    constructor.
    + exact Hso.
    + intros E. exfalso. apply (shape_content_nonempty _ _ _ _ _ Hsh). exact E.
    + intros _. rewrite subpages_eq in F2. inversion F2 as [|? r0 ? rest R0 _]; subst.
      destruct R0 as (A & B & C). exists r0, rest. split; [reflexivity|]. split; [exact A|]. split; [exact B|]. exists (root t'). auto.
    + rewrite Forall_forall. intros r Hr. destruct (Forall2_in_r _ _ _ F2 r Hr) as (q & Hq & (A & B & C)).
      destruct (subpage_facts digest V H lvl_of (root t') 256 q Hq Hsh Hac Hc) as (_ & _ & _ & a & b & E).
      exists q, a, b. auto.
    + intros r0 rest El0. subst l. rewrite subpages_eq in F2. inversion F2 as [|? ? ? ? R0 F2']; subst.
      destruct R0 as (A0 & B0 & _).
      rewrite Forall_forall. intros r Hr. destruct (Forall2_in_r _ _ _ F2' r Hr) as (q & Hq & (A & B & _)).
      destruct (subpage_proper digest V H lvl_of (root t') 256 q Hq Hsh Hac Hc) as (a & b & E & Hab).
      unfold Diff.superset. apply andb_false_iff. rewrite E in Hso, A0, B0. destruct Hab as [Ha|Hb].
      * left. apply N.leb_gt. apply (strict_first a (content q) b _ _ Hso Ha A0 A).
      * right. apply N.leb_gt. apply (strict_last a (content q) b _ _ Hso Hb B0 B).
Qed.
End TRL.
