(* In-Coq execution path of the correspondence check (no extraction, no OCaml): the model is instantiated with
   byte-string digests and the Gallina SipHash-2-4-128, and the observation line of a case is rendered as a
   [string] by Gallina printers that produce exactly the text the Rust harness prints. tools/coqcases.py writes
   a cases.v that compares, by vm_compute inside coqc, these strings with the harness' output for the corpus. *)
From Coq Require Import String Ascii DecimalString.
From MST Require Import Sip Base TreeM Diff.
Local Open Scope string_scope.

Definition bytes := list N.
Definition nib (x : N) : ascii :=
  match x with
  | 0 => "0" | 1 => "1" | 2 => "2" | 3 => "3" | 4 => "4" | 5 => "5" | 6 => "6" | 7 => "7"
  | 8 => "8" | 9 => "9" | 10 => "a" | 11 => "b" | 12 => "c" | 13 => "d" | 14 => "e" | _ => "f"
  end%char.
Fixpoint hex (b : bytes) : string :=
  match b with [] => "" | x :: r => String (nib (x / 16)) (String (nib (x mod 16)) (hex r)) end.
Fixpoint strip0 (b : bytes) : bytes :=     (* drop trailing zero bytes *)
  match b with
  | [] => []
  | x :: r => match strip0 r with [] => if N.eqb x 0 then [] else [x] | r' => x :: r' end
  end.
Definition hexz (b : bytes) : string := hex (strip0 b).
Definition dec (n : N) : string := NilZero.string_of_uint (N.to_uint n).

(* ---- the concrete instance ---- *)
Record keyinfo := KI { kbytes : list bytes; kdig : list bytes }.
Definition key_bytes (ki : keyinfo) (k : N) : bytes := nth (N.to_nat k) (kbytes ki) [].
Definition enc_tok (ki : keyinfo) (t : tok bytes bytes) : bytes :=
  match t with TD _ _ d => d | TK _ _ k => key_bytes ki k | TV _ _ v => v end.
Definition Hsip (ki : keyinfo) (toks : list (tok bytes bytes)) : bytes :=
  siphash24_128 0 0 (concat (map (enc_tok ki) toks)).
Definition lvl (ki : keyinfo) (base : N) (k : N) : N := level (nth (N.to_nat k) (kdig ki) []) base.
Definition beq (a b : bytes) : bool := if list_eq_dec N.eq_dec a b then true else false.

Notation page := (page bytes bytes).
Notation node := (node bytes bytes).
Notation mst := (mst bytes bytes).

(* ---- printers (mirror harness/src/treeobs.rs) ---- *)
Fixpoint show_page (hp : bool) (p : page) {struct p} : string :=
  match p with
  | Page _ _ l c ns high =>
    "I" ++ dec l ++ ":" ++ (if hp then "h" else "n") ++ ":" ++ (match c with Some d => hex d | None => "-" end) ++ " " ++
    (fix go (ns : list node) : string :=
       match ns with
       | [] => ""
       | Node _ _ k v lt :: r =>
         "( " ++ (match lt with Some q => show_page false q | None => "" end) ++ dec k ++ "=" ++ hexz v ++ " ) " ++ go r
       end) ns ++
    "O " ++ (match high with Some h => show_page true h | None => "" end)
  end.
Definition show_ranges (l : list (prange bytes)) : string :=
  fold_right (fun r acc => dec (ps _ r) ++ "-" ++ dec (pe _ r) ++ "-" ++ hex (ph _ r) ++ "," ++ acc) "" l.
Definition show_state (t : mst) : option string :=
  match mst_serialise _ _ t, node_iter _ _ t with
  | Ok r, Ok ns =>
    Some ("D=" ++ show_page false (root _ _ t) ++
          "|rc=" ++ (match root_hash _ _ t with Some d => hex d | None => "-" end) ++
          "|R=" ++ (match r with Some l => show_ranges l | None => "-" end) ++
          "|N=" ++ fold_right (fun n acc => dec (nkey _ _ n) ++ "=" ++ hexz (nval _ _ n) ++ "," ++ acc) "" ns)
  | _, _ => None
  end.

Inductive cop := CU (k : N) (v : bytes) | CH.
Definition step_show (ki : keyinfo) (base : N) (t : mst) (o : cop) : option (mst * string) :=
  match o with
  | CH => let '(t', d) := mst_root_hash _ _ (Hsip ki) t in
          match show_state t' with Some s => Some (t', "H=" ++ hex d ++ "|" ++ s) | None => None end
  | CU k v => match mst_upsert _ _ true t k (lvl ki base k) v with
              | Ok t' => match show_state t' with Some s => Some (t', s) | None => None end
              | _ => None
              end
  end.
Fixpoint run_show (ki : keyinfo) (base : N) (t : mst) (ops : list cop) (first : bool) : mst * string * bool :=
  match ops with
  | [] => (t, "", true)
  | o :: r =>
    match step_show ki base t o with
    | Some (t', s) => let '(tf, rest, ok) := run_show ki base t' r false in (tf, (if first then "" else ";") ++ s ++ rest, ok)
    | None => (t, (if first then "" else ";") ++ "PANIC", false)
    end
  end.
Definition ev_char (e : ev bytes bytes) : ascii :=
  match e with EIn _ _ _ hp => if hp then "H" else "I" | EOut _ _ _ => "O" | EPre _ _ _ => "(" | EVisit _ _ _ => "v" | EPost _ _ _ => ")" end%char.
Definition show_budget (t : mst) (b : nat) : string :=
  "B:" ++ fold_right (fun e acc => String (ev_char e) acc) " " (fst (traverse _ _ (fun i => Nat.ltb (S i) b) t)).
Definition show_budgets (t : mst) : string :=
  let total := length (fst (traverse _ _ (fun _ => true) t)) in
  fold_right (fun b acc => show_budget t b ++ acc) "" (seq 1 total).
(* T / Tb case *)
Definition show_tree_case (budgets : bool) (base : N) (ki : keyinfo) (ops : list cop) : string :=
  let '(t, s, ok) := run_show ki base (mst_init _ _) ops true in
  if budgets && ok then s ++ "#" ++ show_budgets t else s.

(* P case *)
Fixpoint build (ki : keyinfo) (base : N) (t : mst) (ops : list cop) : option mst :=
  match ops with
  | [] => Some t
  | CH :: r => build ki base (fst (mst_root_hash _ _ (Hsip ki) t)) r
  | CU k v :: r => match mst_upsert _ _ true t k (lvl ki base k) v with Ok t' => build ki base t' r | _ => None end
  end.
Definition show_diff (d : res (list drange)) : option string :=
  match d with
  | Ok [] => Some "-"
  | Ok l => Some (fold_right (fun r acc => dec (ds r) ++ "-" ++ dec (de r) ++ "," ++ acc) "" l)
  | _ => None
  end.
Definition show_pair_case (base : N) (ki : keyinfo) (opsA opsB : list cop) : string :=
  match build ki base (mst_init _ _) opsA, build ki base (mst_init _ _) opsB with
  | Some a, Some b =>
    let a := fst (mst_root_hash _ _ (Hsip ki) a) in let b := fst (mst_root_hash _ _ (Hsip ki) b) in
    match mst_serialise _ _ a, mst_serialise _ _ b with
    | Ok (Some ra), Ok (Some rb) =>
      match show_diff (diff _ beq ra rb), show_diff (diff _ beq rb ra) with
      | Some ab, Some ba => "RA=" ++ show_ranges ra ++ "|RB=" ++ show_ranges rb ++ "|AB=" ++ ab ++ "|BA=" ++ ba
      | _, _ => "PANIC"
      end
    | _, _ => "PANIC"
    end
  | _, _ => "PANIC"
  end.
(* D case *)
Definition show_list_case (local peer_ : list (prange bytes)) : string :=
  match show_diff (diff _ beq local peer_) with Some s => s | None => "PANIC" end.
(* L case *)
Definition show_level_case (base : N) (d : bytes) : string := dec (level d base).

(* SipHash-2-4-128 reference vectors (key 00 01 .. 0f; messages: empty, and 00), from the SipHash reference code *)
Example siphash_reference_vector_0 :
  hex (siphash24_128 0x0706050403020100 0x0f0e0d0c0b0a0908 []) = "a3817f04ba25a8e66df67214c7550293".
Proof. vm_compute. reflexivity. Qed.
Example siphash_reference_vector_1 :
  hex (siphash24_128 0x0706050403020100 0x0f0e0d0c0b0a0908 [0]) = "da87c1d86b99af44347659119b22fc45".
Proof. vm_compute. reflexivity. Qed.
