From Coq Require Import PeanoNat Arith.
From MST Require Import Base TreeM Spec.

Section Iter.
Variable digest V : Type.
Notation page := (page digest V).
Notation node := (node digest V).
Notation pvisit := (pvisit digest V).
Notation pnodes := (pnodes digest V). Notation phigh := (phigh digest V). Notation nlt := (nlt digest V).
Notation psize := (psize digest V).
Notation iter_next := (iter_next digest V). Notation iter_all := (iter_all digest V).
Notation PV := (PV digest V).

(* in-order node list *)
Fixpoint nodes_of (p : page) : list node :=
  match p with
  | TreeM.Page _ _ _ _ ns hp =>
    (fix go (ns : list node) : list node :=
       match ns with [] => [] | n :: r => (match nlt n with Some c => nodes_of c | None => [] end) ++ n :: go r end) ns
    ++ match hp with Some h => nodes_of h | None => [] end
  end.
Definition nodes_of_opt (o : option page) : list node := match o with Some p => nodes_of p | None => [] end.
Fixpoint nodes_from (ns : list node) : list node :=
  match ns with [] => [] | n :: r => nodes_of_opt (nlt n) ++ n :: nodes_from r end.
Lemma nodes_of_eq p : nodes_of p = nodes_from (pnodes p) ++ nodes_of_opt (phigh p).
Proof. destruct p as [l c ns hp]. reflexivity. Qed.
Arguments nodes_of : simpl never.

Definition W_opt (o : option page) : nat := match o with Some p => psize p | None => O end.
Fixpoint rem_w (ns : list node) : nat := match ns with [] => O | n :: r => S (W_opt (nlt n) + rem_w r) end.
Lemma psize_eq p : psize p = S (rem_w (pnodes p) + W_opt (phigh p)).
Proof. destruct p as [l c ns hp]. reflexivity. Qed.
Arguments TreeM.psize : simpl never.

(* denotation and potential of a frame / stack *)
Definition den_frame (f : pvisit) : list node :=
  match pv_state _ _ f with
  | Unvisited => nodes_from (skipn (pv_idx _ _ f) (pnodes (pv_page _ _ f))) ++ nodes_of_opt (phigh (pv_page _ _ f))
  | Descended =>
    match nth_error (pnodes (pv_page _ _ f)) (pv_idx _ _ f) with
    | Some n => n :: nodes_from (skipn (S (pv_idx _ _ f)) (pnodes (pv_page _ _ f))) ++ nodes_of_opt (phigh (pv_page _ _ f))
    | None => nodes_of_opt (phigh (pv_page _ _ f))
    end
  end.
Definition phi_frame (f : pvisit) : nat :=
  match pv_state _ _ f with
  | Unvisited => S (2 * (rem_w (skipn (pv_idx _ _ f) (pnodes (pv_page _ _ f))) + W_opt (phigh (pv_page _ _ f))))
  | Descended => S (S (2 * (rem_w (skipn (S (pv_idx _ _ f)) (pnodes (pv_page _ _ f))) + W_opt (phigh (pv_page _ _ f)))))
  end.
Definition wf_frame (f : pvisit) : Prop :=
  match pv_state _ _ f with
  | Unvisited => True
  | Descended => exists n, nth_error (pnodes (pv_page _ _ f)) (pv_idx _ _ f) = Some n /\ nlt n <> None
  end.
Definition den (st : list pvisit) : list node := flat_map den_frame st.
Definition phi (st : list pvisit) : nat := fold_right (fun f a => (phi_frame f + a)%nat) O st.

Lemma phi_cons f st : phi (f :: st) = (phi_frame f + phi st)%nat. Proof. reflexivity. Qed.
Lemma den_cons f st : den (f :: st) = den_frame f ++ den st. Proof. reflexivity. Qed.
Lemma phi_U p idx : phi_frame (PV p idx Unvisited) = S (2 * (rem_w (skipn idx (pnodes p)) + W_opt (phigh p))). Proof. reflexivity. Qed.
Lemma phi_D p idx : phi_frame (PV p idx Descended) = S (S (2 * (rem_w (skipn (S idx) (pnodes p)) + W_opt (phigh p)))). Proof. reflexivity. Qed.
Lemma den_U p idx : den_frame (PV p idx Unvisited) = nodes_from (skipn idx (pnodes p)) ++ nodes_of_opt (phigh p). Proof. reflexivity. Qed.
Lemma den_D p idx n : nth_error (pnodes p) idx = Some n ->
  den_frame (PV p idx Descended) = n :: nodes_from (skipn (S idx) (pnodes p)) ++ nodes_of_opt (phigh p).
Proof. intros E. unfold den_frame. cbn [TreeM.pv_page TreeM.pv_idx TreeM.pv_state]. rewrite E. reflexivity. Qed.
Lemma phi0 c : phi_frame (PV c 0 Unvisited) = S (2 * (psize c - 1)).
Proof. rewrite phi_U, psize_eq. cbn [skipn]. lia. Qed.
Lemma den0 c : den_frame (PV c 0 Unvisited) = nodes_of c.
Proof. rewrite den_U, nodes_of_eq. reflexivity. Qed.
Lemma psize_pos c : (1 <= psize c)%nat. Proof. rewrite psize_eq. lia. Qed.

Lemma skipn_nth {A} (l : list A) i x : nth_error l i = Some x -> skipn i l = x :: skipn (S i) l.
Proof. revert i. induction l as [|y l IH]; intros [|i] E; cbn in *; try discriminate; [congruence|auto]. Qed.
Lemma skipn_none {A} (l : list A) i : nth_error l i = None -> skipn i l = [].
Proof. revert i. induction l as [|y l IH]; intros [|i] E; cbn in *; try discriminate; auto. Qed.

Ltac norm_app := repeat (rewrite <- app_assoc || rewrite <- app_comm_cons); cbn [app].

Theorem iter_next_spec : forall fuel st, Forall wf_frame st -> (phi st < fuel)%nat ->
  match iter_next fuel st with
  | TreeM.IDone _ _ => den st = []
  | TreeM.IYield _ _ n st' => den st = n :: den st' /\ Forall wf_frame st' /\ (phi st' < phi st)%nat
  | _ => False
  end.
Proof.
  induction fuel as [|f IH]; intros st Hw Hf; [lia|].
  cbn [TreeM.iter_next]. destruct st as [|[p idx state] st]; [reflexivity|].
  inversion Hw as [|? ? Hw0 Hw']; subst. cbn [TreeM.pv_page TreeM.pv_idx TreeM.pv_state].
  rewrite phi_cons in Hf. rewrite !den_cons, !phi_cons.
  destruct (nth_error (pnodes p) idx) as [n|] eqn:En.
  - destruct state.
    + (* Unvisited *)
      rewrite phi_U in *. rewrite den_U. rewrite (skipn_nth _ _ _ En) in *. cbn [nodes_from rem_w] in *.
      destruct (nlt n) as [c|] eqn:Ec; cbn [nodes_of_opt W_opt] in *.
      * (* descend into the lt child *)
        assert (Hw2: Forall wf_frame (PV c 0 Unvisited :: PV p idx Descended :: st)).
        { constructor; [exact I|]. constructor; [|exact Hw']. exists n. split; [exact En|congruence]. }
        pose proof (psize_pos c) as Hpc.
        assert (Ep: phi (PV c 0 Unvisited :: PV p idx Descended :: st) = (S (2 * (psize c - 1)) + (S (S (2 * (rem_w (skipn (S idx) (pnodes p)) + W_opt (phigh p)))) + phi st))%nat).
        { rewrite !phi_cons, phi0, phi_D. reflexivity. }
        assert (Ed: den (PV c 0 Unvisited :: PV p idx Descended :: st) = nodes_of c ++ n :: nodes_from (skipn (S idx) (pnodes p)) ++ nodes_of_opt (phigh p) ++ den st).
        { rewrite !den_cons, den0, (den_D _ _ _ En). norm_app. reflexivity. }
        assert (Hp: (phi (PV c 0 Unvisited :: PV p idx Descended :: st) < f)%nat) by (rewrite Ep; lia).
        specialize (IH _ Hw2 Hp). rewrite Ed in IH.
        destruct (iter_next f (PV c 0 Unvisited :: PV p idx Descended :: st)) as [|m st'| |]; try contradiction.
        -- exfalso. destruct (nodes_of c); discriminate.
        -- destruct IH as (A & B & C). split; [|split; [exact B|rewrite Ep in C; lia]]. rewrite <- A. norm_app. reflexivity.
      * (* yield n *)
        split; [|split].
        -- rewrite den_cons, den_U. cbn [app]. norm_app. reflexivity.
        -- constructor; [exact I|exact Hw'].
        -- rewrite phi_cons, phi_U. lia.
    + (* Descended: yield *)
      destruct Hw0 as (n' & En' & Hn'). cbn [TreeM.pv_page TreeM.pv_idx] in En'. rewrite En in En'. injection En' as <-.
      unfold TreeM.is_none. destruct (nlt n) as [c|]; [|congruence].
      rewrite phi_D in *. rewrite (den_D _ _ _ En).
      split; [|split].
      * rewrite den_cons, den_U. cbn [app]. norm_app. reflexivity.
      * constructor; [exact I|exact Hw'].
      * rewrite phi_cons, phi_U. lia.
  - (* frame exhausted: continue with the high page, or pop *)
    assert (Hden: den_frame (PV p idx state) = nodes_of_opt (phigh p)).
    { destruct state; [rewrite den_U, (skipn_none _ _ En); reflexivity|unfold den_frame; cbn [TreeM.pv_page TreeM.pv_idx TreeM.pv_state]; rewrite En; reflexivity]. }
    assert (Hphi: (S (2 * W_opt (phigh p)) <= phi_frame (PV p idx state))%nat).
    { destruct state; [rewrite phi_U|rewrite phi_D]; lia. }
    rewrite Hden.
    destruct (phigh p) as [h|] eqn:Eh; cbn [nodes_of_opt W_opt] in *.
    + assert (Hw2: Forall wf_frame (PV h 0 Unvisited :: st)) by (constructor; [exact I|exact Hw']).
      pose proof (psize_pos h) as Hph.
      assert (Ep: phi (PV h 0 Unvisited :: st) = (S (2 * (psize h - 1)) + phi st)%nat) by (rewrite phi_cons, phi0; reflexivity).
      assert (Ed: den (PV h 0 Unvisited :: st) = nodes_of h ++ den st) by (rewrite den_cons, den0; reflexivity).
      assert (Hp: (phi (PV h 0 Unvisited :: st) < f)%nat) by (rewrite Ep; lia).
      specialize (IH _ Hw2 Hp). rewrite Ed in IH.
      destruct (iter_next f (PV h 0 Unvisited :: st)) as [|m st'| |]; try contradiction; [exact IH|].
      destruct IH as (A & B & C). split; [exact A|split; [exact B|rewrite Ep in C; lia]].
    + assert (Hp: (phi st < f)%nat) by lia. specialize (IH _ Hw' Hp). cbn [app].
      destruct (iter_next f st) as [|m st'| |]; try contradiction; [exact IH|].
      destruct IH as (A & B & C). split; [exact A|split; [exact B|lia]].
Qed.

Theorem iter_all_spec : forall outer inner st, Forall wf_frame st -> (phi st < inner)%nat -> (length (den st) < outer)%nat ->
  iter_all outer inner st = Ok (den st).
Proof.
  induction outer as [|o IH]; intros inner st Hw Hp Hl; [lia|].
  cbn [TreeM.iter_all]. pose proof (iter_next_spec inner st Hw Hp) as HS.
  destruct (iter_next inner st) as [|n st'| |]; try contradiction.
  - rewrite HS. reflexivity.
  - destruct HS as (A & B & C). rewrite A in Hl. cbn [length] in Hl.
    rewrite (IH inner st' B ltac:(lia) ltac:(lia)). cbn [bind]. rewrite A. reflexivity.
Qed.

Definition LEN (p : page) : Prop := (length (nodes_of p) < psize p)%nat.
Lemma nodes_len : forall p, LEN p.
Proof.
  induction p as [l c ns hp IHns IHhp] using (page_ind' digest V). unfold LEN.
  rewrite nodes_of_eq, psize_eq, app_length. cbn [TreeM.pnodes TreeM.phigh].
  assert (A: (length (nodes_from ns) <= rem_w ns)%nat).
  { clear IHhp. induction IHns as [|n r Hn Hr IH]; cbn [nodes_from rem_w length]; [lia|].
    rewrite app_length. cbn [length]. destruct (nlt n) as [q|]; cbn [nodes_of_opt W_opt PO] in *; [unfold LEN in Hn|]; cbn [length]; lia. }
  destruct hp as [h|]; cbn [nodes_of_opt W_opt PO length] in *; [unfold LEN in IHhp|]; lia.
Qed.

Theorem node_iter_spec (t : mst digest V) : node_iter digest V t = Ok (nodes_of (root _ _ t)).
Proof.
  unfold TreeM.node_iter. set (p := root _ _ t).
  pose proof (nodes_len p) as HL. unfold LEN in HL. pose proof (psize_pos p) as Hp.
  rewrite iter_all_spec.
  - unfold den. cbn [flat_map]. rewrite den0, app_nil_r. reflexivity.
  - constructor; [exact I|constructor].
  - rewrite phi_cons, phi0. cbn [phi fold_right]. lia.
  - unfold den. cbn [flat_map]. rewrite den0, app_nil_r. lia.
Qed.

Lemma nodes_content : forall p, map (fun n => (nkey digest V n, nval digest V n)) (nodes_of p) = content digest V p.
Proof.
  induction p as [l c ns hp IHns IHhp] using (page_ind' digest V).
  rewrite nodes_of_eq, content_eq, map_app. cbn [TreeM.pnodes TreeM.phigh]. f_equal.
  - clear IHhp. induction IHns as [|n r Hn Hr IH]; [reflexivity|]. cbn [nodes_from Spec.content_nodes]. rewrite map_app. cbn [map]. rewrite IH. f_equal.
    destruct (nlt n) as [q|]; cbn [nodes_of_opt Spec.content_opt PO] in *; [exact Hn|reflexivity].
  - destruct hp as [h|]; cbn [nodes_of_opt Spec.content_opt PO] in *; [exact IHhp|reflexivity].
Qed.
Print Assumptions node_iter_spec.
End Iter.
