From MST Require Import Base TreeM.

Fixpoint leading_zeros (bytes : list N) : nat :=
  match bytes with 0 :: r => S (leading_zeros r) | _ => O end.
Definition next_digit (bytes : list N) (base : N) : N :=
  match nth_error bytes (leading_zeros bytes) with Some b => if b mod base =? 0 then 1 else 0 | None => 0 end.

Lemma level_go_spec base : forall bytes out,
  level_go bytes base out = out + 2 * N.of_nat (leading_zeros bytes) + next_digit bytes base.
Proof.
  induction bytes as [|v r IH]; intros out.
  - cbn. lia.
  - cbn [level_go]. unfold base_count_zero. destruct (v =? 0) eqn:E0.
    + apply N.eqb_eq in E0. subst v. rewrite IH. unfold next_digit. cbn [leading_zeros nth_error]. lia.
    + assert (Hz: leading_zeros (v :: r) = O). { destruct v; [discriminate|reflexivity]. }
      unfold next_digit. rewrite Hz. cbn [nth_error].
      destruct (v mod base =? 0); cbn; lia.
Qed.
Theorem C14_level_spec bytes base :
  level bytes base = 2 * N.of_nat (leading_zeros bytes) + next_digit bytes base.
Proof. unfold level. rewrite level_go_spec. lia. Qed.
Theorem C14_level_bound bytes base : level bytes base <= 2 * N.of_nat (length bytes).
Proof.
  rewrite C14_level_spec. unfold next_digit.
  assert (H: forall l, (leading_zeros l <= length l)%nat /\ (nth_error l (leading_zeros l) <> None -> leading_zeros l < length l)%nat).
  { induction l as [|v r [I1 I2]]; cbn; [split; [lia|congruence]|]. destruct v; cbn; [split; [lia|intros Hn; specialize (I2 Hn); lia]|split; [lia|lia]]. }
  destruct (H bytes) as (A & B). destruct (nth_error bytes (leading_zeros bytes)) as [b|].
  - specialize (B ltac:(discriminate)). destruct (b mod base =? 0); lia.
  - lia.
Qed.
Print Assumptions C14_level_spec.
