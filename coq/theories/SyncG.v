From Coq Require Import PeanoNat Arith.
From MST Require Import Base TreeM Diff Spec TreeRanges Intervals DiffTrees Sync SyncRounds.

Section Multi.
Variable digest V : Type.
Variable H : list (tok digest V) -> digest.
Variable deqb : digest -> digest -> bool.
Hypothesis deqb_spec : forall a b, deqb a b = true <-> a = b.
Hypothesis Hinj : forall a b, H a = H b -> a = b.
Variable Val : Type.
Variable val_dec : forall a b : Val, {a = b} + {a <> b}.
Variable vh : Val -> V.
Hypothesis vh_inj : forall a b, vh a = vh b -> a = b.
Variable merge : Val -> Val -> Val.
(* ANY join-semilattice: idempotent, commutative, associative *)
Hypothesis merge_idem : forall x, merge x x = x.
Hypothesis merge_comm : forall o x, merge o x = merge x o.
Hypothesis merge_assoc : forall a b c, merge a (merge b c) = merge (merge a b) c.
Variable ser : store Val -> list (prange digest).
Hypothesis ser_RL : forall s, store_ok Val s -> RL digest V H (cmap V Val vh s) (ser s).

Notation store := (store Val).
Notation store_ok := (store_ok Val).
Notation slookup := (slookup Val).
Notation pull := (pull digest deqb Val merge ser).
Notation merged := (merged Val merge).
Notation skeys := (skeys Val).

Lemma merge_anti : forall o x, merge o x = o -> merge x o = x -> o = x.
Proof. intros o x A B. rewrite merge_comm in B. congruence. Qed.

(* the order of the semilattice, lifted to options (absent = bottom) *)
Definition le (x y : Val) : Prop := merge x y = y.
Definition ole (a b : option Val) : Prop :=
  match a, b with None, _ => True | Some x, Some y => le x y | Some _, None => False end.
Lemma le_dec x y : {le x y} + {~ le x y}. Proof. unfold le. apply val_dec. Qed.
Lemma ole_dec a b : {ole a b} + {~ ole a b}.
Proof. destruct a as [x|], b as [y|]; cbn; auto. apply le_dec. Qed.
Lemma le_refl x : le x x. Proof. apply merge_idem. Qed.
Lemma le_trans x y z : le x y -> le y z -> le x z.
Proof. unfold le. intros A B. rewrite <- B at 1. rewrite merge_assoc, A. exact B. Qed.
Lemma le_antisym x y : le x y -> le y x -> x = y.
Proof. unfold le. intros A B. rewrite <- B, merge_comm. exact A. Qed.
Lemma le_merge_l x y : le x (merge x y). Proof. unfold le. rewrite merge_assoc, merge_idem. reflexivity. Qed.
Lemma le_merge_r x y : le y (merge x y). Proof. rewrite merge_comm. apply le_merge_l. Qed.
Lemma merge_lub x y w : le x w -> le y w -> le (merge x y) w.
Proof. unfold le. intros A B. rewrite <- merge_assoc, B. exact A. Qed.
Lemma ole_refl a : ole a a. Proof. destruct a; cbn; [apply le_refl|exact I]. Qed.
Lemma ole_trans a b c : ole a b -> ole b c -> ole a c.
Proof. destruct a as [x|], b as [y|], c as [z|]; cbn; try tauto. apply le_trans. Qed.

(* rank of a store entry w.r.t. the reference stores S0: how many reference entries it has not absorbed yet *)
Definition rank (S0 : list store) (s : store) (k : N) : nat :=
  length (filter (fun s0 => if ole_dec (slookup k s0) (slookup k s) then false else true) S0).
Lemma rank_mono S0 s s' k : ole (slookup k s) (slookup k s') -> (rank S0 s' k <= rank S0 s k)%nat.
Proof.
  intros Hm. unfold rank. induction S0 as [|s0 S0 IH]; cbn [filter length]; [lia|].
  destruct (ole_dec (slookup k s0) (slookup k s')) as [A|A], (ole_dec (slookup k s0) (slookup k s)) as [B|B]; cbn [length]; try lia.
  exfalso. apply A. eapply ole_trans; eauto.
Qed.
Lemma rank_strict S0 s s' k s0 : In s0 S0 -> ole (slookup k s) (slookup k s') ->
  ~ ole (slookup k s0) (slookup k s) -> ole (slookup k s0) (slookup k s') -> (rank S0 s' k < rank S0 s k)%nat.
Proof.
  intros Hin Hm Ha Hb. unfold rank. induction S0 as [|t S0 IH]; [destruct Hin|]. cbn [filter].
  pose proof (rank_mono S0 s s' k Hm) as Hle. unfold rank in Hle.
  destruct Hin as [->|Hin].
  - destruct (ole_dec (slookup k s0) (slookup k s')); [|contradiction]. destruct (ole_dec (slookup k s0) (slookup k s)); [contradiction|]. cbn [length]. lia.
  - specialize (IH Hin).
    destruct (ole_dec (slookup k t) (slookup k s')) as [A|A], (ole_dec (slookup k t) (slookup k s)) as [B|B]; cbn [length]; try lia.
    exfalso. apply A. eapply ole_trans; eauto.
Qed.

Definition srank (U : list N) (S0 : list store) (s : store) : nat := fold_right (fun k acc => (rank S0 s k + acc)%nat) 0%nat U.
Lemma srank_cons k U S0 s : srank (k :: U) S0 s = (rank S0 s k + srank U S0 s)%nat. Proof. reflexivity. Qed.
Lemma srank_mono U S0 s s' : (forall k, In k U -> (rank S0 s' k <= rank S0 s k)%nat) -> (srank U S0 s' <= srank U S0 s)%nat.
Proof. induction U as [|k U IH]; intros Hk; [apply le_n|]. rewrite !srank_cons. specialize (IH (fun z Hz => Hk z (or_intror Hz))). specialize (Hk k (or_introl eq_refl)). lia. Qed.
Lemma srank_strict U S0 s s' k0 : In k0 U -> (forall k, In k U -> (rank S0 s' k <= rank S0 s k)%nat) ->
  (rank S0 s' k0 < rank S0 s k0)%nat -> (srank U S0 s' < srank U S0 s)%nat.
Proof.
  induction U as [|k U IH]; intros Hin Hk Hs; [destruct Hin|]. rewrite !srank_cons.
  pose proof (srank_mono U S0 s s' (fun z Hz => Hk z (or_intror Hz))). destruct Hin as [->|Hin]; [lia|].
  specialize (IH Hin (fun z Hz => Hk z (or_intror Hz)) Hs). specialize (Hk k (or_introl eq_refl)). lia.
Qed.

(* every entry of a current store is the least upper bound of the reference entries below it
   ("values are joins of atoms"); named [atoms] as in the linear development *)
Definition atoms (S0 : list store) (s : store) : Prop :=
  forall k x, slookup k s = Some x ->
    (exists s0 z, In s0 S0 /\ slookup k s0 = Some z /\ le z x) /\
    (forall y, (forall s0 z, In s0 S0 -> slookup k s0 = Some z -> le z x -> le z y) -> le x y).

(* one pull: entries only move up (to the join with the sender's entry) *)
Lemma pull_step a b a' : store_ok a -> store_ok b -> pull a b = Ok a' -> forall k,
  slookup k a' = slookup k a \/ (exists x, slookup k b = Some x /\ slookup k a' = Some (merged a k x)).
Proof. intros Sa Sb E k. exact (pull_lookup digest deqb Val merge ser a b a' Sa Sb E k). Qed.
Lemma pull_up a b a' : store_ok a -> store_ok b -> pull a b = Ok a' -> forall k, ole (slookup k a) (slookup k a').
Proof.
  intros Sa Sb E k. destruct (pull_step a b a' Sa Sb E k) as [Eq|(x & Eb & Ea)]; [rewrite Eq; apply ole_refl|].
  rewrite Ea. unfold Sync.merged. destruct (slookup k a) as [o|]; cbn; [apply le_merge_l|exact I].
Qed.

(* a reference entry below x but not below o, found by search (decidable order, finite S0) *)
Lemma find_atom (S0 : list store) k x (o : option Val) :
  (forall s0 z, In s0 S0 -> slookup k s0 = Some z -> le z x -> ole (Some z) o) \/
  (exists s0 z, In s0 S0 /\ slookup k s0 = Some z /\ le z x /\ ~ ole (Some z) o).
Proof.
  induction S0 as [|t S0 IH]; [left; intros ? ? []|].
  destruct IH as [IH|(s0 & z & Hin & E & L & Nl)]; [|right; exists s0, z; split; [now right|auto]].
  destruct (slookup k t) as [z|] eqn:Et.
  - destruct (le_dec z x) as [L|NL].
    + destruct (ole_dec (Some z) o) as [O|NO].
      * left. intros s0 z' [<-|Hin] E' L'; [rewrite Et in E'; injection E' as <-; exact O|eapply IH; eauto].
      * right. exists t, z. split; [now left|auto].
    + left. intros s0 z' [<-|Hin] E' L'; [rewrite Et in E'; injection E' as <-; contradiction|eapply IH; eauto].
  - left. intros s0 z' [<-|Hin] E' L'; [congruence|eapply IH; eauto].
Qed.

Lemma pull_rank U S0 a b a' : store_ok a -> store_ok b -> pull a b = Ok a' -> atoms S0 b ->
  (srank U S0 a' <= srank U S0 a)%nat /\
  ((exists k, In k U /\ slookup k a' <> slookup k a) -> (srank U S0 a' < srank U S0 a)%nat) /\
  (atoms S0 a -> atoms S0 a').
Proof.
  intros Sa Sb E Ab.
  pose proof (pull_up a b a' Sa Sb E) as Hup.
  assert (Hle: forall k, (rank S0 a' k <= rank S0 a k)%nat) by (intros k; apply rank_mono; apply Hup).
  split; [apply srank_mono; intros k _; apply Hle|]. split.
  - intros (k & Hin & Hne). apply (srank_strict U S0 a a' k Hin (fun z _ => Hle z)).
    destruct (pull_step a b a' Sa Sb E k) as [Eq|(x & Eb & Ea)]; [congruence|].
    destruct (Ab k x Eb) as ((s1 & z1 & Hs1 & Es1 & L1) & Hlub).
    destruct (slookup k a) as [o|] eqn:Eo.
    + assert (EM: merged a k x = merge o x) by (unfold Sync.merged; rewrite Eo; reflexivity).
      destruct (find_atom S0 k x (Some o)) as [All|(s0 & z & Hs0 & Es0 & Lz & Nz)].
      * (* every atom below x is below o: then x is, and the merge changes nothing *)
        exfalso. apply Hne. rewrite Ea, EM. f_equal.
        assert (L: le x o). { apply Hlub. intros s0 z Hs0 Es0 Lz. exact (All s0 z Hs0 Es0 Lz). }
        unfold le in L. rewrite merge_comm. exact L.
      * apply (rank_strict S0 a a' k s0 Hs0); [apply Hup|rewrite Es0, Eo; exact Nz|].
        rewrite Es0, Ea, EM. cbn. eapply le_trans; [exact Lz|apply le_merge_r].
    + assert (EM: merged a k x = x) by (unfold Sync.merged; rewrite Eo; reflexivity).
      apply (rank_strict S0 a a' k s1 Hs1); [apply Hup|rewrite Es1, Eo; cbn; tauto|].
      rewrite Es1, Ea, EM. exact L1.
  - intros Aa k x Ex. destruct (pull_step a b a' Sa Sb E k) as [Eq|(x0 & Eb & Ea)].
    + rewrite Eq in Ex. exact (Aa k x Ex).
    + rewrite Ea in Ex. injection Ex as <-. destruct (Ab k x0 Eb) as ((s1 & z1 & Hs1 & Es1 & L1) & Hlub0).
      unfold Sync.merged in *. destruct (slookup k a) as [o|] eqn:Eo.
      * destruct (Aa k o Eo) as (_ & Hlubo). split.
        -- exists s1, z1. split; [exact Hs1|]. split; [exact Es1|]. eapply le_trans; [exact L1|apply le_merge_r].
        -- intros y Hy. apply merge_lub.
           ++ apply Hlubo. intros s0 z Hs0 Es0 Lz. apply (Hy s0 z Hs0 Es0). eapply le_trans; [exact Lz|apply le_merge_l].
           ++ apply Hlub0. intros s0 z Hs0 Es0 Lz. apply (Hy s0 z Hs0 Es0). eapply le_trans; [exact Lz|apply le_merge_r].
      * split; [exists s1, z1; auto|exact Hlub0].
Qed.

(* ---------------- n replicas, pulls only (writes have stopped) ---------------- *)
Variable U : list N.               (* key universe *)
Variable S0 : list store.          (* the stores at the moment writes stopped: the reference atoms *)

Definition upd {A} (l : list A) (i : nat) (x : A) : list A := firstn i l ++ x :: skipn (S i) l.
Definition step (S : list store) (ij : nat * nat) : list store :=
  let '(i, j) := ij in
  if Nat.eqb i j then S else
  match nth_error S i, nth_error S j with
  | Some a, Some b => match pull a b with Ok a' => upd S i a' | _ => S end
  | _, _ => S
  end.
Definition runp (S : list store) (es : list (nat * nat)) : list store := fold_left step es S.
Definition M (S : list store) : nat := list_sum (map (srank U S0) S).
Definition okS (S : list store) : Prop :=
  Forall store_ok S /\ Forall (atoms S0) S /\ Forall (fun s => forall k, In k (skeys s) -> In k U) S.

Lemma nth_upd {A} (l : list A) i x y : nth_error l i = Some y -> nth_error (upd l i x) i = Some x /\ length (upd l i x) = length l.
Proof.
  intros E. assert (Hi: (i < length l)%nat) by (apply nth_error_Some; congruence). unfold upd. split.
  - rewrite nth_error_app2; rewrite firstn_length_le by lia; [rewrite Nat.sub_diag; reflexivity|lia].
  - rewrite app_length, firstn_length_le by lia. cbn [length]. rewrite skipn_length. lia.
Qed.
Lemma Forall_firstn' {A} (P : A -> Prop) l n : Forall P l -> Forall P (firstn n l).
Proof. revert n. induction l as [|x l IH]; intros [|n] F; cbn; auto. inversion F; subst. constructor; auto. Qed.
Lemma Forall_skipn' {A} (P : A -> Prop) l n : Forall P l -> Forall P (skipn n l).
Proof. revert n. induction l as [|x l IH]; intros [|n] F; cbn; auto. inversion F; subst. auto. Qed.
Lemma Forall_upd {A} (P : A -> Prop) l i x : Forall P l -> P x -> Forall P (upd l i x).
Proof. intros F Px. unfold upd. apply Forall_app. split; [apply Forall_firstn'; exact F|constructor; [exact Px|apply Forall_skipn'; exact F]]. Qed.
Lemma list_sum_upd (f : store -> nat) l i x y : nth_error l i = Some y ->
  (list_sum (map f (upd l i x)) + f y = list_sum (map f l) + f x)%nat.
Proof.
  intros E. unfold upd. rewrite <- (firstn_skipn i l) at 3. rewrite !map_app, !list_sum_app.
  assert (Es: skipn i l = y :: skipn (S i) l).
  { clear -E. revert i E. induction l as [|z l IH]; intros [|i] E; cbn in *; try discriminate; [congruence|auto]. }
  rewrite Es. cbn. lia.
Qed.

Lemma step_ok S e : okS S -> okS (step S e) /\ (M (step S e) <= M S)%nat /\ (step S e <> S -> (M (step S e) < M S)%nat).
Proof.
  intros (O1 & O2 & O3). destruct e as [i j]. cbn [step].
  destruct (Nat.eqb i j); [split; [exact (conj O1 (conj O2 O3))|split; [lia|congruence]]|].
  destruct (nth_error S i) as [a|] eqn:Ei; [|split; [exact (conj O1 (conj O2 O3))|split; [lia|congruence]]].
  destruct (nth_error S j) as [b|] eqn:Ej; [|split; [exact (conj O1 (conj O2 O3))|split; [lia|congruence]]].
  destruct (pull a b) as [a'| |] eqn:Ep; [|split; [exact (conj O1 (conj O2 O3))|split; [lia|congruence]]|split; [exact (conj O1 (conj O2 O3))|split; [lia|congruence]]].
  assert (Ia: In a S) by (eapply nth_error_In; eauto). assert (Ib: In b S) by (eapply nth_error_In; eauto).
  rewrite Forall_forall in O1, O2, O3.
  pose proof (O1 _ Ia) as Sa. pose proof (O1 _ Ib) as Sb.
  pose proof (pull_ok_store digest deqb Val merge ser a b a' Sa Sb Ep) as Sa'.
  destruct (pull_rank U S0 a b a' Sa Sb Ep (O2 _ Ib)) as (R1 & R2 & R3).
  split; [|split].
  - split; [|split]; apply Forall_upd; try (rewrite Forall_forall; assumption).
    + exact Sa'.
    + apply R3. apply O2. exact Ia.
    + intros k Hk. destruct (pull_keys digest deqb Val merge ser a b a' Sa Sb Ep k Hk); [apply (O3 _ Ia)|apply (O3 _ Ib)]; assumption.
  - unfold M. pose proof (list_sum_upd (srank U S0) S i a' a Ei). lia.
  - intros Hne. unfold M. pose proof (list_sum_upd (srank U S0) S i a' a Ei).
    assert (Hc: a' <> a).
    { intros ->. apply Hne. unfold upd. rewrite <- (firstn_skipn i S) at 3. f_equal.
      clear -Ei. revert i Ei. induction S as [|z l IH]; intros [|i] E; cbn in *; try discriminate; [congruence|auto]. }
    destruct (changed_key Val val_dec a a' Sa Sa' Hc) as (k & Hk & Hin).
    assert (In k U). { destruct Hin as [Hin|Hin]; [apply (O3 _ Ia); exact Hin|]. destruct (pull_keys digest deqb Val merge ser a b a' Sa Sb Ep k Hin); [apply (O3 _ Ia)|apply (O3 _ Ib)]; assumption. }
    assert ((srank U S0 a' < srank U S0 a)%nat) by (apply R2; eauto). lia.
Qed.

Lemma runp_ok : forall es S, okS S -> okS (runp S es) /\ (M (runp S es) <= M S)%nat.
Proof.
  induction es as [|e es IH]; intros S OS; cbn [runp fold_left]; [split; [exact OS|lia]|].
  destruct (step_ok S e OS) as (O' & Mle & _). destruct (IH _ O') as (O'' & Mle'). fold (runp (step S e) es). split; [exact O''|lia].
Qed.

Lemma store_list_dec : forall a b : list store, {a = b} + {a <> b}.
Proof. apply list_eq_dec. apply (store_dec Val val_dec). Qed.

(* a sequence of pulls either lowers the measure or leaves the state untouched at every step *)
Lemma runp_cases : forall es S, okS S -> (M (runp S es) < M S)%nat \/ (forall e, In e es -> step S e = S).
Proof.
  induction es as [|e es IH]; intros S OS; [right; intros e []|]. cbn [runp fold_left]. fold (runp (step S e) es).
  destruct (step_ok S e OS) as (O' & Mle & Mlt). destruct (store_list_dec (step S e) S) as [Eq|Ne].
  - rewrite Eq. destruct (IH S OS) as [L|R]; [left; exact L|right]. intros e' [<-|Hin]; auto.
  - left. destruct (runp_ok es _ O') as (_ & Mle'). specialize (Mlt Ne). lia.
Qed.

Definition all_equal (S : list store) : Prop := forall a b, In a S -> In b S -> a = b.
Definition all_pairs (n : nat) (es : list (nat * nat)) : Prop := forall i j, (i < n)%nat -> (j < n)%nat -> i <> j -> In (i, j) es.

Lemma upd_neq (S : list store) i a a' : nth_error S i = Some a -> a' <> a -> upd S i a' <> S.
Proof. intros E Hne Eq. destruct (nth_upd S i a' a E) as (E' & _). rewrite Eq in E'. congruence. Qed.

(* one full block of pulls makes progress unless the replicas already agree *)
Lemma block_progress S es : okS S -> all_pairs (length S) es -> ~ all_equal S -> (M (runp S es) < M S)%nat.
Proof.
  intros OS AP Hne. destruct (runp_cases es S OS) as [L|R]; [exact L|]. exfalso. apply Hne.
  intros a b Ha Hb. destruct (store_dec Val val_dec a b) as [E|Nab]; [exact E|]. exfalso.
  apply In_nth_error in Ha as (i & Ei). apply In_nth_error in Hb as (j & Ej).
  assert (Hi: (i < length S)%nat) by (apply nth_error_Some; congruence). assert (Hj: (j < length S)%nat) by (apply nth_error_Some; congruence).
  assert (Hij: i <> j) by (intros ->; congruence).
  destruct OS as (O1 & _). rewrite Forall_forall in O1.
  assert (Sa: store_ok a) by (apply O1; eapply nth_error_In; eauto). assert (Sb: store_ok b) by (apply O1; eapply nth_error_In; eauto).
  destruct (C05_progress digest V H deqb deqb_spec Hinj Val val_dec vh vh_inj merge merge_anti ser ser_RL a b Sa Sb Nab) as [(a' & Ea & Na)|(b' & Eb & Nb)].
  - pose proof (R (i, j) (AP i j Hi Hj Hij)) as Fx. cbn [step] in Fx. replace (Nat.eqb i j) with false in Fx by (symmetry; apply Nat.eqb_neq; exact Hij).
    rewrite Ei, Ej, Ea in Fx. exact (upd_neq S i a a' Ei Na Fx).
  - pose proof (R (j, i) (AP j i Hj Hi (fun E => Hij (eq_sym E)))) as Fx. cbn [step] in Fx. replace (Nat.eqb j i) with false in Fx by (symmetry; apply Nat.eqb_neq; congruence).
    rewrite Ej, Ei, Eb in Fx. exact (upd_neq S j b b' Ej Nb Fx).
Qed.

Lemma runp_length : forall es S, length (runp S es) = length S.
Proof.
  induction es as [|[i j] es IH]; intros S; [reflexivity|]. cbn [runp fold_left]. fold (runp (step S (i, j)) es). rewrite IH. cbn [step].
  destruct (Nat.eqb i j); [reflexivity|]. destruct (nth_error S i) as [a|] eqn:Ei; [|reflexivity]. destruct (nth_error S j) as [b|]; [|reflexivity].
  destruct (pull a b) as [a'| |]; try reflexivity. apply (nth_upd S i a' a Ei).
Qed.

Lemma all_equal_dec S : {all_equal S} + {~ all_equal S}.
Proof.
  destruct S as [|a S]; [left; intros ? ? []|].
  destruct (Forall_dec (fun b => b = a) (fun b => store_dec Val val_dec b a) S) as [F|NF].
  - left. rewrite Forall_forall in F. intros x y Hx Hy. assert (Ex: x = a) by (destruct Hx as [<-|Hx]; [reflexivity|auto]). assert (Ey: y = a) by (destruct Hy as [<-|Hy]; [reflexivity|auto]). congruence.
  - right. intros AE. apply NF. rewrite Forall_forall. intros b Hb. apply AE; [now right|now left].
Qed.

(* a list of all ordered pairs exists, so a measure of 0 already means agreement *)
Definition full_block (n : nat) : list (nat * nat) := list_prod (seq 0 n) (seq 0 n).
Lemma full_block_all n : all_pairs n (full_block n).
Proof. intros i j Hi Hj _. unfold full_block. apply in_prod; apply in_seq; lia. Qed.
Lemma M0_equal S : okS S -> M S = 0%nat -> all_equal S.
Proof.
  intros OS HM. destruct (all_equal_dec S) as [AE|NAE]; [exact AE|]. exfalso.
  pose proof (block_progress S (full_block (length S)) OS (full_block_all _) NAE). lia.
Qed.

(* agreeing replicas stay put *)
Lemma pull_same a : store_ok a -> pull a a = Ok a.
Proof.
  intros Sa. unfold Sync.pull. rewrite (diff_same digest V H deqb deqb_spec _ _ (ser_RL a Sa)). cbn [bind]. f_equal.
  unfold Sync.fetch. assert (E: filter (fun kx : N * Val => in_ranges [] (fst kx)) a = []).
  { clear. induction a as [|x a IH]; cbn; [reflexivity|exact IH]. }
  rewrite E. reflexivity.
Qed.
Lemma upd_same {A} (l : list A) i x : nth_error l i = Some x -> upd l i x = l.
Proof. intros E. unfold upd. rewrite <- (firstn_skipn i l) at 3. f_equal. clear -E. revert i E. induction l as [|z l IH]; intros [|i] E; cbn in *; try discriminate; [congruence|auto]. Qed.
Lemma step_equal S e : okS S -> all_equal S -> step S e = S.
Proof.
  intros (O1 & _) AE. destruct e as [i j]. cbn [step]. destruct (Nat.eqb i j); [reflexivity|].
  destruct (nth_error S i) as [a|] eqn:Ei; [|reflexivity]. destruct (nth_error S j) as [b|] eqn:Ej; [|reflexivity].
  assert (b = a) as -> by (apply AE; eapply nth_error_In; eauto).
  rewrite Forall_forall in O1. rewrite pull_same by (apply O1; eapply nth_error_In; eauto). apply upd_same. exact Ei.
Qed.
Lemma runp_equal : forall es S, okS S -> all_equal S -> runp S es = S.
Proof. induction es as [|e es IH]; intros S OS AE; [reflexivity|]. cbn [runp fold_left]. rewrite (step_equal S e OS AE). apply IH; assumption. Qed.

(* C06 (abstract part): enough full blocks of pulls make all replicas agree *)
Theorem C06_converges : forall blocks S, okS S -> Forall (all_pairs (length S)) blocks -> (M S <= length blocks)%nat ->
  all_equal (runp S (concat blocks)).
Proof.
  induction blocks as [|es blocks IH]; intros S OS AP HM.
  - cbn in *. apply M0_equal; [exact OS|lia].
  - inversion AP as [|? ? AP1 AP2]; subst. cbn [concat]. unfold runp. rewrite fold_left_app. fold (runp S es). fold (runp (runp S es) (concat blocks)).
    destruct (runp_ok es S OS) as (O' & Mle).
    destruct (all_equal_dec S) as [AE|NAE].
    + rewrite (runp_equal es S OS AE). rewrite (runp_equal _ S OS AE). exact AE.
    + pose proof (block_progress S es OS AP1 NAE) as Lt.
      apply IH; [exact O'|rewrite runp_length; exact AP2|cbn [length] in HM; lia].
Qed.
End Multi.
