From MST Require Import Base TreeM Diff Intervals.

Section W.
Variable digest : Type.
Variable deqb : digest -> digest -> bool.
Notation prange := (prange digest).
Notation ps := (ps digest). Notation pe := (pe digest). Notation ph := (ph digest).
Notation st := (st digest).
Notation rdiff := (rdiff digest deqb).

Definition wfp (r : prange) : Prop := ps r <= pe r.
Variable X : N -> Prop.                       (* admissible bounds: bounds of the two input lists *)
Variable PEp PEl : prange -> Prop.            (* a fact about every entry of the peer / of the local list *)
Variable Q : drange -> Prop.                  (* what holds of every interval recorded as consistent *)
Hypothesis HQ : forall l p, PEl l -> PEp p -> deqb (ph l) (ph p) = true -> Q (DR (ps p) (pe p)).
Definition xp (PE : prange -> Prop) (r : prange) : Prop := X (ps r) /\ X (pe r) /\ PE r.
Definition xd (r : drange) : Prop := X (ds r) /\ X (de r).
Definition okl (PE : prange -> Prop) (l : list prange) : Prop := Forall wfp l /\ Forall (xp PE) l.
Definition okb (b : builder) : Prop :=
  Forall wf (inc b) /\ Forall wf (con b) /\ Forall xd (inc b) /\ Forall xd (con b) /\ Forall Q (con b).
Definition oks (s : st) : Prop := okl PEp (peer _ s) /\ okl PEl (loc _ s) /\ okb (bld _ s).

Lemma okl_nil PE : okl PE [].
Proof. split; constructor. Qed.
Lemma okl_tail PE a l : okl PE (a :: l) -> wfp a /\ xp PE a /\ okl PE l.
Proof. intros (A & B). inversion A; inversion B; subst. split; [auto|split; [auto|split; auto]]. Qed.

Lemma b_inc_ok b s e : okb b -> s <= e -> X s -> X e ->
  exists b', b_inc b s e = Ok b' /\ okb b' /\ con b' = con b /\ inc b' = inc b ++ [DR s e].
Proof.
  intros (A & B & C & D & F) Hse Hs He. unfold b_inc, assert. apply N.leb_le in Hse. rewrite Hse. cbn [bind].
  eexists. split; [reflexivity|]. split; [|split; reflexivity]. apply N.leb_le in Hse.
  unfold okb. cbn [inc con]. split; [rewrite Forall_app; split; [exact A|repeat constructor; exact Hse]|].
  split; [exact B|]. split; [rewrite Forall_app; split; [exact C|repeat constructor; auto]|]. split; [exact D|exact F].
Qed.
Lemma b_con_ok b s e : okb b -> s <= e -> X s -> X e -> Q (DR s e) ->
  exists b', b_con b s e = Ok b' /\ okb b' /\ inc b' = inc b /\ con b' = con b ++ [DR s e].
Proof.
  intros (A & B & C & D & F) Hse Hs He Hq. unfold b_con, assert. apply N.leb_le in Hse. rewrite Hse. cbn [bind].
  eexists. split; [reflexivity|]. split; [|split; reflexivity]. apply N.leb_le in Hse.
  unfold okb. cbn [inc con]. split; [exact A|]. split; [rewrite Forall_app; split; [exact B|repeat constructor; exact Hse]|].
  split; [exact C|]. split; [rewrite Forall_app; split; [exact D|repeat constructor; auto]|].
  rewrite Forall_app; split; [exact F|repeat constructor; exact Hq].
Qed.

Lemma skip_while_ok PE f l : okl PE l -> okl PE (skip_while _ f l) /\ (length (skip_while _ f l) <= length l)%nat.
Proof. induction l as [|a r IH]; simpl; intros H; [split; auto|]. destruct (f a).
  - apply okl_tail in H as (_ & _ & H). destruct (IH H). split; auto.
  - split; auto. Qed.
Lemma shrink_ok PE p : forall cur l, okl PE cur -> wfp l -> xp PE l ->
  let '(l', cur') := shrink _ p l cur in okl PE cur' /\ wfp l' /\ xp PE l' /\ (length cur' <= length cur)%nat.
Proof. induction cur as [|v r IH]; simpl; intros l H Hl Hx; [split; [apply okl_nil|split; [auto|split; [auto|constructor]]]|].
  destruct (superset _ v p).
  - apply okl_tail in H as (A & B & H). specialize (IH v H A B). destruct (shrink _ p v r). destruct IH as (I1 & I2 & I3 & I4). split; [exact I1|split; [exact I2|split; [exact I3|lia]]].
  - split; [exact H|split; [exact Hl|split; [exact Hx|simpl; lia]]]. Qed.
Lemma drain_ok PE root : forall cur b, okl PE cur -> okb b ->
  exists cur' b', drain _ root cur b = Ok (cur', b') /\ okl PE cur' /\ okb b' /\ (length cur' <= length cur)%nat /\ con b' = con b /\ incl (inc b) (inc b').
Proof. induction cur as [|p r IH]; simpl; intros b H Hb.
  - exists [], b. split; [reflexivity|]. split; [apply okl_nil|]. split; [auto|]. split; [constructor|]. split; [reflexivity|apply incl_refl].
  - destruct (superset _ root p).
    + apply okl_tail in H as (A & (B1 & B2 & B3) & H).
      destruct (b_inc_ok b (ps p) (pe p) Hb A B1 B2) as (b1 & E1 & O1 & C1 & I1). rewrite E1. cbn [bind].
      destruct (IH b1 H O1) as (cur' & b' & E & O & Ob & L & C & I2). exists cur', b'. rewrite E. split; [reflexivity|]. split; [exact O|]. split; [exact Ob|]. split; [simpl; lia|]. split; [congruence|].
      intros x Hx. apply I2. rewrite I1. apply in_app_iff. auto.
    + exists (p :: r), b. split; [reflexivity|]. split; [exact H|]. split; [exact Hb|]. split; [apply le_n|]. split; [reflexivity|apply incl_refl]. Qed.

(* what the first iteration is guaranteed to have recorded *)
Definition TOP (root : prange) (s : st) (s' : st) : Prop :=
  match peer _ s, loc _ s with
  | p :: _, l :: lr =>
    superset _ root p = true -> superset _ p l = true ->
    deqb (ph (fst (shrink _ p l lr))) (ph p) = false -> In (DR (ps p) (pe p)) (inc (bld _ s'))
  | _, _ => True
  end.

Theorem rdiff_ok : forall fuel root last s,
  (length (peer _ s) < fuel)%nat -> wfp root -> xp PEp root ->
  match last with Some v => xp PEp v | None => True end -> oks s ->
  exists s', rdiff fuel root last s = Ok s' /\ oks s' /\
    (length (peer _ s') <= length (peer _ s))%nat /\ incl (inc (bld _ s)) (inc (bld _ s')) /\ TOP root s s'.
Proof.
  induction fuel as [|f IH]; intros root last s Hf Wr Xr Hlast (Op & Ol & Ob); [lia|].
  cbn [Diff.rdiff]. unfold TOP.
  destruct (peer _ s) as [|p peer1] eqn:Ep; cbn [advance_within].
  { exists s. split; [reflexivity|]. split; [unfold oks; rewrite Ep; exact (conj Op (conj Ol Ob))|]. split; [rewrite ?Ep; apply le_n|]. split; [apply incl_refl|rewrite ?Ep; exact I]. }
  destruct (superset _ root p) eqn:Hsup.
  2:{ exists s. split; [reflexivity|]. split; [unfold oks; rewrite Ep; exact (conj Op (conj Ol Ob))|]. split; [rewrite ?Ep; apply le_n|]. split; [apply incl_refl|].
      rewrite ?Ep. destruct (loc _ s); [exact I|]. intros C. discriminate C. }
  apply okl_tail in Op as (Wp & (Xp1 & Xp2 & Xp3) & Op1). cbn [length] in Hf.
  assert (Hlen: (length peer1 <= length (p :: peer1))%nat) by (cbn [length]; lia).
  assert (Hstart: X (match last with Some v => pe v | None => ps root end)).
  { destruct last as [v|]; [destruct Hlast as (_ & Hv & _); exact Hv|destruct Xr as (Hv & _); exact Hv]. }
  assert (FIN: forall b', okb b' -> incl (inc (bld _ s)) (inc b') -> forall lc, okl PEl lc ->
            exists s', Ok (ST _ peer1 lc b') = Ok s' /\ oks s' /\ (length (peer _ s') <= length (p :: peer1))%nat /\ incl (inc (bld _ s)) (inc (bld _ s'))).
  { intros b' Ob' Ib' lc Olc. eexists. split; [reflexivity|]. split; [exact (conj Op1 (conj Olc Ob'))|]. split; [exact Hlen|exact Ib']. }
  assert (INC: forall st en, st <= en -> X st -> X en -> forall lc, okl PEl lc ->
            exists s', (do b <- b_inc (bld _ s) st en; Ok (ST _ peer1 lc b)) = Ok s' /\ oks s' /\ (length (peer _ s') <= length (p :: peer1))%nat /\ incl (inc (bld _ s)) (inc (bld _ s'))).
  { intros st en Hse Hst Hen lc Olc. destruct (b_inc_ok _ _ _ Ob Hse Hst Hen) as (b' & Eb & O & _ & Ei). rewrite Eb. cbn [bind].
    apply FIN; auto. rewrite Ei. intros x Hx. apply in_app_iff. auto. }
  destruct (loc _ s) as [|l loc1] eqn:El; cbn [advance_within].
  { (* local exhausted *)
    destruct (_ <=? pe p) eqn:E.
    - apply N.leb_le in E. destruct (INC _ _ E Hstart Xp2 [] (okl_nil _)) as (s' & A & B & C & D). exists s'. auto.
    - destruct (FIN _ Ob (incl_refl _) [] (okl_nil _)) as (s' & A & B & C & D). exists s'. auto. }
  destruct (superset _ p l) eqn:Hsl.
  2:{ (* next local page is not inside p *)
    pose proof Ol as Ol'. apply okl_tail in Ol' as (Wl0 & (Xl0 & _) & _).
    assert (T: superset digest root p = true -> false = true -> deqb (ph (fst (shrink digest p l loc1))) (ph p) = false -> In (DR (ps p) (pe p)) (inc (bld _ s)) -> True) by auto.
    destruct (superset _ l p).
    - destruct (FIN _ Ob (incl_refl _) _ Ol) as (s' & A & B & C & D). exists s'. repeat split; auto; try apply B. intros _ C0. discriminate C0.
    - assert (Xm: X (N.min (ps l) (pe p))). { destruct (N.min_spec (ps l) (pe p)) as [(_ & ->)|(_ & ->)]; auto. }
      destruct (_ <=? N.min (ps l) (pe p)) eqn:E.
      + apply N.leb_le in E. destruct (INC _ _ E Hstart Xm _ Ol) as (s' & A & B & C & D). exists s'. repeat split; auto; try apply B. intros _ C0. discriminate C0.
      + destruct (FIN _ Ob (incl_refl _) _ Ol) as (s' & A & B & C & D). exists s'. repeat split; auto; try apply B. intros _ C0. discriminate C0. }
  (* local page found *)
  apply okl_tail in Ol as (Wl & Xl & Ol1).
  unfold assert. rewrite ?Hsup. cbn [bind].
  pose proof (shrink_ok PEl p loc1 l Ol1 Wl Xl) as HS. destruct (shrink _ p l loc1) as [l' loc2] eqn:Esh. destruct HS as (Ol2 & Wl' & Xl' & Ll2).
  assert (exists s2, (if deqb (ph l') (ph p)
            then do b <- b_con (bld _ s) (ps p) (pe p); Ok (ST _ (skip_while _ (superset _ p) peer1) loc2 b)
            else do b <- b_inc (bld _ s) (ps p) (pe p); Ok (ST _ peer1 loc2 b)) = Ok s2 /\ oks s2 /\ (length (peer _ s2) <= length peer1)%nat /\ incl (inc (bld _ s)) (inc (bld _ s2)) /\
            (deqb (ph l') (ph p) = false -> In (DR (ps p) (pe p)) (inc (bld _ s2)))) as (s2 & E2 & O2 & L2 & J2 & K2).
  { destruct (deqb (ph l') (ph p)) eqn:Ed.
    - destruct Xl' as (_ & _ & PEl').
      destruct (b_con_ok _ _ _ Ob Wp Xp1 Xp2 (HQ l' p PEl' Xp3 Ed)) as (b' & E & O & Ei & _). rewrite E. cbn [bind].
      destruct (skip_while_ok PEp (superset _ p) peer1 Op1) as (Sk1 & Sk2). eexists. split; [reflexivity|]. split; [exact (conj Sk1 (conj Ol2 O))|]. split; [exact Sk2|].
      cbn [bld]. rewrite Ei. split; [apply incl_refl|discriminate].
    - destruct (b_inc_ok _ _ _ Ob Wp Xp1 Xp2) as (b' & E & O & _ & Ei). rewrite E. cbn [bind].
      eexists. split; [reflexivity|]. split; [exact (conj Op1 (conj Ol2 O))|]. split; [apply le_n|].
      cbn [bld]. rewrite Ei. split; [intros x Hx; apply in_app_iff; auto|]. intros _. apply in_app_iff. right. now left. }
  rewrite E2. cbn [bind].
  assert (Hlen2: (length (peer _ s2) < f)%nat) by lia.
  destruct (IH p None s2 Hlen2 Wp (conj Xp1 (conj Xp2 Xp3)) I O2) as (s3 & E3 & O3 & L3 & J3 & _).
  rewrite E3. cbn [bind]. destruct O3 as (Op3 & Ol3 & Ob3).
  destruct (drain_ok PEp p (peer _ s3) (bld _ s3) Op3 Ob3) as (cur' & b' & E4 & O4 & Ob4 & L4 & _ & J4). rewrite E4. cbn [bind fst snd].
  assert (Hlen3: (length (peer _ (ST _ cur' (loc _ s3) b')) < f)%nat) by (cbn [peer]; lia).
  destruct (IH root (Some p) (ST _ cur' (loc _ s3) b') Hlen3 Wr Xr (conj Xp1 (conj Xp2 Xp3)) (conj O4 (conj Ol3 Ob4))) as (s5 & E5 & O5 & L5 & J5 & _).
  rewrite ?Hsup. cbn [bind]. exists s5. split; [exact E5|]. split; [exact O5|]. cbn [peer bld] in L5, J5. split; [cbn [length]; lia|].
  split; [intros x Hx; apply J5, J4, J3, J2, Hx|].
  intros _ _ Hd. cbn [fst] in Hd. apply J5, J4, J3. apply K2. exact Hd.
Qed.
End W.
