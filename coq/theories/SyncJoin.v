(* C05, last clause: under a (linear) join merge the content two replicas converge to by two-way sync rounds
   is exactly the pointwise join of the two initial contents. *)
From Coq Require Import PeanoNat Arith.
From MST Require Import Base TreeM Diff Spec TreeInv Intervals DiffTrees Sync SyncTop SyncRounds ListUpd SyncModel SyncLimit.

Section Join.
Variable digest V : Type.
Variable H : list (tok digest V) -> digest.
Variable lvl_of : N -> N.
Hypothesis lvl_of_u8 : forall k, lvl_of k < 255.
Variable deqb : digest -> digest -> bool.
Hypothesis deqb_spec : forall a b, deqb a b = true <-> a = b.
Hypothesis Hinj : forall a b, H a = H b -> a = b.
Variable Val : Type.
Variable val_dec : forall a b : Val, {a = b} + {a <> b}.
Variable vh : Val -> V.
Hypothesis vh_inj : forall a b, vh a = vh b -> a = b.
Variable merge : Val -> Val -> Val.
Hypothesis merge_sel : forall o x, merge o x = o \/ merge o x = x.
Hypothesis merge_comm : forall o x, merge o x = merge x o.
Hypothesis merge_assoc : forall a b c, merge a (merge b c) = merge (merge a b) c.

Notation store := (store Val).
Notation store_ok := (store_ok Val).
Notation slookup := (slookup Val).
Notation merged := (merged Val merge).
Notation ser := (ser digest V H lvl_of Val vh).
Notation pull := (pull digest deqb Val merge ser).
Notation sync_rounds := (sync_rounds digest deqb Val merge ser).
Notation dom1 := (dom1 Val merge). Notation dom2 := (dom2 Val).
Notation le := (le Val merge).

(* the pointwise join of two stores *)
Definition pointwise_join (a b : store) : store := apply_fetched Val merge a b.

Lemma join_lookup a b k : store_ok b ->
  slookup k (pointwise_join a b) = match slookup k b with Some x => Some (merged a k x) | None => slookup k a end.
Proof.
  intros Sb. unfold pointwise_join. destruct (slookup k b) as [x|] eqn:Eb.
  - apply apply_fetched_hit; [exact Sb|]. apply (slookup_in Val k x b Sb). exact Eb.
  - apply apply_fetched_other. intros Hin. unfold Sync.skeys in Hin. apply in_map_iff in Hin as ([k' x] & Ek & Hin). cbn in Ek. subst k'.
    apply (slookup_in Val k x b Sb) in Hin. congruence.
Qed.

Lemma two_nth (a b : store) j s : nth_error [a; b] j = Some s -> (j = 0%nat /\ s = a) \/ (j = 1%nat /\ s = b).
Proof. destruct j as [|[|j]]; cbn; intros E; [injection E as <-; auto|injection E as <-; auto|destruct j; discriminate]. Qed.

Lemma join_dom a b : store_ok a -> store_ok b -> dom1 [a; b] (pointwise_join a b) /\ dom2 [a; b] (pointwise_join a b).
Proof.
  intros Sa Sb. split.
  - intros j s k x Ej El. rewrite (join_lookup a b k Sb). apply two_nth in Ej as [(-> & ->)|(-> & ->)].
    + destruct (slookup k b) as [y|]; [|exists x; split; [exact El|apply (le_refl Val merge merge_sel)]].
      eexists. split; [reflexivity|]. unfold Sync.merged. rewrite El. apply (le_merge_l Val merge merge_sel merge_assoc).
    + rewrite El. eexists. split; [reflexivity|]. apply (merged_le_r Val merge merge_sel merge_comm merge_assoc).
  - intros k w Ew. rewrite (join_lookup a b k Sb) in Ew. destruct (slookup k b) as [y|] eqn:Eb.
    + injection Ew as <-. unfold Sync.merged. destruct (slookup k a) as [o|] eqn:Ea.
      * destruct (merge_sel o y) as [M|M]; rewrite M; [exists 0%nat, a|exists 1%nat, b]; auto.
      * exists 1%nat, b. auto.
    + exists 0%nat, a. auto.
Qed.

Lemma sync_rounds_inv W : forall n a b a' b', store_ok a -> store_ok b -> dom1 [a; b] W -> dom2 [a; b] W ->
  sync_rounds n a b = Ok (a', b') -> store_ok a' /\ store_ok b' /\ dom1 [a'; b'] W /\ dom2 [a'; b'] W.
Proof.
  induction n as [|n IH]; intros a b a' b' Sa Sb D1 D2 E; cbn [SyncRounds.sync_rounds] in E.
  - injection E as <- <-. auto.
  - destruct (pull a b) as [a1|w|] eqn:E1; cbn [bind] in E; try discriminate.
    destruct (pull b a1) as [b1|w|] eqn:E2; cbn [bind] in E; try discriminate.
    assert (HS: Forall store_ok [a; b]) by (repeat constructor; assumption).
    destruct (pull_inv digest V H lvl_of deqb Val vh merge merge_comm merge_assoc [a; b] W 0 1 a b a1 D1 D2 HS eq_refl eq_refl E1) as (D1' & D2').
    change (upd [a; b] 0 a1) with [a1; b] in D1', D2'.
    assert (Sa1: store_ok a1) by (eapply (pull_ok_store digest deqb Val merge ser); [exact Sa|exact Sb|exact E1]).
    assert (HS': Forall store_ok [a1; b]) by (repeat constructor; assumption).
    destruct (pull_inv digest V H lvl_of deqb Val vh merge merge_comm merge_assoc [a1; b] W 1 0 b a1 b1 D1' D2' HS' eq_refl eq_refl E2) as (D1'' & D2'').
    change (upd [a1; b] 1 b1) with [a1; b1] in D1'', D2''.
    assert (Sb1: store_ok b1) by (eapply (pull_ok_store digest deqb Val merge ser); [exact Sb|exact Sa1|exact E2]).
    exact (IH a1 b1 a' b' Sa1 Sb1 D1'' D2'' E).
Qed.

(* C05: after as many two-way rounds as there are disagreeing keys both replicas hold the pointwise join of the
   two initial contents (and, being equal stores, report the same root hash) *)
Theorem C05_join_result (U : list N) n a b : store_ok a -> store_ok b ->
  (forall k, In k (skeys Val a) -> In k U) -> (forall k, In k (skeys Val b) -> In k U) ->
  (dis Val val_dec U a b <= n)%nat ->
  sync_rounds n a b = Ok (pointwise_join a b, pointwise_join a b).
Proof.
  intros Sa Sb Ua Ub Hd.
  assert (merge_anti: forall o x, merge o x = o -> merge x o = x -> o = x).
  { intros o x A B. rewrite <- A, merge_comm. exact B. }
  destruct (C05_rounds digest V H deqb deqb_spec Hinj Val val_dec vh vh_inj merge merge_anti merge_sel ser
              (ser_RL digest V H lvl_of lvl_of_u8 Val vh) U n a b Sa Sb Ua Ub Hd) as (a' & b' & E & <-).
  destruct (join_dom a b Sa Sb) as (D1 & D2).
  destruct (sync_rounds_inv _ n a b a' a' Sa Sb D1 D2 E) as (Sa' & _ & D1' & D2').
  assert (Ea: a' = pointwise_join a b).
  { apply (agreed_is_written Val merge [a'; a'] (pointwise_join a b)); [repeat constructor; exact Sa'|apply apply_fetched_ok; exact Sa|exact D1'|exact D2'| |now left].
    intros x y [<-|[<-|[]]] [<-|[<-|[]]]; reflexivity. }
  rewrite E, Ea. reflexivity.
Qed.
End Join.
