From MST Require Import Base TreeM Diff Spec TreeUpsert TreeHash TreeInv TreeCanon HistIndep TreeRanges Intervals DiffTrees TreeRL.

Section Top.
Variable digest V : Type.
Variable H : list (tok digest V) -> digest.
Variable lvl_of : N -> N.
Hypothesis lvl_of_u8 : forall k, lvl_of k < 255.
Variable deqb : digest -> digest -> bool.
Hypothesis deqb_spec : forall a b, deqb a b = true <-> a = b.
Variable veq_dec : forall a b : V, {a = b} + {a <> b}.

Notation mst := (mst digest V).
Notation root := (root digest V).
Notation content := (content digest V).
Notation run := (run digest V H lvl_of). Notation final_map := (final_map V).
Notation tree_ranges := (tree_ranges digest V H).
Notation diff := (diff digest deqb).
Notation RL := (RL digest V H).

Definition tree_diff (tl tp : mst) : res (list drange) :=
  do rl <- tree_ranges tl; do rp <- tree_ranges tp;
  match rl, rp with Some a, Some b => diff a b | _, _ => Panic 0 end.

Lemma run_RL ops : exists t l, run ops = Ok t /\ tree_ranges t = Ok (Some l) /\ RL (final_map ops) l.
Proof.
  destruct (run_inv digest V H lvl_of lvl_of_u8 ops) as (t & R & Hi & Hc).
  destruct (tree_RL digest V H lvl_of t Hi) as (l & E & HR). exists t, l. rewrite <- Hc. auto.
Qed.

Theorem C08_identical ops1 ops2 t1 t2 : final_map ops1 = final_map ops2 ->
  run ops1 = Ok t1 -> run ops2 = Ok t2 -> tree_diff t1 t2 = Ok [].
Proof.
  intros EF R1 R2.
  destruct (C01_history_independence digest V H lvl_of lvl_of_u8 ops1 ops2 EF) as (t1' & t2' & R1' & R2' & _ & EH).
  rewrite R1 in R1'. rewrite R2 in R2'. injection R1' as <-. injection R2' as <-.
  destruct (run_RL ops1) as (t & l & R & E & HR). rewrite R1 in R. injection R as <-.
  unfold tree_diff. assert (E2: tree_ranges t2 = Ok (Some l)). { unfold TreeRL.tree_ranges in *. rewrite <- EH. exact E. }
  rewrite E, E2. cbn [bind]. apply (diff_same digest V H deqb deqb_spec _ _ HR).
Qed.

Section WithInj.
Hypothesis Hinj : forall a b, H a = H b -> a = b.

Theorem C04_no_false_convergence opsA opsB tA tB : run opsA = Ok tA -> run opsB = Ok tB ->
  tree_diff tA tB = Ok [] -> tree_diff tB tA = Ok [] -> final_map opsA = final_map opsB.
Proof.
  intros RA RB DAB DBA.
  destruct (run_RL opsA) as (tA' & lA & RA' & EA & HA). rewrite RA in RA'. injection RA' as <-.
  destruct (run_RL opsB) as (tB' & lB & RB' & EB & HB). rewrite RB in RB'. injection RB' as <-.
  unfold tree_diff in *. rewrite EA, EB in *. cbn [bind] in *.
  apply (c04 digest V H deqb deqb_spec Hinj veq_dec _ _ lA lB HA HB DAB DBA).
Qed.

Theorem C07_complete opsL opsP tL tP k v : run opsL = Ok tL -> run opsP = Ok tP ->
  final_map opsL <> [] -> span_covers V (final_map opsL) (final_map opsP) ->
  In (k, v) (final_map opsP) -> lookup V k (final_map opsL) <> Some v ->
  exists rs, tree_diff tL tP = Ok rs /\ inl k rs.
Proof.
  intros RL_ RP NL Hspan Hin Hd.
  destruct (run_RL opsL) as (tL' & lL & RL' & EL & HL). rewrite RL_ in RL'. injection RL' as <-.
  destruct (run_RL opsP) as (tP' & lP & RP' & EP & HP). rewrite RP in RP'. injection RP' as <-.
  unfold tree_diff. rewrite EL, EP. cbn [bind].
  apply (c07_nested digest V H deqb deqb_spec Hinj _ _ lL lP HL HP k v NL Hspan Hin Hd).
Qed.
End WithInj.
Print Assumptions C08_identical.
Print Assumptions C04_no_false_convergence.
Print Assumptions C07_complete.
End Top.
