(* Provenance of the bounds of diff's output: which input bounds can become the START of a returned range
   and which can become its END. Purely structural (no well-formedness needed): it follows the code of
   range_list.rs / diff_builder.rs / diff.rs case by case. Used for C12 ("starts at a key the peer holds,
   ends at a key of the peer or the local tree, inside the peer's span") and the second clause of C04. *)
From MST Require Import Base TreeM Diff Intervals.
From Coq Require Import Permutation.

Section Prov.
Variable digest : Type.
Variable deqb : digest -> digest -> bool.
Notation prange := (prange digest).
Notation ps := (ps digest). Notation pe := (pe digest). Notation ph := (ph digest).
Notation st := (st digest).
Notation rdiff := (rdiff digest deqb).
Notation superset := (superset digest).

Ltac cse E t := let Hc := fresh "Hc" in destruct t eqn:Hc; rewrite ?Hc in E; cbn [bind] in E; try discriminate E.

Definition okAB (A B : N -> Prop) (r : drange) : Prop := A (ds r) /\ B (de r).

Section Lists.
Variables A B : N -> Prop.

Lemma merge_go_se : forall rest last out,
  okAB A B last -> Forall (okAB A B) rest -> merge_go last rest = Ok out -> Forall (okAB A B) out.
Proof.
  induction rest as [|r rest IH]; intros last out Hl Hr E; cbn [merge_go] in E.
  - injection E as <-. constructor; auto.
  - inversion Hr as [|? ? Hr1 Hr2]; subst.
    cse E (assert (ds last <=? ds r) 81).
    cse E (de r <=? de last).
    + exact (IH last out Hl Hr2 E).
    + cse E (ds r <=? de last).
      * refine (IH _ out _ Hr2 E). split; [apply Hl|apply Hr1].
      * cse E (merge_go r rest). injection E as <-.
        constructor; auto. eapply (IH r); eauto.
Qed.
Lemma merge_overlapping_se l out : Forall (okAB A B) l -> merge_overlapping l = Ok out -> Forall (okAB A B) out.
Proof.
  destruct l as [|x r]; intros Hl E; cbn [merge_overlapping] in E.
  - injection E as <-. constructor.
  - inversion Hl; subst. eapply merge_go_se; eauto.
Qed.
Lemma sort_se (P : drange -> Prop) l : Forall P l -> Forall P (sort_by_start l).
Proof. rewrite !Forall_forall. intros Hl r Hr. apply Hl. eapply Permutation_in; [apply sort_perm|exact Hr]. Qed.
Lemma into_vec_se l out : Forall (okAB A B) l -> into_vec l = Ok out -> Forall (okAB A B) out.
Proof.
  intros Hl E. unfold into_vec in E.
  cse E (merge_overlapping (sort_by_start l)).
  match type of E with context [assert ?b ?w] => cse E (assert b w) end. injection E as <-.
  eapply merge_overlapping_se; [|eassumption]. apply sort_se. exact Hl.
Qed.

(* good intervals have their START admissible as an END and their END admissible as a START *)
Lemma punch_se g b : okAB B A g -> okAB A B b -> Forall (okAB A B) (punch g b).
Proof.
  intros (G1 & G2) (B1 & B2). unfold punch. destruct (negb (overlaps g b)); [repeat constructor; auto|].
  destruct (ds b <? ds g), (de g <? de b); cbn [app]; repeat constructor; auto.
Qed.
Lemma Forall_flat_map {X Y} (P : X -> Prop) (Q : Y -> Prop) (f : X -> list Y) l :
  Forall P l -> (forall x, P x -> Forall Q (f x)) -> Forall Q (flat_map f l).
Proof. induction 1 as [|x r Hx Hr IH]; intros Hf; cbn [flat_map]; [constructor|]. apply Forall_app. split; auto. Qed.
Lemma fold_punch_se : forall goods bads, Forall (okAB B A) goods -> Forall (okAB A B) bads ->
  Forall (okAB A B) (fold_left (fun b g => flat_map (punch g) b) goods bads).
Proof.
  induction goods as [|g gs IH]; intros bads Hg Hb; cbn [fold_left]; [exact Hb|].
  inversion Hg; subst. apply IH; auto. eapply Forall_flat_map; [exact Hb|]. intros x Hx. apply punch_se; auto.
Qed.
Lemma reduce_sync_range_se bad good out : Forall (okAB A B) bad -> Forall (okAB B A) good ->
  reduce_sync_range bad good = Ok out -> Forall (okAB A B) out.
Proof.
  intros Hb Hg E. unfold reduce_sync_range in E.
  cse E (merge_overlapping (fold_left (fun b g => flat_map (punch g) b) good bad)).
  match type of E with context [assert ?b ?w] => cse E (assert b w) end. injection E as <-.
  eapply merge_overlapping_se; [|eassumption]. apply fold_punch_se; auto.
Qed.
End Lists.

Lemma okAB_mono (A B A' B' : N -> Prop) r : (forall z, A z -> A' z) -> (forall z, B z -> B' z) -> okAB A B r -> okAB A' B' r.
Proof. intros HA HB (X & Y). split; auto. Qed.

(* ---------------- the walk ---------------- *)
Variables PS PL PE : N -> Prop.      (* bounds of peer entries / starts of local entries / admissible ends *)
Hypothesis PS_PE : forall z, PS z -> PE z.
Hypothesis PE_min : forall a b, PL a -> PS b -> PE (N.min a b).

Definition okp (p : prange) : Prop := PS (ps p) /\ PS (pe p).
Definition okl_ (l : prange) : Prop := PL (ps l).
Definition okb_ (b : builder) : Prop := Forall (okAB PS PE) (inc b) /\ Forall (okAB PS PS) (con b).
Definition oks_ (s : st) : Prop := Forall okp (peer _ s) /\ Forall okl_ (loc _ s) /\ okb_ (bld _ s).

Lemma b_inc_se b s e b' : okb_ b -> PS s -> PE e -> b_inc b s e = Ok b' -> okb_ b'.
Proof.
  intros (I & C) Hs He E. unfold b_inc in E. cse E (assert (s <=? e) 27).
  injection E as <-. split; cbn [inc con]; [|exact C]. apply Forall_app. split; [exact I|]. repeat constructor; auto.
Qed.
Lemma b_con_se b s e b' : okb_ b -> PS s -> PS e -> b_con b s e = Ok b' -> okb_ b'.
Proof.
  intros (I & C) Hs He E. unfold b_con in E. cse E (assert (s <=? e) 27).
  injection E as <-. split; cbn [inc con]; [exact I|]. apply Forall_app. split; [exact C|]. repeat constructor; auto.
Qed.
Lemma advance_se (P : prange -> Prop) parent cur x r : Forall P cur -> advance_within digest parent cur = (Some x, r) -> P x /\ Forall P r.
Proof.
  destruct cur as [|p c]; cbn [advance_within]; [discriminate|]. intros F E. inversion F; subst.
  cse E (superset parent p). injection E as <- <-. auto.
Qed.
Lemma skip_while_se (P : prange -> Prop) f l : Forall P l -> Forall P (skip_while digest f l).
Proof. induction 1 as [|x r Hx Hr IH]; cbn [skip_while]; [constructor|]. destruct (f x); auto. Qed.
Lemma shrink_se (P : prange -> Prop) p : forall cur l, Forall P cur -> Forall P (snd (shrink digest p l cur)).
Proof.
  induction cur as [|v r IH]; intros l F; cbn [shrink]; [constructor|]. inversion F; subst.
  destruct (superset v p); [apply IH; auto|exact F].
Qed.
Lemma drain_se root : forall cur b cur' b', Forall okp cur -> okb_ b -> drain digest root cur b = Ok (cur', b') -> Forall okp cur' /\ okb_ b'.
Proof.
  induction cur as [|p r IH]; intros b cur' b' F Hb E; cbn [drain] in E.
  - injection E as <- <-. auto.
  - inversion F as [|? ? (P1 & P2) F']; subst. cse E (superset root p).
    + cse E (b_inc b (ps p) (pe p)).
      eapply IH; [exact F'| |exact E]. eapply b_inc_se; [exact Hb| | |eassumption]; auto.
    + injection E as <- <-. auto.
Qed.

Theorem rdiff_se : forall fuel root last s s',
  okp root -> match last with Some v => okp v | None => True end -> oks_ s ->
  rdiff fuel root last s = Ok s' -> oks_ s'.
Proof.
  induction fuel as [|f IH]; intros root last s s' Hroot Hlast (Hp & Hl & Hb) E; cbn [Diff.rdiff] in E; [discriminate|].
  destruct (advance_within digest root (peer _ s)) as [[p|] peer1] eqn:Ea.
  2:{ injection E as <-. split; [exact Hp|split; [exact Hl|exact Hb]]. }
  destruct (advance_se okp _ _ _ _ Hp Ea) as (Pp & Hp1).
  assert (Hstart: PS (match last with Some v => pe v | None => ps root end)).
  { destruct last as [v|]; [apply Hlast|apply Hroot]. }
  destruct (advance_within digest p (loc _ s)) as [[l|] loc1] eqn:Eb.
  - (* a local page inside p *)
    destruct (advance_se okl_ _ _ _ _ Hl Eb) as (Pl & Hl1).
    cse E (assert (superset root p) 272).
    destruct (shrink digest p l loc1) as [l' loc2] eqn:Es; rewrite ?Es in E.
    assert (Hl2: Forall okl_ loc2). { pose proof (shrink_se okl_ p loc1 l Hl1) as X. rewrite Es in X. exact X. }
    match type of E with (do s2 <- ?X; _) = _ => destruct X as [s2|w|] eqn:E2 end; cbn [bind] in E; try discriminate.
    assert (O2: oks_ s2).
    { cse E2 (deqb (ph l') (ph p)).
      - cse E2 (b_con (bld _ s) (ps p) (pe p)). injection E2 as <-.
        split; [apply skip_while_se; exact Hp1|]. split; [exact Hl2|]. eapply b_con_se; [exact Hb| | |eassumption]; apply Pp.
      - cse E2 (b_inc (bld _ s) (ps p) (pe p)). injection E2 as <-.
        split; [exact Hp1|]. split; [exact Hl2|]. eapply b_inc_se; [exact Hb| | |eassumption]; [apply Pp|apply PS_PE; apply Pp]. }
    cse E (rdiff f p None s2).
    match goal with Hr : rdiff f p None s2 = Ok ?s3 |- _ => pose proof (IH p None s2 s3 Pp I O2 Hr) as (Hp3 & Hl3 & Hb3) end.
    match type of E with context [drain digest p ?c ?b] => destruct (drain digest p c b) as [[cur' b']|w|] eqn:Ed end; cbn [bind fst snd] in E; try discriminate.
    destruct (drain_se p _ _ _ _ Hp3 Hb3 Ed) as (Hp4 & Hb4).
    refine (IH root (Some p) _ s' Hroot Pp _ E). split; [exact Hp4|split; [exact Hl3|exact Hb4]].
  - (* no local page inside p *)
    destruct (loc _ s) as [|l0 lr] eqn:El; rewrite ?El in E.
    + match type of E with context [?a <=? pe p] => cse E (a <=? pe p) end.
      * match type of E with context [b_inc ?b ?x ?y] => cse E (b_inc b x y) end. injection E as <-.
        split; [exact Hp1|]. split; [constructor|]. eapply b_inc_se; [exact Hb| | |eassumption]; [exact Hstart|apply PS_PE; apply Pp].
      * injection E as <-. split; [exact Hp1|]. split; [constructor|exact Hb].
    + inversion Hl as [|? ? Pl0 Hlr]; subst. cse E (superset l0 p).
      * injection E as <-. split; [exact Hp1|]. split; [exact Hl|exact Hb].
      * match type of E with context [?a <=? N.min (ps l0) (pe p)] => cse E (a <=? N.min (ps l0) (pe p)) end.
        -- match type of E with context [b_inc ?b ?x ?y] => cse E (b_inc b x y) end. injection E as <-.
           split; [exact Hp1|]. split; [exact Hl|]. eapply b_inc_se; [exact Hb| | |eassumption]; [exact Hstart|apply PE_min; [exact Pl0|apply Pp]].
        -- injection E as <-. split; [exact Hp1|]. split; [exact Hl|exact Hb].
Qed.

Theorem diff_se local peer_ out :
  Forall okp peer_ -> Forall okl_ local -> Diff.diff digest deqb local peer_ = Ok out -> Forall (okAB PS PE) out.
Proof.
  intros Hp Hl E. unfold Diff.diff in E. destruct peer_ as [|root rest]; [injection E as <-; constructor|].
  destruct (rdiff (S (length (root :: rest))) root None (ST digest (root :: rest) local (B [] []))) as [s|w|] eqn:Er; cbn [bind] in E; try discriminate.
  assert (O: oks_ s).
  { eapply rdiff_se; [| | |exact Er]; [inversion Hp; auto|exact I|]. split; [exact Hp|]. split; [exact Hl|]. split; constructor. }
  destruct O as (_ & _ & (Oi & Oc)). unfold into_diff_vec in E.
  destruct (into_vec (inc (bld _ s))) as [i|w|] eqn:Ei; cbn [bind] in E; try discriminate.
  destruct (into_vec (con (bld _ s))) as [c|w|] eqn:Ec; cbn [bind] in E; try discriminate.
  eapply reduce_sync_range_se; [| |exact E].
  - eapply into_vec_se; [exact Oi|exact Ei].
  - eapply into_vec_se; [|exact Ec]. eapply Forall_impl; [|exact Oc]. intros r. apply okAB_mono; auto.
Qed.
End Prov.
