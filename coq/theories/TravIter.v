(* Link between the visitor's event list (Trav.events) and the in-order node list (Iter.nodes_of) *)
From MST Require Import Base TreeM Spec Trav Iter.

Section TI.
Variable digest V : Type.
Notation page := (page digest V).
Notation node := (node digest V).
Notation ev := (ev digest V).
Notation events := (events digest V). Notation events_nodes := (events_nodes digest V). Notation events_opt := (events_opt digest V).
Notation nodes_of := (nodes_of digest V). Notation nodes_from := (nodes_from digest V). Notation nodes_of_opt := (nodes_of_opt digest V).

Definition visited (es : list ev) : list node :=
  flat_map (fun e => match e with EVisit _ _ n => [n] | _ => [] end) es.
Lemma visited_app a b : visited (a ++ b) = visited a ++ visited b.
Proof. unfold visited. apply flat_map_app. Qed.

Lemma visit_events_nodes : forall (p : page) (hp : bool), visited (events p hp) = nodes_of p.
Proof.
  induction p as [l c ns high IHns IHhigh] using (page_ind' digest V). intros hp.
  rewrite events_eq, nodes_of_eq. cbn [TreeM.pnodes TreeM.phigh].
  change (visited (EIn digest V (Page digest V l c ns high) hp :: events_nodes ns ++ EOut digest V (Page digest V l c ns high) :: events_opt high true))
    with (visited (events_nodes ns ++ EOut digest V (Page digest V l c ns high) :: events_opt high true)).
  rewrite visited_app.
  change (visited (EOut digest V (Page digest V l c ns high) :: events_opt high true)) with (visited (events_opt high true)).
  f_equal.
  - clear IHhigh. induction IHns as [|n r Hn Hr IH]; [reflexivity|].
    cbn [Trav.events_nodes Iter.nodes_from].
    change (visited (EPre digest V n :: Trav.events_opt digest V (nlt digest V n) false ++ EVisit digest V n :: EPost digest V n :: events_nodes r))
      with (visited (Trav.events_opt digest V (nlt digest V n) false ++ EVisit digest V n :: EPost digest V n :: events_nodes r)).
    rewrite visited_app.
    change (visited (EVisit digest V n :: EPost digest V n :: events_nodes r)) with (n :: visited (events_nodes r)).
    rewrite IH. f_equal.
    destruct (nlt digest V n) as [q|]; cbn [Trav.events_opt Iter.nodes_of_opt PO] in *; [apply Hn|reflexivity].
  - destruct high as [h|]; cbn [Trav.events_opt Iter.nodes_of_opt PO] in *; [apply IHhigh|reflexivity].
Qed.
End TI.
