(* C06: the state the replicas converge to is the join of everything ever written; nothing written is lost.
   Store-level argument for a linear join [merge] (max of a total order):
     dom1: every entry of every replica is below the entry of W (the pointwise join of all writes so far)
     dom2: every entry of W is held, exactly, by some replica
   Both are invariant under writes, hash requests and pulls. Once all replicas are equal they equal W. *)
From Coq Require Import PeanoNat Arith.
From MST Require Import Base TreeM Diff Spec TreeInv Intervals DiffTrees Sync SyncTop SyncRounds ListUpd SyncModel.

Section Limit.
Variable digest V : Type.
Variable H : list (tok digest V) -> digest.
Variable lvl_of : N -> N.
Variable deqb : digest -> digest -> bool.
Variable Val : Type.
Variable vh : Val -> V.
Variable merge : Val -> Val -> Val.
Hypothesis merge_idem : forall x, merge x x = x.
Hypothesis merge_comm : forall o x, merge o x = merge x o.
Hypothesis merge_assoc : forall a b c, merge a (merge b c) = merge (merge a b) c.

Notation store := (store Val).
Notation store_ok := (store_ok Val).
Notation slookup := (slookup Val). Notation sins := (sins Val).
Notation merged := (merged Val merge).
Notation ser := (ser digest V H lvl_of Val vh).
Notation pull := (pull digest deqb Val merge ser).
Notation a_step := (a_step digest V H lvl_of deqb Val vh merge).
Notation a_run := (a_run digest V H lvl_of deqb Val vh merge).

Definition le (x y : Val) : Prop := merge x y = y.
Lemma le_refl x : le x x. Proof. apply merge_idem. Qed.
Lemma le_trans x y z : le x y -> le y z -> le x z.
Proof. unfold le. intros A B. rewrite <- B at 1. rewrite merge_assoc, A. exact B. Qed.
Lemma le_antisym x y : le x y -> le y x -> x = y.
Proof. unfold le. intros A B. rewrite <- B, merge_comm. exact A. Qed.
Lemma le_merge_l x y : le x (merge x y). Proof. unfold le. rewrite merge_assoc, merge_idem. reflexivity. Qed.
Lemma le_merge_r x y : le y (merge x y). Proof. rewrite merge_comm. apply le_merge_l. Qed.
Lemma merge_lub x y w : le x w -> le y w -> le (merge x y) w.
Proof. unfold le. intros A B. rewrite <- merge_assoc, B. exact A. Qed.

(* everything written so far to replicas that exist, joined per key *)
Definition w_step (n : nat) (W : store) (e : event Val) : store :=
  match e with
  | Write _ i k x => if Nat.ltb i n then sins k (merged W k x) W else W
  | _ => W
  end.
Definition written_from (n : nat) (W : store) (es : list (event Val)) : store := fold_left (w_step n) es W.
Definition written (n : nat) (es : list (event Val)) : store := written_from n [] es.

Definition dom1 (S : list store) (W : store) : Prop :=
  forall j s k x, nth_error S j = Some s -> slookup k s = Some x -> exists w, slookup k W = Some w /\ le x w.
(* every entry of W is the least upper bound of the replicas' entries for that key (and some replica has the key) *)
Definition dom2 (S : list store) (W : store) : Prop :=
  forall k w, slookup k W = Some w ->
    (exists j s x, nth_error S j = Some s /\ slookup k s = Some x) /\
    (forall y, (forall j s x, nth_error S j = Some s -> slookup k s = Some x -> le x y) -> le w y).

Lemma merged_le_l s k x o : slookup k s = Some o -> le o (merged s k x).
Proof. intros E. unfold Sync.merged. rewrite E. apply le_merge_l. Qed.
Lemma merged_le_r s k x : le x (merged s k x).
Proof. unfold Sync.merged. destruct (slookup k s); [apply le_merge_r|apply le_refl]. Qed.

Lemma nth_upd_cases {A} (l : list A) i j x y : (i < length l)%nat -> nth_error (upd l i x) j = Some y ->
  (j = i /\ y = x) \/ (j <> i /\ nth_error l j = Some y).
Proof.
  intros Hi E. destruct (Nat.eq_dec i j) as [<-|Hn].
  - rewrite nth_upd_same in E by exact Hi. injection E as <-. auto.
  - rewrite nth_upd_other in E by auto. auto.
Qed.

(* ---- a write ---- *)
Lemma write_inv S W i s k x : dom1 S W -> dom2 S W -> nth_error S i = Some s ->
  dom1 (upd S i (sins k (merged s k x) s)) (sins k (merged W k x) W) /\
  dom2 (upd S i (sins k (merged s k x) s)) (sins k (merged W k x) W).
Proof.
  intros D1 D2 Ei. assert (Hi: (i < length S)%nat) by (apply nth_error_Some; congruence). split.
  - intros j s' k' x' Ej El. rewrite slookup_sins.
    destruct (nth_upd_cases _ _ _ _ _ Hi Ej) as [(-> & ->)|(Hn & Ej')]; clear Ej; [|rename Ej' into Ej].
    + rewrite slookup_sins in El. destruct (k' =? k) eqn:Ek.
      * apply N.eqb_eq in Ek. subst k'. injection El as <-. eexists. split; [reflexivity|].
        unfold Sync.merged at 1. destruct (slookup k s) as [o|] eqn:Eo.
        -- destruct (D1 _ _ _ _ Ei Eo) as (w & Ew & Hw). unfold Sync.merged. rewrite Ew.
           apply merge_lub; [eapply le_trans; [exact Hw|apply le_merge_l]|apply le_merge_r].
        -- apply merged_le_r.
      * destruct (D1 _ _ _ _ Ei El) as (w & Ew & Hw). eauto.
    + destruct (D1 _ _ _ _ Ej El) as (w & Ew & Hw). destruct (k' =? k) eqn:Ek; [|eauto].
      apply N.eqb_eq in Ek. subst k'. eexists. split; [reflexivity|]. eapply le_trans; [exact Hw|]. apply merged_le_l. exact Ew.
  - intros k' w'. rewrite slookup_sins. destruct (k' =? k) eqn:Ek.
    + apply N.eqb_eq in Ek. subst k'. intros [= <-]. split.
      * exists i. eexists. eexists. split; [apply nth_upd_same; exact Hi|]. rewrite slookup_sins, N.eqb_refl. reflexivity.
      * intros y Hy.
        assert (Hx: le (merged s k x) y).
        { apply (Hy i _ _ (nth_upd_same _ _ _ Hi)). rewrite slookup_sins, N.eqb_refl. reflexivity. }
        assert (Lx: le x y) by (eapply le_trans; [apply merged_le_r|exact Hx]).
        unfold Sync.merged at 1. destruct (slookup k W) as [w|] eqn:Ew; [|exact Lx].
        apply merge_lub; [|exact Lx]. destruct (D2 _ _ Ew) as (_ & Hlub). apply Hlub.
        intros j s' x' Ej El. destruct (Nat.eq_dec j i) as [->|Hn].
        -- rewrite Ei in Ej. injection Ej as <-. eapply le_trans; [|exact Hx]. apply merged_le_l. exact El.
        -- apply (Hy j s' x'); [rewrite nth_upd_other by auto; exact Ej|exact El].
    + intros Ew. destruct (D2 _ _ Ew) as ((j & s' & x' & Ej & El) & Hlub). split.
      * destruct (Nat.eq_dec j i) as [->|Hn].
        -- exists i. eexists. exists x'. split; [apply nth_upd_same; exact Hi|]. rewrite slookup_sins, Ek. rewrite Ei in Ej. injection Ej as <-. exact El.
        -- exists j, s', x'. split; [rewrite nth_upd_other by auto; exact Ej|exact El].
      * intros y Hy. apply Hlub. intros j0 s0 x0 Ej0 El0. destruct (Nat.eq_dec j0 i) as [->|Hn].
        -- rewrite Ei in Ej0. injection Ej0 as <-. apply (Hy i _ x0 (nth_upd_same _ _ _ Hi)). rewrite slookup_sins, Ek. exact El0.
        -- apply (Hy j0 s0 x0); [rewrite nth_upd_other by auto; exact Ej0|exact El0].
Qed.

(* ---- a pull ---- *)
Lemma pull_inv S W i j a b a' : dom1 S W -> dom2 S W -> Forall store_ok S ->
  nth_error S i = Some a -> nth_error S j = Some b -> pull a b = Ok a' ->
  dom1 (upd S i a') W /\ dom2 (upd S i a') W.
Proof.
  intros D1 D2 HS Ei Ej Ep. assert (Hi: (i < length S)%nat) by (apply nth_error_Some; congruence).
  pose proof (pull_lookup digest deqb Val merge ser a b a' (Forall_nth _ _ _ _ HS Ei) (Forall_nth _ _ _ _ HS Ej) Ep) as PL.
  assert (Hup: forall k o, slookup k a = Some o -> exists o', slookup k a' = Some o' /\ le o o').
  { intros k o Eo. destruct (PL k) as [E|(y & Eb & Ea)]; [exists o; split; [congruence|apply le_refl]|].
    eexists. split; [exact Ea|]. apply merged_le_l. exact Eo. }
  split.
  - intros j' s k x Ej' El. destruct (nth_upd_cases _ _ _ _ _ Hi Ej') as [(-> & ->)|(Hn & Ej'')]; [|exact (D1 _ _ _ _ Ej'' El)].
    destruct (PL k) as [E|(y & Eb & Ea)].
    + rewrite E in El. exact (D1 _ _ _ _ Ei El).
    + rewrite Ea in El. injection El as <-. destruct (D1 _ _ _ _ Ej Eb) as (w & Ew & Hw). exists w. split; [exact Ew|].
      unfold Sync.merged. destruct (slookup k a) as [o|] eqn:Eo; [|exact Hw].
      destruct (D1 _ _ _ _ Ei Eo) as (w0 & Ew0 & Hw0). rewrite Ew in Ew0. injection Ew0 as <-. apply merge_lub; assumption.
  - intros k w Ew. destruct (D2 _ _ Ew) as ((j' & s & x & Ej' & El) & Hlub). split.
    + destruct (Nat.eq_dec j' i) as [->|Hn]; [|exists j', s, x; split; [rewrite nth_upd_other by auto; exact Ej'|exact El]].
      rewrite Ei in Ej'. injection Ej' as <-. destruct (Hup k x El) as (o' & Eo' & _).
      exists i, a', o'. split; [apply nth_upd_same; exact Hi|exact Eo'].
    + intros y Hy. apply Hlub. intros j0 s0 x0 Ej0 El0. destruct (Nat.eq_dec j0 i) as [->|Hn].
      * rewrite Ei in Ej0. injection Ej0 as <-. destruct (Hup k x0 El0) as (o' & Eo' & Lo).
        eapply le_trans; [exact Lo|]. apply (Hy i a' o' (nth_upd_same _ _ _ Hi) Eo').
      * apply (Hy j0 s0 x0); [rewrite nth_upd_other by auto; exact Ej0|exact El0].
Qed.

Lemma a_step_inv S W e S' : Forall store_ok S -> dom1 S W -> dom2 S W -> a_step S e = Ok S' ->
  Forall store_ok S' /\ length S' = length S /\ dom1 S' (w_step (length S) W e) /\ dom2 S' (w_step (length S) W e).
Proof.
  intros HS D1 D2 E. destruct e as [i k x|i|i j]; cbn [SyncModel.a_step w_step] in *.
  - destruct (nth_error S i) as [s|] eqn:Ei.
    + injection E as <-. assert (Hi: (i < length S)%nat) by (apply nth_error_Some; congruence).
      replace (Nat.ltb i (length S)) with true by (symmetry; apply Nat.ltb_lt; exact Hi).
      split; [apply Forall_upd; [exact HS|apply store_ok_sins; exact (Forall_nth _ _ _ _ HS Ei)]|].
      split; [apply upd_length; exact Hi|]. apply write_inv; assumption.
    + injection E as <-. assert (Hi: (length S <= i)%nat) by (apply nth_error_None; exact Ei).
      replace (Nat.ltb i (length S)) with false by (symmetry; apply Nat.ltb_ge; exact Hi). auto.
  - injection E as <-. auto.
  - destruct (Nat.eqb i j); [injection E as <-; auto|].
    destruct (nth_error S i) as [a|] eqn:Ei; [|injection E as <-; auto].
    destruct (nth_error S j) as [b|] eqn:Ej; [|injection E as <-; auto].
    destruct (pull a b) as [a'|w|] eqn:Ep; cbn [bind] in E; try discriminate. injection E as <-.
    assert (Hi: (i < length S)%nat) by (apply nth_error_Some; congruence).
    split; [apply Forall_upd; [exact HS|]; eapply (pull_ok_store digest deqb Val merge ser); [| |exact Ep]; [exact (Forall_nth _ _ _ _ HS Ei)|exact (Forall_nth _ _ _ _ HS Ej)]|].
    split; [apply upd_length; exact Hi|]. eapply pull_inv; eauto.
Qed.

Theorem a_run_inv : forall es S W S', Forall store_ok S -> dom1 S W -> dom2 S W -> a_run S es = Ok S' ->
  Forall store_ok S' /\ length S' = length S /\ dom1 S' (written_from (length S) W es) /\ dom2 S' (written_from (length S) W es).
Proof.
  induction es as [|e es IH]; intros S W S' HS D1 D2 E; cbn [SyncModel.a_run written_from fold_left] in *.
  - injection E as <-. auto.
  - destruct (a_step S e) as [S1|w|] eqn:E1; cbn [bind] in E; try discriminate.
    destruct (a_step_inv S W e S1 HS D1 D2 E1) as (HS1 & L1 & D11 & D21).
    destruct (IH S1 _ S' HS1 D11 D21 E) as (A & B & C & D). rewrite L1 in *. split; [exact A|]. split; [congruence|]. auto.
Qed.

Lemma written_ok : forall es n W, store_ok W -> store_ok (written_from n W es).
Proof.
  induction es as [|e es IH]; intros n W HW; cbn [written_from fold_left]; [exact HW|]. apply IH.
  destruct e as [i k x|i|i j]; cbn [w_step]; try exact HW. destruct (Nat.ltb i n); [apply store_ok_sins|]; exact HW.
Qed.

(* when all replicas agree (and there is at least one), each of them holds exactly the join of all writes *)
Theorem agreed_is_written S W : Forall store_ok S -> store_ok W -> dom1 S W -> dom2 S W ->
  (forall a b, In a S -> In b S -> a = b) -> forall s, In s S -> s = W.
Proof.
  intros HS HW D1 D2 AE s Hs. apply (store_ext Val); [rewrite Forall_forall in HS; auto|exact HW|].
  pose proof Hs as Hs'. apply In_nth_error in Hs' as (j & Ej). intros k.
  destruct (slookup k W) as [w|] eqn:Ew.
  - destruct (D2 _ _ Ew) as ((j' & s' & x & Ej' & El) & Hlub).
    assert (s' = s) as -> by (apply AE; [eapply nth_error_In; eauto|exact Hs]).
    rewrite El. f_equal. destruct (D1 _ _ _ _ Ej El) as (w0 & Ew0 & Hw0). rewrite Ew in Ew0. injection Ew0 as <-.
    apply le_antisym; [exact Hw0|]. apply Hlub. intros j0 s0 x0 Ej0 El0.
    assert (s0 = s) as -> by (apply AE; [eapply nth_error_In; eauto|exact Hs]).
    rewrite El in El0. injection El0 as <-. apply le_refl.
  - destruct (slookup k s) as [x|] eqn:Ex; [|reflexivity]. destruct (D1 _ _ _ _ Ej Ex) as (w & Ew' & _). congruence.
Qed.
End Limit.
