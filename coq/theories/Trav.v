From Coq Require Import PeanoNat Arith.
From MST Require Import Base TreeM Spec.

Section Trav.
Variable digest V : Type.
Variable answers : nat -> bool.

Notation page := (page digest V).
Notation node := (node digest V).
Notation ev := (ev digest V).
Notation vst := (vst digest V).
Notation nlt := (nlt digest V).
Notation trav := (trav digest V answers).
Notation cb := (cb digest V answers).
Notation EIn := (EIn digest V). Notation EOut := (EOut digest V).
Notation EPre := (EPre digest V). Notation EVisit := (EVisit digest V). Notation EPost := (EPost digest V).

(* the full callback sequence, as a plain function of the tree *)
Fixpoint events (p : page) (hp : bool) : list ev :=
  match p with
  | TreeM.Page _ _ _ _ ns high =>
    EIn p hp ::
    (fix go (ns : list node) : list ev :=
       match ns with
       | [] => []
       | n :: r => EPre n :: (match nlt n with Some c => events c false | None => [] end) ++ EVisit n :: EPost n :: go r
       end) ns
    ++ EOut p :: (match high with Some h => events h true | None => [] end)
  end.
Definition events_opt (o : option page) (hp : bool) : list ev := match o with Some c => events c hp | None => [] end.
Fixpoint events_nodes (ns : list node) : list ev :=
  match ns with [] => [] | n :: r => EPre n :: events_opt (nlt n) false ++ EVisit n :: EPost n :: events_nodes r end.
Lemma events_eq p hp : events p hp = EIn p hp :: events_nodes (pnodes _ _ p) ++ EOut p :: events_opt (phigh _ _ p) true.
Proof. destruct p as [l c ns high]. reflexivity. Qed.

(* feeding a list of events to the visitor until it answers false *)
Fixpoint run_cbs (es : list ev) (s : vst) : vst * bool :=
  match es with
  | [] => (s, true)
  | e :: r => let '(s', b) := cb e s in if b then run_cbs r s' else (s', false)
  end.
Lemma run_cbs_app a b s : run_cbs (a ++ b) s = let '(s', ok) := run_cbs a s in if ok then run_cbs b s' else (s', false).
Proof. revert s. induction a as [|e a IH]; intros s; cbn [app run_cbs]; [reflexivity|].
  destruct (cb e s) as [s' ok]. destruct ok; [apply IH|reflexivity]. Qed.

Definition TR (p : page) : Prop := forall hp s, trav p hp s = run_cbs (events p hp) s.
Definition TRo (o : option page) : Prop := match o with Some p => TR p | None => True end.

Lemma negb_if {A} (b : bool) (x y : A) : (if negb b then x else y) = (if b then y else x).
Proof. destruct b; reflexivity. Qed.

Theorem trav_run : forall p, TR p.
Proof.
  induction p as [l c ns high IHns IHhigh] using (page_ind' digest V). intros hp s.
  rewrite events_eq. cbn [TreeM.pnodes TreeM.phigh TreeM.trav run_cbs].
  destruct (cb (EIn (Page digest V l c ns high) hp) s) as [s1 b1]. rewrite negb_if. destruct b1; [|reflexivity].
  rewrite run_cbs_app.
  assert (EN: forall s, (fix go (ns : list node) (s : vst) : vst * bool :=
            match ns with
            | [] => (s, true)
            | n :: r =>
              let '(s, b) := cb (EPre n) s in if negb b then (s, false) else
              let '(s, b) := match nlt n with Some c => trav c false s | None => (s, true) end in if negb b then (s, false) else
              let '(s, b) := cb (EVisit n) s in if negb b then (s, false) else
              let '(s, b) := cb (EPost n) s in if negb b then (s, false) else go r s
            end) ns s = run_cbs (events_nodes ns) s).
  { clear s s1 IHhigh. induction IHns as [|n r Hn Hr IH]; intros s; [reflexivity|].
    cbn [events_nodes run_cbs]. destruct (cb (EPre n) s) as [s1 b1]. rewrite negb_if. destruct b1; [|reflexivity].
    rewrite run_cbs_app.
    assert (EC: match nlt n with Some c => trav c false s1 | None => (s1, true) end = run_cbs (events_opt (nlt n) false) s1).
    { destruct (nlt n) as [q|]; cbn [events_opt run_cbs PO] in *; [apply Hn|reflexivity]. }
    rewrite EC. destruct (run_cbs (events_opt (nlt n) false) s1) as [s2 b2]. rewrite negb_if. destruct b2; [|reflexivity].
    cbn [run_cbs]. destruct (cb (EVisit n) s2) as [s3 b3]. rewrite negb_if. destruct b3; [|reflexivity].
    destruct (cb (EPost n) s3) as [s4 b4]. rewrite negb_if. destruct b4; [|reflexivity]. apply IH. }
  rewrite EN. destruct (run_cbs (events_nodes ns) s1) as [s2 b2]. rewrite negb_if. destruct b2; [|reflexivity].
  cbn [run_cbs]. destruct (cb (EOut (Page digest V l c ns high)) s2) as [s3 b3]. rewrite negb_if. destruct b3; [|reflexivity].
  destruct high as [h|]; cbn [events_opt run_cbs PO] in *; [apply IHhigh|reflexivity].
Qed.

(* what run_cbs records: exactly the prefix up to and including the first refusal *)
Fixpoint first_false_from (i : nat) (fuel : nat) : nat :=
  match fuel with O => i | S f => if answers i then first_false_from (S i) f else i end.
Lemma first_false_from_ge : forall f i, (i <= first_false_from i f)%nat.
Proof. induction f as [|m IHm]; intros i; cbn; [lia|]. destruct (answers i); [specialize (IHm (S i)); lia|lia]. Qed.
Lemma run_cbs_prefix : forall es s,
  let k := (first_false_from (cnt _ _ s) (length es) - cnt _ _ s)%nat in
  let '(s', ok) := run_cbs es s in
  evs _ _ s' = rev (firstn (S k) es) ++ evs _ _ s /\ ok = Nat.leb (length es) k.
Proof.
  induction es as [|e r IH]; intros s; cbn [run_cbs length first_false_from].
  - rewrite Nat.sub_diag. cbn. auto.
  - unfold TreeM.cb. cbn [cnt evs]. destruct (answers (cnt _ _ s)) eqn:Ea.
    + specialize (IH (VS digest V (S (cnt _ _ s)) (e :: evs _ _ s))). cbn [cnt evs] in IH.
      destruct (run_cbs r (VS digest V (S (cnt _ _ s)) (e :: evs _ _ s))) as [s' ok]. destruct IH as (A & B).
      pose proof (first_false_from_ge (length r) (S (cnt _ _ s))) as Hge.
      replace (first_false_from (S (cnt _ _ s)) (length r) - cnt _ _ s)%nat with (S (first_false_from (S (cnt _ _ s)) (length r) - S (cnt _ _ s)))%nat by lia.
      split.
      * rewrite A. cbn [firstn rev]. rewrite <- app_assoc. reflexivity.
      * rewrite B. reflexivity.
    + rewrite Nat.sub_diag. cbn. auto.
Qed.

Theorem C17_prefix t :
  let full := events (root _ _ t) false in
  let k := first_false_from 0 (length full) in
  traverse digest V answers t = (firstn (S k) full, Nat.leb (length full) k).
Proof.
  unfold TreeM.traverse. rewrite (trav_run (root _ _ t) false (VS digest V 0 [])).
  pose proof (run_cbs_prefix (events (root _ _ t) false) (VS digest V 0 [])) as HP. cbn [cnt evs] in HP.
  destruct (run_cbs (events (root _ _ t) false) (VS digest V 0 [])) as [s' ok]. rewrite Nat.sub_0_r in HP. destruct HP as (A & B).
  rewrite A, app_nil_r, rev_involutive, B. reflexivity.
Qed.
End Trav.
