From MST Require Import Base TreeM Spec.

Section Ranges.
Variable digest V : Type.
Variable H : list (tok digest V) -> digest.
Variable lvl_of : N -> N.

Notation page := (page digest V).
Notation node := (node digest V).
Notation Page := (Page digest V).
Notation prange := (prange digest).
Notation plvl := (plvl digest V). Notation pnodes := (pnodes digest V). Notation phigh := (phigh digest V). Notation pcache := (pcache digest V).
Notation nkey := (nkey digest V). Notation nval := (nval digest V). Notation nlt := (nlt digest V).
Notation content := (content digest V). Notation content_opt := (content_opt digest V). Notation content_nodes := (content_nodes digest V).
Notation shape := (shape digest V lvl_of). Notation shape_opt := (shape_opt digest V lvl_of). Notation shape_nodes := (shape_nodes digest V lvl_of).
Notation shape_eq := (shape_eq digest V lvl_of). Notation content_eq := (content_eq digest V).
Notation cache_ok := (cache_ok digest V H). Notation cache_ok_opt := (cache_ok_opt digest V H). Notation cache_ok_nodes := (cache_ok_nodes digest V H).
Notation all_cached := (all_cached digest V). Notation all_cached_opt := (all_cached_opt digest V). Notation all_cached_nodes := (all_cached_nodes digest V).
Notation cache_ok_eq := (cache_ok_eq digest V H). Notation all_cached_eq := (all_cached_eq digest V).
Notation ref_hash := (ref_hash digest V H).
Notation min_subtree_key := (min_subtree_key digest V). Notation max_subtree_key := (max_subtree_key digest V).
Notation range_of := (range_of digest V). Notation ranges_page := (ranges_page digest V).

(* ---- pre-order list of pages ---- *)
Fixpoint subpages (p : page) : list page :=
  match p with
  | TreeM.Page _ _ _ _ ns hp =>
    p :: (fix go (ns : list node) : list page :=
            match ns with [] => [] | n :: r => (match nlt n with Some c => subpages c | None => [] end) ++ go r end) ns
      ++ match hp with Some h => subpages h | None => [] end
  end.
Definition subpages_opt (o : option page) : list page := match o with Some p => subpages p | None => [] end.
Fixpoint subpages_nodes (ns : list node) : list page :=
  match ns with [] => [] | n :: r => subpages_opt (nlt n) ++ subpages_nodes r end.
Lemma subpages_eq p : subpages p = p :: subpages_nodes (pnodes p) ++ subpages_opt (phigh p).
Proof. destruct p as [l c ns hp]. reflexivity. Qed.
Arguments subpages : simpl never.

(* ---- spans ---- *)
Definition first_key (l : list (N * V)) : option N := match l with [] => None | (k, _) :: _ => Some k end.
Definition last_key (l : list (N * V)) : option N := match rev l with [] => None | (k, _) :: _ => Some k end.
Lemma first_key_app a b : a <> [] -> first_key (a ++ b) = first_key a.
Proof. destruct a as [|[k v] a]; [congruence|reflexivity]. Qed.
Lemma last_key_app a b : b <> [] -> last_key (a ++ b) = last_key b.
Proof. intros Hb. unfold last_key. rewrite rev_app_distr. destruct (rev b) as [|[k v] r] eqn:E; [|reflexivity].
  apply (f_equal (@rev _)) in E. rewrite rev_involutive in E. cbn in E. congruence. Qed.
Lemma last_key_snoc a k v : last_key (a ++ [(k, v)]) = Some k.
Proof. unfold last_key. rewrite rev_app_distr. reflexivity. Qed.

Lemma min_sub_spec : forall p L, shape L p -> exists k, first_key (content p) = Some k /\ min_subtree_key p = Ok k.
Proof.
  induction p as [l c ns hp IHns IHhp] using (page_ind' digest V). intros L Hs.
  apply shape_eq in Hs. cbn [TreeM.plvl TreeM.pnodes TreeM.phigh] in Hs. destruct Hs as (_ & Hne & Hsn & _).
  destruct ns as [|n r]; [congruence|]. inversion IHns as [|? ? Hn _]; subst. cbn [Spec.shape_nodes] in Hsn. destruct Hsn as (_ & Hc & _).
  rewrite content_eq. cbn [TreeM.pnodes TreeM.phigh Spec.content_nodes TreeM.min_subtree_key].
  destruct (nlt n) as [q|]; cbn [Spec.content_opt Spec.shape_opt PO] in *.
  - destruct (Hn _ Hc) as (k & A & B). exists k. split; [|exact B].
    rewrite <- app_assoc. rewrite first_key_app; [exact A|]. eapply shape_content_nonempty; eauto.
  - exists (nkey n). split; reflexivity.
Qed.
Lemma max_sub_spec : forall p L, shape L p -> exists k, last_key (content p) = Some k /\ max_subtree_key p = Ok k.
Proof.
  induction p as [l c ns hp IHns IHhp] using (page_ind' digest V). intros L Hs.
  pose proof Hs as Hs0. apply shape_eq in Hs. cbn [TreeM.plvl TreeM.pnodes TreeM.phigh] in Hs. destruct Hs as (_ & Hne & _ & Hsh).
  rewrite content_eq. cbn [TreeM.pnodes TreeM.phigh TreeM.max_subtree_key].
  destruct hp as [h|]; cbn [Spec.content_opt Spec.shape_opt PO] in *.
  - destruct (IHhp _ Hsh) as (k & A & B). exists k. split; [|exact B].
    rewrite last_key_app; [exact A|]. eapply shape_content_nonempty; eauto.
  - rewrite app_nil_r. destruct (max_key_ex _ _ (Page l c ns None) Hne) as (mx & Emx). rewrite Emx. exists mx. split; [|reflexivity].
    unfold TreeM.max_key in Emx. cbn [TreeM.pnodes] in Emx. destruct (rev ns) as [|m r] eqn:Er; [discriminate|]. injection Emx as <-.
    apply (f_equal (@rev _)) in Er. rewrite rev_involutive in Er. cbn [rev] in Er. rewrite Er, content_nodes_app. cbn [Spec.content_nodes].
    rewrite app_assoc. apply last_key_snoc.
Qed.

Definition range_spec (q : page) (r : prange) : Prop :=
  first_key (content q) = Some (ps _ r) /\ last_key (content q) = Some (pe _ r) /\ ph _ r = ref_hash q.

Lemma range_of_spec p L : shape L p -> all_cached p -> cache_ok p -> exists r, range_of p = Ok r /\ range_spec p r.
Proof.
  intros Hs Ha Hc. unfold TreeM.range_of.
  destruct (min_sub_spec p L Hs) as (k1 & A1 & B1). destruct (max_sub_spec p L Hs) as (k2 & A2 & B2).
  rewrite B1, B2. cbn [bind]. apply all_cached_eq in Ha. destruct Ha as (Hn & _). apply cache_ok_eq in Hc. destruct Hc as (Hd & _).
  destruct (pcache p) as [d|]; [|congruence]. destruct Hd as (-> & _). eexists. split; [reflexivity|]. repeat split; auto.
Qed.

Definition RS (p : page) : Prop := forall L, shape L p -> all_cached p -> cache_ok p ->
  exists l, ranges_page p = Ok l /\ Forall2 range_spec (subpages p) l.
Definition RSo (o : option page) := match o with Some p => RS p | None => True end.

Theorem ranges_page_spec : forall p, RS p.
Proof.
  induction p as [l c ns hp IHns IHhp] using (page_ind' digest V). intros L Hs Ha Hc.
  destruct (range_of_spec _ L Hs Ha Hc) as (r0 & E0 & R0).
  cbn [TreeM.ranges_page]. rewrite E0. cbn [bind].
  apply shape_eq in Hs. apply all_cached_eq in Ha. apply cache_ok_eq in Hc. cbn [TreeM.plvl TreeM.pnodes TreeM.phigh TreeM.pcache] in *.
  destruct Hs as (_ & _ & Hsn & Hsh). destruct Ha as (_ & Han & Hah). destruct Hc as (_ & Hcn & Hch).
  assert (EN: exists ln, (fix go (ns : list node) : res (list prange) :=
            match ns with
            | [] => Ok []
            | n :: r => do a <- match nlt n with Some c => ranges_page c | None => Ok [] end; do b <- go r; Ok (a ++ b)
            end) ns = Ok ln /\ Forall2 range_spec (subpages_nodes ns) ln).
  { clear E0 R0 IHhp Hsh Hah Hch. induction IHns as [|n r Hn Hr IH].
    - exists []. split; [reflexivity|constructor].
    - cbn [Spec.shape_nodes Spec.all_cached_nodes Spec.cache_ok_nodes] in *. destruct Hsn as (_ & S1 & S2), Han as (A1 & A2), Hcn as (C1 & C2).
      destruct (IH S2 A2 C2) as (lr & Er & Fr). rewrite Er.
      destruct (nlt n) as [q|] eqn:En; cbn [PO Spec.shape_opt Spec.all_cached_opt Spec.cache_ok_opt] in *.
      + destruct (Hn _ S1 A1 C1) as (lq & Eq & Fq). rewrite Eq. cbn [bind]. eexists. split; [reflexivity|].
        cbn [subpages_nodes]. rewrite En. cbn [subpages_opt]. apply Forall2_app; auto.
      + cbn [bind]. eexists. split; [reflexivity|]. cbn [subpages_nodes]. rewrite En. exact Fr. }
  destruct EN as (ln & En & Fn). rewrite En. cbn [bind].
  assert (EH: exists lh, match hp with Some h => ranges_page h | None => Ok [] end = Ok lh /\ Forall2 range_spec (subpages_opt hp) lh).
  { destruct hp as [h|]; cbn [PO Spec.shape_opt Spec.all_cached_opt Spec.cache_ok_opt] in *.
    - destruct (IHhp _ Hsh Hah Hch) as (lh & Eh & Fh). eauto.
    - exists []. split; [reflexivity|constructor]. }
  destruct EH as (lh & Eh & Fh). rewrite Eh. cbn [bind].
  eexists. split; [reflexivity|]. rewrite subpages_eq. cbn [TreeM.pnodes TreeM.phigh]. constructor; [exact R0|]. apply Forall2_app; auto.
Qed.

(* ---- what every sub-page inherits ---- *)
Definition SUB (p : page) : Prop := forall L q, In q (subpages p) -> shape L p -> all_cached p -> cache_ok p ->
  (exists L', shape L' q) /\ all_cached q /\ cache_ok q /\ exists a b, content p = a ++ content q ++ b.
Definition SUBo (o : option page) := match o with Some p => SUB p | None => True end.

Theorem subpage_facts : forall p, SUB p.
Proof.
  induction p as [l c ns hp IHns IHhp] using (page_ind' digest V). intros L q Hin Hs Ha Hc.
  rewrite subpages_eq in Hin. cbn [TreeM.pnodes TreeM.phigh] in Hin. destruct Hin as [<-|Hin].
  { split; [eauto|]. split; [exact Ha|]. split; [exact Hc|]. exists [], []. rewrite app_nil_r. reflexivity. }
  pose proof Hs as Hs0. apply shape_eq in Hs. apply all_cached_eq in Ha. apply cache_ok_eq in Hc. cbn [TreeM.plvl TreeM.pnodes TreeM.phigh TreeM.pcache] in *.
  destruct Hs as (_ & _ & Hsn & Hsh). destruct Ha as (_ & Han & Hah). destruct Hc as (_ & Hcn & Hch).
  rewrite content_eq. cbn [TreeM.pnodes TreeM.phigh].
  apply in_app_iff in Hin as [Hin|Hin].
  - (* under a node *)
    clear IHhp Hsh Hah Hch Hs0.
    induction IHns as [|n r Hn Hr IH]; [destruct Hin|].
    cbn [Spec.shape_nodes Spec.all_cached_nodes Spec.cache_ok_nodes subpages_nodes] in *.
    destruct Hsn as (_ & S1 & S2), Han as (A1 & A2), Hcn as (C1 & C2).
    apply in_app_iff in Hin as [Hin|Hin].
    + destruct (nlt n) as [x|] eqn:En; cbn [subpages_opt PO Spec.shape_opt Spec.all_cached_opt Spec.cache_ok_opt] in *; [|destruct Hin].
      destruct (Hn _ q Hin S1 A1 C1) as (X1 & X2 & X3 & a & b & E).
      split; [exact X1|]. split; [exact X2|]. split; [exact X3|].
      cbn [Spec.content_nodes]. rewrite En. cbn [Spec.content_opt]. rewrite E. exists a. eexists. rewrite <- !app_assoc. reflexivity.
    + destruct (IH Hin S2 A2 C2) as (X1 & X2 & X3 & a & b & E).
      split; [exact X1|]. split; [exact X2|]. split; [exact X3|].
      cbn [Spec.content_nodes]. eexists (content_opt (nlt n) ++ (nkey n, nval n) :: a), b.
      rewrite <- !app_assoc. cbn [app]. f_equal. f_equal. rewrite !app_assoc. rewrite <- (app_assoc a). exact E.
  - destruct hp as [h|]; cbn [subpages_opt PO Spec.shape_opt Spec.all_cached_opt Spec.cache_ok_opt] in *; [|destruct Hin].
    destruct (IHhp _ q Hin Hsh Hah Hch) as (X1 & X2 & X3 & a & b & E).
    split; [exact X1|]. split; [exact X2|]. split; [exact X3|].
    cbn [Spec.content_opt]. rewrite E. eexists (content_nodes ns ++ a), b. rewrite <- !app_assoc. reflexivity.
Qed.

(* every page below the top one sits strictly inside: something of the top page's content lies outside it *)
Lemma subpage_proper (p : page) L q : In q (subpages_nodes (pnodes p) ++ subpages_opt (phigh p)) ->
  shape L p -> all_cached p -> cache_ok p ->
  exists a b, content p = a ++ content q ++ b /\ (a <> [] \/ b <> []).
Proof.
  destruct p as [l c ns hp]. cbn [TreeM.pnodes TreeM.phigh]. intros Hin Hs Ha Hc.
  apply shape_eq in Hs. apply all_cached_eq in Ha. apply cache_ok_eq in Hc. cbn [TreeM.plvl TreeM.pnodes TreeM.phigh TreeM.pcache] in *.
  destruct Hs as (_ & Hne & Hsn & Hsh). destruct Ha as (_ & Han & Hah). destruct Hc as (_ & Hcn & Hch).
  rewrite content_eq. cbn [TreeM.pnodes TreeM.phigh].
  apply in_app_iff in Hin as [Hin|Hin].
  - clear Hne. induction ns as [|n r IH]; [destruct Hin|].
    cbn [Spec.shape_nodes Spec.all_cached_nodes Spec.cache_ok_nodes subpages_nodes] in *.
    destruct Hsn as (_ & S1 & S2), Han as (A1 & A2), Hcn as (C1 & C2).
    apply in_app_iff in Hin as [Hin|Hin].
    + destruct (nlt n) as [x|] eqn:En; cbn [subpages_opt Spec.shape_opt Spec.all_cached_opt Spec.cache_ok_opt] in *; [|destruct Hin].
      destruct (subpage_facts x _ q Hin S1 A1 C1) as (_ & _ & _ & a & b & E).
      cbn [Spec.content_nodes]. rewrite En. cbn [Spec.content_opt]. rewrite E.
      exists a. eexists. split; [rewrite <- !app_assoc; reflexivity|]. right.
      intros E0. apply (f_equal (@length _)) in E0. rewrite !app_length in E0. cbn [length] in E0. lia.
    + destruct (IH Hin S2 A2 C2) as (a & b & E & Hab).
      cbn [Spec.content_nodes]. eexists (content_opt (nlt n) ++ (nkey n, nval n) :: a), b. split.
      * rewrite <- !app_assoc. cbn [app]. f_equal. f_equal. rewrite !app_assoc. rewrite <- (app_assoc a). exact E.
      * left. intros E0. apply (f_equal (@length _)) in E0. rewrite !app_length in E0. cbn [length] in E0. lia.
  - destruct hp as [h|]; cbn [subpages_opt Spec.shape_opt Spec.all_cached_opt Spec.cache_ok_opt] in *; [|destruct Hin].
    destruct (subpage_facts h _ q Hin Hsh Hah Hch) as (_ & _ & _ & a & b & E).
    cbn [Spec.content_opt]. rewrite E. eexists (content_nodes ns ++ a), b. split; [rewrite <- !app_assoc; reflexivity|].
    left. destruct ns as [|n r]; [congruence|]. cbn [Spec.content_nodes]. intros E0. apply (f_equal (@length _)) in E0. rewrite !app_length in E0. cbn [length] in E0. lia.
Qed.

(* contiguity: in a sorted list, an infix occupies exactly the keys between its first and last key *)
Lemma infix_contiguous (a m b : list (N * V)) k1 k2 :
  StronglySorted N.lt (keys (a ++ m ++ b)) -> first_key m = Some k1 -> last_key m = Some k2 ->
  forall x, In x (keys (a ++ m ++ b)) -> k1 <= x <= k2 -> In x (keys m).
Proof.
  intros HS F Lk x Hin Hx. rewrite !keys_app in *. apply SS_app in HS as (_ & S2 & S3). apply SS_app in S2 as (Sm & _ & S4).
  assert (In k1 (keys m)). { destruct m as [|[k v] m]; [discriminate|]. injection F as ->. rewrite keys_cons. now left. }
  assert (In k2 (keys m)).
  { unfold last_key in Lk. destruct (rev m) as [|[k v] r] eqn:E; [discriminate|]. injection Lk as ->.
    apply (f_equal (@rev _)) in E. rewrite rev_involutive in E. cbn in E. rewrite E, keys_app, in_app_iff. right. rewrite keys_cons. now left. }
  rewrite !in_app_iff in Hin. destruct Hin as [Hin|[Hin|Hin]]; [|exact Hin|].
  - exfalso. assert (x < k1); [|lia]. apply S3; [exact Hin|]. rewrite in_app_iff. auto.
  - exfalso. assert (k2 < x); [|lia]. apply S4; auto.
Qed.
Lemma infix_bounds (a m b : list (N * V)) k1 k2 f l :
  StronglySorted N.lt (keys (a ++ m ++ b)) -> first_key m = Some k1 -> last_key m = Some k2 ->
  first_key (a ++ m ++ b) = Some f -> last_key (a ++ m ++ b) = Some l -> f <= k1 /\ k1 <= k2 /\ k2 <= l.
Proof.
  intros HS F Lk Ff Ll.
  assert (Hk1: In k1 (keys m)). { destruct m as [|[k v] m]; [discriminate|]. injection F as ->. rewrite keys_cons. now left. }
  assert (Hk2: In k2 (keys m)).
  { unfold last_key in Lk. destruct (rev m) as [|[k v] r] eqn:E; [discriminate|]. injection Lk as ->.
    apply (f_equal (@rev _)) in E. rewrite rev_involutive in E. cbn in E. rewrite E, keys_app, in_app_iff. right. rewrite keys_cons. now left. }
  (* general fact: in a sorted list the first key is <= every key <= the last key *)
  assert (G: forall (w : list (N * V)) fw lw y, StronglySorted N.lt (keys w) -> first_key w = Some fw -> last_key w = Some lw -> In y (keys w) -> fw <= y <= lw).
  { intros w fw lw y Sw Fw Lw Hy. split.
    - destruct w as [|[k v] w]; [discriminate|]. injection Fw as ->. rewrite keys_cons in *. cbn [fst] in *. inversion Sw as [|? ? Sw' Hf]; subst.
      destruct Hy as [->|Hy]; [lia|]. rewrite Forall_forall in Hf. specialize (Hf _ Hy). lia.
    - unfold last_key in Lw. destruct (rev w) as [|[k v] r] eqn:E; [discriminate|]. injection Lw as ->.
      apply (f_equal (@rev _)) in E. rewrite rev_involutive in E. cbn [rev] in E. rewrite E, keys_app in *. unfold keys at 2 in Sw. cbn [map fst] in Sw.
      apply SS_app in Sw as (_ & _ & S3). rewrite in_app_iff in Hy. destruct Hy as [Hy|Hy].
      + assert (y < lw); [apply S3; [exact Hy|now left]|lia].
      + unfold keys in Hy. cbn in Hy. destruct Hy as [->|[]]. lia. }
  assert (Sm: StronglySorted N.lt (keys m)). { rewrite !keys_app in HS. apply SS_app in HS as (_ & S2 & _). apply SS_app in S2. tauto. }
  assert (In k1 (keys (a ++ m ++ b))) by (rewrite !keys_app, !in_app_iff; auto).
  assert (In k2 (keys (a ++ m ++ b))) by (rewrite !keys_app, !in_app_iff; auto).
  pose proof (G _ _ _ _ HS Ff Ll H0). pose proof (G _ _ _ _ HS Ff Ll H1). pose proof (G _ _ _ _ Sm F Lk Hk2). lia.
Qed.
End Ranges.
