From MST Require Import Base TreeM Spec TreeSplit.

Section Upsert.
Variable digest V : Type.
Variable H : list (tok digest V) -> digest.
Variable lvl_of : N -> N.
Hypothesis lvl_of_u8 : forall k, lvl_of k < 255.

Notation page := (page digest V).
Notation node := (node digest V).
Notation Page := (Page digest V).
Notation Node := (Node digest V).
Notation plvl := (plvl digest V). Notation pnodes := (pnodes digest V).
Notation phigh := (phigh digest V). Notation pcache := (pcache digest V).
Notation nkey := (nkey digest V). Notation nval := (nval digest V). Notation nlt := (nlt digest V).
Notation set_lt := (set_lt digest V). Notation set_val := (set_val digest V).
Notation split_opt := (split_opt digest V true).
Notation split_page := (split_page digest V true).
Notation resplit_high := (resplit_high digest V true).
Notation upsert_node := (upsert_node digest V true).
Notation upsert_node_go := (upsert_node_go digest V true).
Notation insert_intermediate := (insert_intermediate digest V true).
Notation upsert_page := (upsert_page digest V true).
Notation upsert_descend := (upsert_descend digest V true).
Notation child_upsert := (child_upsert digest V true).
Notation upres := (upres digest V).
Notation max_key := (max_key digest V). Notation min_key := (min_key digest V).
Notation nonempty := (nonempty digest V).
Notation content := (content digest V). Notation content_opt := (content_opt digest V).
Notation content_nodes := (content_nodes digest V).
Notation shape := (shape digest V lvl_of). Notation shape_opt := (shape_opt digest V lvl_of).
Notation shape_nodes := (shape_nodes digest V lvl_of).
Notation sorted := (sorted V).
Notation cache_ok := (cache_ok digest V H). Notation cache_ok_opt := (cache_ok_opt digest V H).
Notation cache_ok_nodes := (cache_ok_nodes digest V H).
Notation shape_eq := (shape_eq digest V lvl_of).
Notation content_eq := (content_eq digest V).
Notation cache_ok_eq := (cache_ok_eq digest V H).

(* ---------- sorted association lists ---------- *)
Fixpoint ins (k : N) (v : V) (l : list (N * V)) : list (N * V) :=
  match l with
  | [] => [(k, v)]
  | (k', v') :: r => if k <? k' then (k, v) :: l else if k =? k' then (k, v) :: r else (k', v') :: ins k v r
  end.
Lemma ins_app_lt k v a b : Forall (fun x => x < k) (keys a) -> ins k v (a ++ b) = a ++ ins k v b.
Proof.
  induction a as [|[k' v'] a IH]; cbn [app]; intros Hlt; auto.
  rewrite keys_cons in Hlt. inversion Hlt; subst. cbn [fst] in *. cbn [ins].
  replace (k <? k') with false by (symmetry; apply N.ltb_ge; lia).
  replace (k =? k') with false by (symmetry; apply N.eqb_neq; lia).
  now rewrite IH.
Qed.
Lemma ins_gt k v b : Forall (fun x => k < x) (keys b) -> ins k v b = (k, v) :: b.
Proof. destruct b as [|[k' v'] b]; cbn [ins]; auto. rewrite keys_cons. intros Hgt. inversion Hgt; subst. cbn [fst] in *.
  replace (k <? k') with true by (symmetry; apply N.ltb_lt; lia). reflexivity. Qed.
Lemma ins_eq k v v0 b : ins k v ((k, v0) :: b) = (k, v) :: b.
Proof. cbn [ins]. rewrite N.ltb_irrefl, N.eqb_refl. reflexivity. Qed.
Lemma ins_app_gt k v a b : Forall (fun x => k < x) (keys b) -> ins k v (a ++ b) = ins k v a ++ b.
Proof.
  intros Hgt. induction a as [|[k' v'] a IH]; cbn [app].
  - now rewrite ins_gt.
  - cbn [ins]. destruct (k <? k'); [reflexivity|]. destruct (k =? k'); [reflexivity|]. cbn [app]. now rewrite IH.
Qed.
Lemma ins_mid k v a b : Forall (fun x => x < k) (keys a) -> Forall (fun x => k < x) (keys b) ->
  ins k v (a ++ b) = a ++ (k, v) :: b.
Proof. intros Ha Hb. rewrite ins_app_lt by auto. now rewrite ins_gt. Qed.
Lemma keys_ins k v l : forall x, In x (keys (ins k v l)) <-> x = k \/ In x (keys l).
Proof.
  induction l as [|[k' v'] l IH]; intros x; cbn [ins].
  - unfold keys; simpl. intuition.
  - destruct (k <? k') eqn:E1; [rewrite !keys_cons; cbn [In fst]; intuition|].
    destruct (k =? k') eqn:E2.
    + apply N.eqb_eq in E2. subst. rewrite !keys_cons. cbn [In fst]. intuition.
    + rewrite !keys_cons. cbn [In fst]. rewrite IH. intuition.
Qed.
Lemma sorted_ins k v l : sorted l -> sorted (ins k v l).
Proof.
  unfold sorted. induction l as [|[k' v'] l IH]; intros Hs; cbn [ins].
  - unfold keys; simpl. repeat constructor.
  - rewrite keys_cons in Hs. inversion Hs as [|? ? Hs' Hf]; subst. cbn [fst] in *.
    destruct (k <? k') eqn:E1.
    + apply N.ltb_lt in E1. rewrite !keys_cons. cbn [fst]. constructor; [exact Hs|].
      constructor; [exact E1|]. rewrite Forall_forall in *. intros x Hx. specialize (Hf x Hx). lia.
    + apply N.ltb_ge in E1. destruct (k =? k') eqn:E2.
      * apply N.eqb_eq in E2. subst. rewrite keys_cons. cbn [fst]. constructor; auto.
      * apply N.eqb_neq in E2. rewrite keys_cons. cbn [fst]. constructor; [apply IH; exact Hs'|].
        rewrite Forall_forall in *. intros x Hx. apply keys_ins in Hx as [->|Hx]; [lia|auto].
Qed.

(* ---------- levels of keys in a well-shaped subtree ---------- *)
Lemma shape_key_levels : forall p L, shape L p -> Forall (fun x => lvl_of x <= plvl p) (keys (content p)) /\ plvl p < 255.
Proof.
  induction p as [lvl c ns hp IHns IHhp] using (page_ind' digest V).
  intros L Hs. apply shape_eq in Hs. cbn [TreeM.plvl TreeM.pnodes TreeM.phigh] in Hs. destruct Hs as (HL & Hne & Hsn & Hsh).
  cbn [TreeM.plvl]. split.
  - rewrite content_eq. cbn [TreeM.pnodes TreeM.phigh]. rewrite keys_app, Forall_app. split.
    + clear Hne. induction ns as [|n r IHr]; [unfold keys; constructor|].
      inversion IHns as [|? ? Hn Hr]; subst. cbn [Spec.shape_nodes] in Hsn. destruct Hsn as (Hl & Hc & Hrest).
      cbn [Spec.content_nodes]. rewrite keys_app, keys_cons, Forall_app. cbn [fst]. split; [|constructor; [lia|auto]].
      destruct (nlt n) as [q|]; cbn [Spec.content_opt]; [|unfold keys; constructor].
      cbn [Spec.shape_opt] in Hc. destruct (Hn _ Hc) as (Hq & _). apply shape_eq in Hc. destruct Hc as (Hql & _).
      rewrite Forall_forall in *. intros x Hx. specialize (Hq x Hx). lia.
    + destruct hp as [h|]; cbn [Spec.content_opt]; [|unfold keys; constructor].
      cbn [Spec.shape_opt] in Hsh. destruct (IHhp _ Hsh) as (Hq & _). apply shape_eq in Hsh. destruct Hsh as (Hql & _).
      rewrite Forall_forall in *. intros x Hx. specialize (Hq x Hx). lia.
  - destruct ns as [|n r]; [congruence|]. cbn [Spec.shape_nodes] in Hsn. destruct Hsn as (Hl & _). rewrite <- Hl. apply lvl_of_u8.
Qed.

(* ---------- resplit_high is the identity on the freshly split lt page ---------- *)
Lemma resplit_high_id PL lt k s1 s2 s3 s4 s5 s6 :
  shape_opt PL lt -> sorted (content_opt lt) -> Forall (fun x => x < k) (keys (content_opt lt)) ->
  resplit_high PL lt k s1 s2 s3 s4 s5 s6 = Ok (lt, None).
Proof.
  destruct lt as [lp|]; [|reflexivity]. cbn [Spec.shape_opt Spec.content_opt]. intros Hs Hso Hlt.
  unfold TreeM.resplit_high.
  pose proof (shape_nonempty _ _ _ _ _ Hs) as Hne. pose proof Hs as Hs'. apply shape_eq in Hs' as (HL & Hnn & Hsn & Hsh).
  unfold assert. replace (plvl lp <? PL) with true by (symmetry; apply N.ltb_lt; exact HL). cbn [bind]. rewrite Hne. cbn [bind].
  destruct (max_key_ex _ _ lp Hnn) as (mx & Emx). rewrite Emx. cbn [olt].
  assert (Hmx: mx < k). { rewrite Forall_forall in Hlt. apply Hlt. now apply max_key_In_content. }
  replace (mx <? k) with true by (symmetry; apply N.ltb_lt; assumption). cbn [bind].
  rewrite content_eq in Hso, Hlt. unfold Spec.sorted in Hso. rewrite keys_app in Hso, Hlt. apply SS_app in Hso as (_ & Sh & _). apply Forall_app in Hlt as (_ & Hlth).
  destruct (split_opt_full digest V lvl_of true H k (plvl lp) (phigh lp) eq_refl Hsh Sh) as (hlt & gte & E & Hc & Hl & Hr & Sl & Sr & _ & _ & Hid).
  { intros Hin. rewrite Forall_forall in Hlth. specialize (Hlth _ Hin). lia. }
  rewrite E. cbn [bind].
  assert (gte = None) as ->.
  { destruct gte as [g|]; [|reflexivity]. exfalso. cbn [Spec.shape_opt] in Sr. apply shape_content_nonempty in Sr.
    cbn [Spec.content_opt] in Hr, Hc. destruct (content g) as [|[x y] rest] eqn:Eg; [congruence|].
    rewrite keys_cons in Hr. inversion Hr; subst. cbn [fst] in *.
    assert (Hin: In x (keys (content_opt (phigh lp)))). { rewrite <- Hc, keys_app, in_app_iff. right. rewrite keys_cons. now left. }
    rewrite Forall_forall in Hlth. specialize (Hlth _ Hin). lia. }
  rewrite (Hid eq_refl). cbn [bind]. destruct lp; reflexivity.
Qed.

(* ---------- upsert_node ---------- *)
Ltac split4 := split; [|split; [|split]].
Ltac norm_app := repeat (rewrite <- app_assoc || rewrite <- app_comm_cons); cbn [app].

Lemma sorted_mid a k b : StronglySorted N.lt (a ++ k :: b) ->
  Forall (fun x => x < k) a /\ Forall (fun x => k < x) b.
Proof.
  intros HS. apply SS_app in HS as (_ & S2 & S3). inversion S2; subst. split; [|assumption].
  rewrite Forall_forall. intros x Hx. apply S3; [exact Hx|now left].
Qed.

Lemma upsert_node_go_spec lvl c hp k v : lvl_of k = lvl -> forall ns pre,
  shape_nodes lvl (rev pre ++ ns) -> shape_opt lvl hp ->
  sorted (content_nodes (rev pre ++ ns) ++ content_opt hp) ->
  cache_ok_nodes (rev pre ++ ns) -> cache_ok_opt hp ->
  Forall (fun x => x < k) (keys (content_nodes (rev pre))) ->
  exists p', upsert_node_go lvl c hp k v pre ns = Ok p' /\
    content p' = ins k v (content_nodes (rev pre ++ ns) ++ content_opt hp) /\
    plvl p' = lvl /\ pnodes p' <> [] /\ shape_nodes lvl (pnodes p') /\ shape_opt lvl (phigh p') /\
    cache_ok_nodes (pnodes p') /\ cache_ok_opt (phigh p').
Proof.
  intros Hlv. induction ns as [|n r IH]; intros pre Hsn Hsh Hso Hcn Hch Hpre.
  - (* insert at the end: split the high page *)
    rewrite app_nil_r in *. cbn [TreeM.upsert_node_go].
    unfold Spec.sorted in Hso. rewrite keys_app in Hso. apply SS_app in Hso as (S1 & S2 & S3).
    assert (Hk: ~ In k (keys (content_opt hp))).
    { intros Hin. (* every key of hp is greater than all node keys; k's level equals lvl but hp keys have lower level *)
      destruct hp as [h|]; [|exact Hin]. cbn [Spec.shape_opt Spec.content_opt] in *.
      destruct (shape_key_levels h lvl Hsh) as (Hkl & _). rewrite Forall_forall in Hkl. specialize (Hkl _ Hin).
      apply shape_eq in Hsh. destruct Hsh as (Hl & _). lia. }
    destruct (split_opt_full digest V lvl_of true H k lvl hp eq_refl Hsh S2 Hk) as (lt & rest & E & Hc & Hl & Hr & Sl & Sr & HC & _ & _).
    rewrite E. cbn [bind].
    assert (Slt: sorted (content_opt lt)).
    { unfold Spec.sorted. rewrite <- Hc, keys_app in S2. apply SS_app in S2. tauto. }
    rewrite (resplit_high_id lvl lt k _ _ _ _ _ _ Sl Slt Hl). cbn [bind TreeM.pcache TreeM.phigh].
    eexists. split; [reflexivity|]. destruct (HC Hch) as (Cl & Cr).
    split.
    { rewrite content_eq. cbn [TreeM.pnodes TreeM.phigh]. rewrite content_nodes_app. cbn [Spec.content_nodes TreeM.nlt TreeM.nkey TreeM.nval].
      rewrite ins_app_lt by exact Hpre. rewrite <- Hc. rewrite ins_mid by assumption.
      rewrite <- !app_assoc. cbn [app]. reflexivity. }
    split; [reflexivity|]. cbn [TreeM.pnodes TreeM.phigh].
    split; [intros E0; apply (f_equal (@length _)) in E0; rewrite app_length in E0; cbn in E0; lia|].
    split; [apply shape_nodes_app; split; [exact Hsn|cbn; auto]|].
    split; [exact Sr|]. split; [apply cache_ok_nodes_app; split; [exact Hcn|cbn; auto]|exact Cr].
  - cbn [TreeM.upsert_node_go]. destruct (k <=? nkey n) eqn:Ek.
    + apply N.leb_le in Ek.
      rewrite content_nodes_app in Hso. cbn [Spec.content_nodes] in Hso.
      unfold Spec.sorted in Hso. rewrite !keys_app, keys_cons in Hso. cbn [fst] in Hso.
      pose proof Hso as Hso0.
      apply SS_app in Hso as (S1 & S2 & S3). apply SS_app in S1 as (S1a & S1b & S1c). apply SS_app in S1b as (Slt & Srest & Sx).
      apply shape_nodes_app in Hsn as (Shpre & Shn). cbn [Spec.shape_nodes] in Shn. destruct Shn as (Hnl & Shlt & Shr).
      apply cache_ok_nodes_app in Hcn as (Cpre & Cn). cbn [Spec.cache_ok_nodes] in Cn. destruct Cn as (Clt & Cr).
      destruct (nkey n =? k) eqn:Eeq.
      * (* update in place *)
        apply N.eqb_eq in Eeq. eexists. split; [reflexivity|].
        split.
        { rewrite content_eq. cbn [TreeM.pnodes TreeM.phigh]. rewrite !content_nodes_app. cbn [Spec.content_nodes].
          destruct n as [nk nv nl]. cbn [TreeM.set_val TreeM.nlt TreeM.nkey TreeM.nval] in *. subst nk.
          rewrite <- !app_assoc. rewrite ins_app_lt by exact Hpre. rewrite ins_app_lt.
          - cbn [app]. rewrite ins_eq. reflexivity.
          - rewrite Forall_forall. intros x Hx. apply Sx; [exact Hx|now left]. }
        split; [reflexivity|]. cbn [TreeM.pnodes TreeM.phigh].
        split; [intros E0; apply (f_equal (@length _)) in E0; rewrite app_length in E0; cbn in E0; lia|].
        split; [apply shape_nodes_app; split; [exact Shpre|destruct n; cbn in *; auto]|].
        split; [exact Hsh|]. split; [apply cache_ok_nodes_app; split; [exact Cpre|destruct n; cbn in *; auto]|exact Hch].
      * (* new key before n: split n's lt child *)
        apply N.eqb_neq in Eeq. assert (Hkn: k < nkey n) by lia.
        assert (Hk: ~ In k (keys (content_opt (nlt n)))).
        { intros Hin. destruct (nlt n) as [q|]; [|exact Hin]. cbn [Spec.shape_opt Spec.content_opt] in *.
          destruct (shape_key_levels q lvl Shlt) as (Hkl & _). rewrite Forall_forall in Hkl. specialize (Hkl _ Hin).
          apply shape_eq in Shlt. destruct Shlt as (Hl & _). lia. }
        destruct (split_opt_full digest V lvl_of true H k lvl (nlt n) eq_refl Shlt Slt Hk) as (lt & rem & E & Hc & Hl & Hr & Sl & Sr & HC & _ & _).
        rewrite E. cbn [bind].
        assert (Slt': sorted (content_opt lt)).
        { unfold Spec.sorted. rewrite <- Hc, keys_app in Slt. apply SS_app in Slt. tauto. }
        rewrite (resplit_high_id lvl lt k _ _ _ _ _ _ Sl Slt' Hl). cbn [bind TreeM.pcache TreeM.phigh].
        eexists. split; [reflexivity|]. destruct (HC Clt) as (Cl & Crem).
        split.
        { rewrite content_eq. cbn [TreeM.pnodes TreeM.phigh]. rewrite !content_nodes_app. cbn [Spec.content_nodes TreeM.nlt TreeM.nkey TreeM.nval].
          destruct n as [nk nv nl]. cbn [TreeM.set_lt TreeM.nlt TreeM.nkey TreeM.nval] in *.
          transitivity (content_nodes (rev pre) ++ content_opt lt ++ (k, v) :: (content_opt rem ++ (nk, nv) :: content_nodes r ++ content_opt hp)).
          { norm_app. reflexivity. }
          rewrite <- Hc. norm_app. rewrite ins_app_lt by exact Hpre. rewrite ins_app_lt by exact Hl. rewrite ins_gt; [reflexivity|].
          rewrite keys_app, Forall_app. split; [exact Hr|]. rewrite keys_cons. cbn [fst]. constructor; [exact Hkn|].
          rewrite keys_app, Forall_app. split.
          - inversion Srest; subst. rewrite Forall_forall in *. intros x Hx. specialize (H3 x Hx). lia.
          - rewrite Forall_forall. intros x Hx. assert (nk < x); [|lia]. apply S3; [|exact Hx].
            rewrite !in_app_iff. right. right. now left. }
        split; [reflexivity|]. cbn [TreeM.pnodes TreeM.phigh].
        split; [intros E0; apply (f_equal (@length _)) in E0; rewrite app_length in E0; cbn in E0; lia|].
        split; [apply shape_nodes_app; split; [exact Shpre|destruct n; cbn in *; auto]|].
        split; [exact Hsh|]. split; [apply cache_ok_nodes_app; split; [exact Cpre|destruct n; cbn in *; auto]|exact Hch].
    + apply N.leb_gt in Ek.
      assert (Ere: rev (n :: pre) ++ r = rev pre ++ n :: r). { cbn [rev]. rewrite <- app_assoc. reflexivity. }
      rewrite <- Ere in *. apply IH; auto.
      rewrite Ere in Hso. cbn [rev]. rewrite content_nodes_app, keys_app, Forall_app. split; [exact Hpre|].
      cbn [Spec.content_nodes]. rewrite keys_app, Forall_app. split; [|rewrite keys_cons; cbn [fst]; constructor; [exact Ek|unfold keys; constructor]].
      rewrite Forall_forall. intros x Hx.
      unfold Spec.sorted in Hso. rewrite content_nodes_app in Hso. cbn [Spec.content_nodes] in Hso. rewrite !keys_app, keys_cons in Hso. cbn [fst] in Hso.
      apply SS_app in Hso as (S1 & _ & _). apply SS_app in S1 as (_ & S1b & _).
      apply SS_app in S1b as (_ & _ & Sx). specialize (Sx x (nkey n) Hx ltac:(now left)). lia.
Qed.

(* ---------- insert_intermediate_page ---------- *)
Lemma shape_relevel L L' (p : page) : shape L p -> plvl p < L' -> shape L' p.
Proof. rewrite !shape_eq. intros (_ & A) Hl. split; assumption. Qed.

Lemma insert_intermediate_spec L0 child k level v :
  shape L0 child -> plvl child < level -> lvl_of k = level ->
  sorted (content child) -> ~ In k (keys (content child)) -> cache_ok child ->
  exists p', insert_intermediate child k level v = Ok p' /\
    content p' = ins k v (content child) /\ plvl p' = level /\ shape (N.succ level) p' /\
    cache_ok p' /\ pcache p' = None.
Proof.
  intros Hs Hl Hlv Hso Hk Hc. unfold TreeM.insert_intermediate.
  unfold assert. replace (plvl child <? level) with true by (symmetry; apply N.ltb_lt; exact Hl). cbn [bind].
  rewrite (shape_nonempty _ _ _ _ _ Hs). cbn [bind].
  pose proof (shape_relevel _ level _ Hs Hl) as Hs'.
  destruct (split_opt_full digest V lvl_of true H k level (Some child) eq_refl Hs' Hso Hk) as (lt & rest & E & Hcc & Hlt & Hgt & Sl & Sr & HC & _ & _).
  cbn [TreeM.split_opt TreeM.orec] in E. rewrite E. cbn [bind].
  cbn [Spec.content_opt] in Hcc, Hso.
  assert (Slt: sorted (content_opt lt)).
  { unfold Spec.sorted in *. rewrite <- Hcc, keys_app in Hso. apply SS_app in Hso. tauto. }
  rewrite (resplit_high_id level lt k _ _ _ _ _ _ Sl Slt Hlt). cbn [bind TreeM.pcache TreeM.phigh].
  destruct (HC Hc) as (Cl & Cr).
  assert (Ehp: exists hp', match rest with
            | None => Ok None
            | Some old => do a <- (if ogt (max_key old) k then Ok tt else Panic 633);
                          do b <- (if plvl old <? level then Ok tt else Panic 634); Ok (Some old)
            end = Ok hp' /\ hp' = rest).
  { destruct rest as [old|]; [|eexists; split; reflexivity]. cbn [Spec.shape_opt Spec.content_opt] in *.
    pose proof Sr as Sr'. apply shape_eq in Sr' as (Hol & Hne & _).
    destruct (max_key_ex _ _ old Hne) as (mx & Emx). rewrite Emx. cbn [ogt].
    assert (k < mx). { rewrite Forall_forall in Hgt. apply Hgt. now apply max_key_In_content. }
    replace (k <? mx) with true by (symmetry; apply N.ltb_lt; assumption). cbn [bind].
    replace (plvl old <? level) with true by (symmetry; apply N.ltb_lt; assumption). cbn [bind].
    eexists; split; reflexivity. }
  destruct Ehp as (hp' & -> & ->). cbn [bind].
  eexists. split; [reflexivity|].
  split.
  { rewrite content_eq. cbn [TreeM.pnodes TreeM.phigh Spec.content_nodes TreeM.nlt TreeM.nkey TreeM.nval].
    rewrite <- Hcc. rewrite ins_mid by assumption. norm_app. reflexivity. }
  split; [reflexivity|].
  split.
  { apply shape_eq. cbn [TreeM.plvl TreeM.pnodes TreeM.phigh]. split; [lia|]. split; [congruence|].
    split; [cbn; auto|exact Sr]. }
  split; [|reflexivity].
  apply cache_ok_eq. cbn [TreeM.pcache TreeM.pnodes TreeM.phigh]. split; [exact I|]. split; [cbn; auto|exact Cr].
Qed.

(* ---------- Page::upsert ---------- *)
Section Descend.
Variables (k level : N) (v : V).
Hypothesis Hlv : lvl_of k = level.

Definition UPr (L : N) (q : page) (r : upres) : Prop :=
  match r with
  | Complete _ _ q' => level <= plvl q /\ content q' = ins k v (content q) /\ shape L q' /\ cache_ok q' /\
                       plvl q' = plvl q /\ pcache q' = None
  | InsertIntermediate _ _ => plvl q < level
  end.
Definition UP (rec : page -> N -> N -> V -> res upres) (q : page) : Prop :=
  forall L, shape L q -> sorted (content q) -> cache_ok q ->
  exists r, rec q k level v = Ok r /\ UPr L q r.
Definition UPo rec (o : option page) : Prop := match o with Some q => UP rec q | None => True end.

Lemma child_upsert_spec rec lvl o : level < lvl ->
  UPo rec o -> shape_opt lvl o -> sorted (content_opt o) -> cache_ok_opt o ->
  exists q', child_upsert rec k level v o = Ok (Some q') /\
    content q' = ins k v (content_opt o) /\ shape lvl q' /\ cache_ok q'.
Proof.
  intros Hll HU Hs Hso Hc. destruct o as [ch|]; cbn [TreeM.child_upsert].
  - cbn [UPo Spec.shape_opt Spec.content_opt Spec.cache_ok_opt] in *.
    destruct (HU lvl Hs Hso Hc) as (r & E & Hr). rewrite E. cbn [bind].
    destruct r as [ch'|]; cbn [UPr] in Hr.
    + destruct Hr as (_ & A & B & C & _). eexists. split; [reflexivity|]. auto.
    + assert (Hk: ~ In k (keys (content ch))).
      { intros Hin. destruct (shape_key_levels ch lvl Hs) as (Hkl & _). rewrite Forall_forall in Hkl. specialize (Hkl _ Hin). lia. }
      destruct (insert_intermediate_spec lvl ch k level v Hs Hr Hlv Hso Hk Hc) as (p' & E' & A & B & C & D & _).
      rewrite E'. cbn [bind]. eexists. split; [reflexivity|]. split; [exact A|]. split; [|exact D].
      apply (shape_relevel _ lvl _ C). lia.
  - eexists. split; [reflexivity|]. cbn [Spec.content_opt ins]. split; [reflexivity|]. split.
    + apply shape_eq. cbn. repeat split; auto; congruence.
    + apply cache_ok_eq. cbn. auto.
Qed.

Lemma upsert_descend_spec rec lvl hp L : level < lvl -> lvl < L -> forall ns pre,
  Forall (fun n => UPo rec (nlt n)) ns -> UPo rec hp ->
  rev pre ++ ns <> [] ->
  shape_nodes lvl (rev pre ++ ns) -> shape_opt lvl hp ->
  sorted (content_nodes (rev pre ++ ns) ++ content_opt hp) ->
  cache_ok_nodes (rev pre ++ ns) -> cache_ok_opt hp ->
  Forall (fun x => x < k) (keys (content_nodes (rev pre))) ->
  exists q', upsert_descend rec lvl hp k level v pre ns = Ok (Complete _ _ q') /\
    content q' = ins k v (content_nodes (rev pre ++ ns) ++ content_opt hp) /\
    shape L q' /\ cache_ok q' /\ plvl q' = lvl /\ pcache q' = None.
Proof.
  intros Hll HlL. induction ns as [|n r IH]; intros pre Hrec Hhp Hne Hsn Hsh Hso Hcn Hch Hpre.
  - rewrite app_nil_r in *. cbn [TreeM.upsert_descend].
    unfold Spec.sorted in Hso. rewrite keys_app in Hso. apply SS_app in Hso as (S1 & S2 & S3).
    destruct (child_upsert_spec rec lvl hp Hll Hhp Hsh S2 Hch) as (q' & E & A & B & C). rewrite E. cbn [bind].
    eexists. split; [reflexivity|]. split.
    { rewrite content_eq. cbn [TreeM.pnodes TreeM.phigh Spec.content_opt]. rewrite A. rewrite ins_app_lt by exact Hpre. reflexivity. }
    split; [apply shape_eq; cbn [TreeM.plvl TreeM.pnodes TreeM.phigh]; repeat split; auto|].
    split; [apply cache_ok_eq; cbn [TreeM.pcache TreeM.pnodes TreeM.phigh]; repeat split; auto|]. split; reflexivity.
  - cbn [TreeM.upsert_descend]. inversion Hrec as [|? ? Hn Hr']; subst. destruct (k <=? nkey n) eqn:Ek.
    + apply N.leb_le in Ek.
      rewrite content_nodes_app in Hso. cbn [Spec.content_nodes] in Hso.
      unfold Spec.sorted in Hso. rewrite !keys_app, keys_cons in Hso. cbn [fst] in Hso.
      apply SS_app in Hso as (S1 & S2 & S3). apply SS_app in S1 as (S1a & S1b & S1c). apply SS_app in S1b as (Slt & Srest & Sx).
      apply shape_nodes_app in Hsn as (Shpre & Shn). cbn [Spec.shape_nodes] in Shn. destruct Shn as (Hnl & Shlt & Shr).
      apply cache_ok_nodes_app in Hcn as (Cpre & Cn). cbn [Spec.cache_ok_nodes] in Cn. destruct Cn as (Clt & Cr).
      assert (Hkn: k < nkey n). { assert (k <> nkey n); [intros ->; lia|lia]. }
      unfold assert. replace (k <? nkey n) with true by (symmetry; apply N.ltb_lt; exact Hkn). cbn [bind].
      destruct (child_upsert_spec rec lvl (nlt n) Hll Hn Shlt Slt Clt) as (q' & E & A & B & C). rewrite E. cbn [bind].
      eexists. split; [reflexivity|]. split.
      { rewrite content_eq. cbn [TreeM.pnodes TreeM.phigh]. rewrite !content_nodes_app. cbn [Spec.content_nodes].
        destruct n as [nk nv nl]. cbn [TreeM.set_lt TreeM.nlt TreeM.nkey TreeM.nval Spec.content_opt] in *.
        rewrite A. norm_app. rewrite ins_app_lt by exact Hpre. f_equal.
        rewrite ins_app_gt; [reflexivity|].
        rewrite keys_cons. cbn [fst]. constructor; [exact Hkn|].
        rewrite keys_app, Forall_app. split.
        - inversion Srest; subst. rewrite Forall_forall in *. intros x Hx. specialize (H3 x Hx). lia.
        - rewrite Forall_forall. intros x Hx. assert (nk < x); [|lia]. apply S3; [|exact Hx].
          rewrite !in_app_iff. right. right. now left. }
      split.
      { apply shape_eq. cbn [TreeM.plvl TreeM.pnodes TreeM.phigh]. split; [exact HlL|].
        split; [intros E0; apply (f_equal (@length _)) in E0; rewrite app_length in E0; cbn in E0; lia|].
        split; [apply shape_nodes_app; split; [exact Shpre|destruct n; cbn in *; auto]|exact Hsh]. }
      split; [|split; reflexivity].
      apply cache_ok_eq. cbn [TreeM.pcache TreeM.pnodes TreeM.phigh]. split; [exact I|].
      split; [apply cache_ok_nodes_app; split; [exact Cpre|destruct n; cbn in *; auto]|exact Hch].
    + apply N.leb_gt in Ek.
      assert (Ere: rev (n :: pre) ++ r = rev pre ++ n :: r). { cbn [rev]. rewrite <- app_assoc. reflexivity. }
      rewrite <- Ere in *. apply IH; auto.
      rewrite Ere in Hso. cbn [rev]. rewrite content_nodes_app, keys_app, Forall_app. split; [exact Hpre|].
      cbn [Spec.content_nodes]. rewrite keys_app, Forall_app. split; [|rewrite keys_cons; cbn [fst]; constructor; [exact Ek|unfold keys; constructor]].
      rewrite Forall_forall. intros x Hx.
      unfold Spec.sorted in Hso. rewrite content_nodes_app in Hso. cbn [Spec.content_nodes] in Hso. rewrite !keys_app, keys_cons in Hso. cbn [fst] in Hso.
      apply SS_app in Hso as (S1 & _ & _). apply SS_app in S1 as (_ & S1b & _).
      apply SS_app in S1b as (_ & _ & Sx). specialize (Sx x (nkey n) Hx ltac:(now left)). lia.
Qed.

Theorem upsert_page_spec : forall p, UP upsert_page p.
Proof.
  induction p as [lvl c ns hp IHns IHhp] using (page_ind' digest V).
  intros L Hs Hso Hc. cbn [TreeM.upsert_page].
  pose proof Hs as Hs0. apply shape_eq in Hs. cbn [TreeM.plvl TreeM.pnodes TreeM.phigh] in Hs. destruct Hs as (HL & Hne & Hsn & Hsh).
  pose proof Hc as Hc0. apply cache_ok_eq in Hc. cbn [TreeM.pcache TreeM.pnodes TreeM.phigh] in Hc. destruct Hc as (_ & Hcn & Hch).
  rewrite content_eq in Hso. cbn [TreeM.pnodes TreeM.phigh] in Hso.
  destruct (level <? lvl) eqn:E1.
  - apply N.ltb_lt in E1.
    destruct (shape_key_levels _ _ Hs0) as (_ & H255). cbn [TreeM.plvl] in H255.
    unfold assert. replace (lvl =? 255) with false by (symmetry; apply N.eqb_neq; lia). cbn [negb bind].
    rewrite (shape_nonempty _ _ _ _ _ Hs0). cbn [bind].
    destruct (upsert_descend_spec upsert_page lvl hp L E1 HL ns [] IHns IHhp Hne Hsn Hsh Hso Hcn Hch) as (q' & E & A & B & C & D & F).
    { unfold keys. constructor. }
    rewrite E. eexists. split; [reflexivity|]. cbn [UPr TreeM.plvl]. cbn [rev app] in A.
    split; [lia|]. split; [rewrite (content_eq (Page lvl c ns hp)); cbn [TreeM.pnodes TreeM.phigh]; exact A|]. split; [exact B|]. split; [exact C|]. split; [exact D|exact F].
  - apply N.ltb_ge in E1. destruct (level =? lvl) eqn:E2.
    + apply N.eqb_eq in E2. subst lvl. cbn [TreeM.upsert_node].
      destruct (upsert_node_go_spec level c hp k v Hlv ns [] Hsn Hsh Hso Hcn Hch) as (p' & E & A & B & C & D & F & G & I).
      { unfold keys. constructor. }
      rewrite E. cbn [bind]. eexists. split; [reflexivity|]. cbn [UPr TreeM.plvl].
      split; [lia|]. split.
      { cbn [rev app] in A. rewrite (content_eq (Page level c ns hp)). cbn [TreeM.pnodes TreeM.phigh]. rewrite <- A.
        rewrite !content_eq. reflexivity. }
      split; [apply shape_eq; cbn [TreeM.plvl TreeM.pnodes TreeM.phigh]; rewrite B; repeat split; auto|].
      split; [apply cache_ok_eq; cbn [TreeM.pcache TreeM.pnodes TreeM.phigh]; repeat split; auto|]. split; [exact B|reflexivity].
    + apply N.eqb_neq in E2. eexists. split; [reflexivity|]. cbn [UPr TreeM.plvl]. lia.
Qed.
End Descend.
End Upsert.
