From MST Require Import Base TreeM Spec.

Section SplitSpec.
Variable digest V : Type.
Variable lvl_of : N -> N.
Variable fixed : bool.

Notation page := (page digest V).
Notation node := (node digest V).
Notation Page := (Page digest V).
Notation plvl := (plvl digest V). Notation pnodes := (pnodes digest V).
Notation phigh := (phigh digest V). Notation pcache := (pcache digest V).
Notation nkey := (nkey digest V). Notation nval := (nval digest V). Notation nlt := (nlt digest V).
Notation set_lt := (set_lt digest V).
Notation ret2 := (ret2 digest V).
Notation orec := (orec digest V).
Notation split_go := (split_go digest V fixed).
Notation split_page := (split_page digest V fixed).
Notation max_key := (max_key digest V). Notation min_key := (min_key digest V).
Notation nonempty := (nonempty digest V).
Notation insert_high_page := (insert_high_page digest V).
Notation content := (content digest V). Notation content_opt := (content_opt digest V).
Notation content_nodes := (content_nodes digest V).
Notation shape := (shape digest V lvl_of). Notation shape_opt := (shape_opt digest V lvl_of).
Notation shape_nodes := (shape_nodes digest V lvl_of).
Notation sorted := (sorted V).
Notation shape_eq := (shape_eq digest V lvl_of).
Notation content_eq := (content_eq digest V).
Notation content_nodes_app := (content_nodes_app digest V).
Notation shape_nodes_app := (shape_nodes_app digest V lvl_of).
Notation In_nkey_content := (In_nkey_content digest V).
Notation max_key_In := (max_key_In digest V). Notation max_key_ex := (max_key_ex digest V).
Notation min_key_In := (min_key_In digest V). Notation max_key_In_content := (max_key_In_content digest V).
Notation shape_nonempty := (shape_nonempty digest V lvl_of). Notation min_key_ex := (min_key_ex digest V).
Notation shape_mono := (shape_mono digest V lvl_of). Notation shape_opt_mono := (shape_opt_mono digest V lvl_of).
Notation page_ind' := (page_ind' digest V).

Definition SPEC (rec : page -> N -> ret2) (k : N) (q : page) : Prop :=
  forall L, shape L q -> sorted (content q) -> ~ In k (keys (content q)) ->
  exists l r, rec q k = Ok (l, r) /\
    content_opt l ++ content_opt r = content q /\
    Forall (fun x => x < k) (keys (content_opt l)) /\
    Forall (fun x => k < x) (keys (content_opt r)) /\
    shape_opt (N.succ (plvl q)) l /\ shape_opt (N.succ (plvl q)) r.

Definition SPECo rec k (o : option page) := match o with None => True | Some q => SPEC rec k q end.




Lemma orec_spec rec k o L :
  SPECo rec k o -> shape_opt L o -> sorted (content_opt o) -> ~ In k (keys (content_opt o)) ->
  exists l r, orec rec o k = Ok (l, r) /\
    content_opt l ++ content_opt r = content_opt o /\
    Forall (fun x => x < k) (keys (content_opt l)) /\
    Forall (fun x => k < x) (keys (content_opt r)) /\
    shape_opt L l /\ shape_opt L r /\ (o = None -> l = None /\ r = None).
Proof.
  destruct o as [q|]; simpl.
  - intros HS Hsh Hso Hk. destruct (HS L Hsh Hso Hk) as (l & r & E & Hc & Hl & Hr & Sl & Sr).
    exists l, r. repeat split; auto.
    + eapply shape_opt_mono; [|exact Sl]. rewrite shape_eq in Hsh. lia.
    + eapply shape_opt_mono; [|exact Sr]. rewrite shape_eq in Hsh. lia.
    + discriminate. + discriminate.
  - intros. exists None, None. unfold keys. simpl. repeat split; auto.
Qed.











Ltac inv H := inversion H; subst; clear H.
Ltac norm_app := repeat (rewrite <- app_assoc || rewrite <- app_comm_cons); cbn [app].
Ltac split5 := split; [|split; [|split; [|split]]].

Lemma split_go_spec rec lvl c hp k : forall ns pre,
  Forall (fun n => SPECo rec k (nlt n)) ns -> SPECo rec k hp ->
  shape_nodes lvl (rev pre ++ ns) -> shape_opt lvl hp ->
  rev pre ++ ns <> [] ->
  sorted (content_nodes (rev pre ++ ns) ++ content_opt hp) ->
  ~ In k (keys (content_nodes (rev pre ++ ns) ++ content_opt hp)) ->
  Forall (fun x => x < k) (keys (content_nodes (rev pre))) ->
  exists l r, split_go rec lvl c hp k pre ns = Ok (l, r) /\
    content_opt l ++ content_opt r = content_nodes (rev pre ++ ns) ++ content_opt hp /\
    Forall (fun x => x < k) (keys (content_opt l)) /\
    Forall (fun x => k < x) (keys (content_opt r)) /\
    shape_opt (N.succ lvl) l /\ shape_opt (N.succ lvl) r.
Proof.
  induction ns as [|n rest IH]; intros pre Hrec Hhp Hsh Hshh Hne Hso Hk Hpre.
  - (* all nodes lt *)
    rewrite app_nil_r in *. simpl.
    destruct pre as [|n0 pre']; [simpl in Hne; congruence|].
    assert (Hn0: nkey n0 < k).
    { rewrite Forall_forall in Hpre. apply Hpre. apply In_nkey_content. apply in_rev. rewrite rev_involutive. now left. }
    unfold olt, assert. apply N.ltb_lt in Hn0. rewrite Hn0. simpl.
    unfold sorted in Hso. rewrite keys_app in Hso, Hk. apply SS_app in Hso as (S1 & S2 & S3).
    rewrite in_app_iff in Hk.
    destruct (orec_spec rec k hp lvl Hhp Hshh S2 ltac:(tauto)) as (lth & hp' & E & Hc & Hl & Hr & Sl & Sr & _).
    rewrite E. simpl.
    eexists _, _. split; [reflexivity|]. split5.
    + unfold content_opt at 1. rewrite content_eq. cbn [pnodes phigh]. rewrite <- app_assoc, Hc. reflexivity.
    + unfold content_opt. rewrite content_eq. cbn [pnodes phigh]. 
      rewrite keys_app, Forall_app. split; auto.
    + auto.
    + unfold shape_opt. apply shape_eq. cbn [plvl pnodes phigh]. split; [lia|]. split; [|split; auto].
      simpl. intros E0. apply (f_equal (@length _)) in E0. rewrite app_length in E0. simpl in E0. lia.
    + eapply shape_opt_mono; [|exact Sr]. lia.
  - simpl. destruct (k <=? nkey n) eqn:Ek.
    + (* partition here *)
      apply N.leb_le in Ek.
      assert (Hkn: k < nkey n).
      { assert (k <> nkey n); [|lia]. intros ->. apply Hk. rewrite keys_app, in_app_iff. left.
        apply In_nkey_content. rewrite in_app_iff. right. now left. }
      inv Hrec. rename H1 into Hn. rename H2 into Hrest.
      rewrite content_nodes_app in Hso, Hk. cbn [content_nodes] in Hso, Hk.
      unfold sorted in Hso. rewrite !keys_app, keys_cons in Hso, Hk. cbn [fst] in Hso, Hk.
      apply SS_app in Hso as (S1 & S2 & S3). apply SS_app in S1 as (S1a & S1b & S1c).
      apply SS_app in S1b as (Slt & Srest & Sx).
      rewrite !in_app_iff in Hk. cbn [In] in Hk.
      apply shape_nodes_app in Hsh as (Shpre & Shn). simpl in Shn. destruct Shn as (Hlvl & Shlt & Shrest).
      destruct (orec_spec rec k (nlt n) lvl Hn Shlt Slt ltac:(tauto)) as (l & newlt & E & Hc & Hl & Hr & Sl & Sr & _).
      assert (Hgt_rest: Forall (fun x => k < x) (keys (content_nodes rest))).
      { rewrite Forall_forall. intros x Hx. inv Srest. rewrite Forall_forall in H2. specialize (H2 x Hx). lia. }
      assert (Hgt_hp: Forall (fun x => k < x) (keys (content_opt hp))).
      { rewrite Forall_forall. intros x Hx. specialize (S3 (nkey n) x). 
        assert (nkey n < x); [apply S3; auto|lia]. rewrite !in_app_iff. right. right. simpl. auto. }
      destruct pre as [|p0 pre'].
      * (* idx = 0 *)
        apply N.ltb_lt in Hkn. unfold assert. rewrite Hkn. simpl. rewrite E. simpl.
        assert (Hr': Forall (fun x => k < x) (keys (content_opt newlt ++ (nkey n, nval n) :: content_nodes rest ++ content_opt hp))).
        { rewrite keys_app, Forall_app. split; auto. rewrite keys_cons. cbn [fst]. constructor; [now apply N.ltb_lt|]. rewrite keys_app, Forall_app. auto. }
        assert (Hsh': shape (N.succ lvl) (Page lvl None (set_lt n newlt :: rest) hp) /\ shape (N.succ lvl) (Page lvl c (set_lt n newlt :: rest) hp)).
        { split; rewrite shape_eq; simpl; repeat split; try lia; try congruence; destruct n; simpl in *; auto. }
        assert (Hcc: forall cc, content (Page lvl cc (set_lt n newlt :: rest) hp) = content_opt newlt ++ (nkey n, nval n) :: content_nodes rest ++ content_opt hp).
        { intros. rewrite content_eq. simpl. destruct n; simpl. rewrite <- app_assoc. reflexivity. }
        destruct Hsh' as [Hsh1 Hsh2].
        destruct l as [v|]; eexists _, _; (split; [reflexivity|]); cbn [content_opt]; rewrite Hcc; (split5; [| auto | auto | | auto]).
        -- cbn [content_opt] in Hc. rewrite <- Hc. cbn [rev app content_nodes]. rewrite <- !app_assoc. reflexivity.
        -- eapply shape_opt_mono; [|exact Sl]. lia.
        -- cbn [content_opt] in Hc. rewrite <- Hc. cbn [rev app content_nodes]. rewrite <- !app_assoc. reflexivity.
        -- exact I.
      * (* middle *)
        assert (Hp0: nkey p0 < k).
        { rewrite Forall_forall in Hpre. apply Hpre. apply In_nkey_content. apply in_rev. rewrite rev_involutive. now left. }
        assert (Erp: rev (p0 :: pre') <> []). { simpl. intros E0. apply (f_equal (@length _)) in E0. rewrite app_length in E0. simpl in E0. lia. }
        remember (rev (p0 :: pre')) as RP eqn:ERP. clear ERP Hp0.
        (* assert 450 *)
        destruct (max_key_ex (Page lvl None (n :: rest) None)) as (mx & Emx); [simpl; congruence|].
        assert (Hmx: k < mx).
        { destruct (max_key_In _ _ Emx) as (m & Hm & <-). simpl in Hm. destruct Hm as [<-|Hm]; [lia|].
          rewrite Forall_forall in Hgt_rest. apply Hgt_rest. now apply In_nkey_content. }
        rewrite Emx. unfold ogt at 1. apply N.ltb_lt in Hmx. unfold assert at 1. rewrite Hmx. simpl.
        (* high page *)
        assert (Ehp: exists g1, match hp with
                       | None => Ok (Page lvl None (n :: rest) None)
                       | Some h => do u2 <- assert (nonempty h) 455; do u3 <- assert (plvl h <? lvl) 456;
                                   do u4 <- assert (ogt (min_key h) k) 457; insert_high_page (Page lvl None (n :: rest) None) h
                       end = Ok g1 /\ phigh g1 = hp).
        { destruct hp as [h|]; [|eexists; split; reflexivity].
          simpl in Hshh. pose proof (shape_nonempty _ _ Hshh) as Hneh. rewrite Hneh. simpl.
          rewrite shape_eq in Hshh. destruct Hshh as (Hl1 & _). apply N.ltb_lt in Hl1. rewrite Hl1. simpl.
          destruct (min_key_ex _ Hneh) as (mn & Emn). rewrite Emn. simpl.
          assert (k < mn). { rewrite Forall_forall in Hgt_hp. apply Hgt_hp. simpl. now apply min_key_In. }
          apply N.ltb_lt in H. rewrite H. simpl. unfold insert_high_page. simpl. rewrite Hneh. simpl.
          eexists; split; reflexivity. }
        destruct Ehp as (g1 & -> & Eg1). simpl. rewrite E. simpl. rewrite Eg1.
        unfold nonempty at 1. simpl pnodes.
        destruct RP as [|r0 rr] eqn:Erev; [congruence|]. simpl.
        destruct (max_key_ex (Page lvl None (r0 :: rr) None)) as (ml & Eml); [simpl; congruence|].
        assert (Hml: ml < k).
        { destruct (max_key_In _ _ Eml) as (m & Hm & <-). simpl pnodes in Hm.
          rewrite Forall_forall in Hpre. apply Hpre. now apply In_nkey_content. }
        rewrite Eml. unfold olt at 1. apply N.ltb_lt in Hml. rewrite Hml. simpl.
        assert (Hsh_gte: shape (N.succ lvl) (Page lvl None (set_lt n newlt :: rest) hp)).
        { rewrite shape_eq; simpl; repeat split; try lia; try congruence; destruct n; simpl in *; auto. }
        assert (Hcc: content (Page lvl None (set_lt n newlt :: rest) hp) = content_opt newlt ++ (nkey n, nval n) :: content_nodes rest ++ content_opt hp).
        { rewrite content_eq. simpl. destruct n; simpl. rewrite <- app_assoc. reflexivity. }
        assert (Hr': Forall (fun x => k < x) (keys (content_opt newlt ++ (nkey n, nval n) :: content_nodes rest ++ content_opt hp))).
        { rewrite keys_app, Forall_app. split; auto. rewrite keys_cons. cbn [fst]. constructor; [lia|]. rewrite keys_app, Forall_app. auto. }
        destruct l as [h'|]; simpl.
        -- simpl in Sl. pose proof (shape_nonempty _ _ Sl) as Hneh. rewrite shape_eq in Sl. destruct Sl as (Hl1 & Sl').
           pose proof Hl1 as Hl1'. apply N.ltb_lt in Hl1'. rewrite Hl1'. simpl.
           destruct (max_key_ex h') as (mh & Emh); [tauto|]. rewrite Emh. simpl.
           assert (mh < k). { rewrite Forall_forall in Hl. apply Hl. simpl. now apply max_key_In_content. }
           apply N.ltb_lt in H. rewrite H. simpl. rewrite Hneh. simpl. unfold insert_high_page. simpl. rewrite Hneh. simpl.
           eexists _, _. split; [reflexivity|]. cbn [content_opt]. rewrite Hcc. split5; auto.
           ++ rewrite content_eq. cbn [pnodes phigh content_opt]. rewrite content_nodes_app. cbn [content_nodes]. cbn [content_opt] in Hc. rewrite <- Hc. norm_app. reflexivity.
           ++ rewrite content_eq. cbn [pnodes phigh content_opt]. rewrite keys_app, Forall_app. split; auto.
           ++ cbn [shape_opt]. rewrite shape_eq. cbn [plvl pnodes phigh shape_opt]. split; [lia|]. split; [congruence|]. split; [exact Shpre|]. rewrite shape_eq. tauto.
        -- eexists _, _. split; [reflexivity|]. cbn [content_opt]. rewrite Hcc. split5; auto.
           ++ rewrite content_eq. cbn [pnodes phigh content_opt]. rewrite content_nodes_app. cbn [content_nodes]. cbn [content_opt] in Hc. rewrite <- Hc. rewrite app_nil_r. norm_app. reflexivity.
           ++ rewrite content_eq. cbn [pnodes phigh content_opt]. rewrite app_nil_r. auto.
           ++ cbn [shape_opt]. rewrite shape_eq. cbn [plvl pnodes phigh shape_opt]. split; [lia|]. split; [congruence|]. split; [exact Shpre|exact I].
    + (* continue *)
      apply N.leb_gt in Ek. inv Hrec.
      assert (Ere: rev (n :: pre) ++ rest = rev pre ++ n :: rest). { simpl. rewrite <- app_assoc. reflexivity. }
      rewrite <- Ere. apply IH; auto; rewrite ?Ere; auto.
      cbn [rev]. rewrite content_nodes_app, keys_app, Forall_app. split; auto. cbn [content_nodes].
      rewrite keys_app, Forall_app. split; [|rewrite keys_cons; cbn [fst]; constructor; auto; constructor].
      rewrite Forall_forall. intros x Hx.
      unfold sorted in Hso. rewrite content_nodes_app in Hso. cbn [content_nodes] in Hso. rewrite !keys_app, keys_cons in Hso. cbn [fst] in Hso.
      apply SS_app in Hso as (S1 & _ & _). apply SS_app in S1 as (_ & S1b & _).
      apply SS_app in S1b as (_ & _ & Sx). specialize (Sx x (nkey n) Hx ltac:(now left)). lia.
Qed.

Theorem split_page_spec k : forall p, SPEC split_page k p.
Proof.
  induction p as [lvl c ns hp IHns IHhp] using (page_ind' ).
  intros L Hsh Hso Hk. rewrite content_eq in *. cbn [pnodes phigh] in *.
  apply shape_eq in Hsh. cbn [plvl pnodes phigh] in Hsh. destruct Hsh as (HL & Hne & Hsn & Hsh).
  cbn [split_page]. unfold nonempty. cbn [pnodes]. destruct ns as [|n0 ns0] eqn:Ens; [congruence|]. rewrite <- Ens in *.
  cbn [assert bind].
  destruct (split_go_spec split_page lvl c hp k ns [] IHns IHhp Hsn Hsh Hne Hso Hk) as (l & r & E & H).
  { constructor. }
  exists l, r. split; [exact E|]. cbn [plvl]. exact H.
Qed.

(* ---------------- cache clause (F1 lives here) ---------------- *)
Variable H : list (tok digest V) -> digest.
Notation cache_ok := (cache_ok digest V H). Notation cache_ok_opt := (cache_ok_opt digest V H).
Notation cache_ok_nodes := (cache_ok_nodes digest V H).
Notation cache_ok_eq := (cache_ok_eq digest V H). Notation cache_ok_nodes_app := (cache_ok_nodes_app digest V H).
Notation ref_hash := (ref_hash digest V H).
Definition CSPEC (rec : page -> N -> ret2) (k : N) (q : page) : Prop :=
  forall l r, rec q k = Ok (l, r) ->
    (l = None -> r = Some q) /\
    (fixed = true -> r = None -> l = Some q) /\
    (fixed = true -> cache_ok q -> cache_ok_opt l /\ cache_ok_opt r).
Definition CSPECo rec k (o : option page) := match o with None => True | Some q => CSPEC rec k q end.

Lemma orec_cspec rec k o l r :
  CSPECo rec k o -> orec rec o k = Ok (l, r) ->
    (l = None -> r = o) /\ (fixed = true -> r = None -> l = o) /\
    (fixed = true -> cache_ok_opt o -> cache_ok_opt l /\ cache_ok_opt r).
Proof.
  destruct o as [q|]; simpl.
  - intros HS E. destruct (HS l r E) as (A & B & C). auto.
  - intros _ [= <- <-]. auto.
Qed.


Ltac name_orec A B EE := match goal with E : TreeM.orec _ _ _ _ _ = Ok (?a, ?b) |- _ => rename a into A; rename b into B; rename E into EE end.
Ltac bind_inv H :=
  repeat match type of H with
  | bind ?r _ = Ok _ => let E := fresh "E" in destruct r as [?|?|] eqn:E; [cbn [bind] in H|discriminate H|discriminate H]
  | (let '(_, _) := ?ab in _) = Ok _ => destruct ab
  end.

Lemma split_go_cspec rec lvl c hp k : forall ns pre l r,
  Forall (fun n => CSPECo rec k (nlt n)) ns -> CSPECo rec k hp ->
  split_go rec lvl c hp k pre ns = Ok (l, r) ->
  let q := Page lvl c (rev pre ++ ns) hp in
    (l = None -> r = Some q /\ pre = []) /\
    (fixed = true -> r = None -> l = Some q) /\
    (fixed = true -> cache_ok q -> cache_ok_opt l /\ cache_ok_opt r).
Proof.
  induction ns as [|n rest IH]; intros pre l r Hrec Hhp E q; subst q.
  - cbn [split_go] in E. bind_inv E. name_orec lth hp' EO. injection E as <- <-.
    destruct (orec_cspec _ _ _ _ _ Hhp EO) as (A & B & C).
    rewrite app_nil_r. split; [discriminate|]. split.
    + intros -> ->. rewrite (B eq_refl eq_refl). reflexivity.
    + intros -> HC. apply cache_ok_eq in HC. cbn [TreeM.pcache TreeM.pnodes TreeM.phigh] in HC. destruct HC as (Hc & Hn & Hh).
      destruct (C eq_refl Hh) as (C1 & C2). split; [|exact C2].
      cbn [cache_ok_opt]. apply cache_ok_eq. cbn [TreeM.pcache TreeM.pnodes TreeM.phigh]. split; [|split; auto].
      destruct hp' as [g|]; [exact I|]. rewrite (B eq_refl eq_refl). exact Hc.
  - cbn [split_go] in E. destruct (k <=? nkey n) eqn:Ek.
    + inv Hrec. rename H2 into Hn.
      destruct pre as [|p0 pre'].
      * bind_inv E. name_orec l0 newlt EO. destruct (orec_cspec _ _ _ _ _ Hn EO) as (A & B & C).
        cbn [rev app]. destruct l0 as [v|]; injection E as <- <-.
        -- split; [discriminate|]. split; [discriminate|]. intros -> HC.
           apply cache_ok_eq in HC. cbn [TreeM.pcache TreeM.pnodes TreeM.phigh cache_ok_nodes] in HC. destruct HC as (Hc & (Hn0 & Hr) & Hh).
           destruct (C eq_refl Hn0) as (C1 & C2). split; [exact C1|].
           cbn [cache_ok_opt]. apply cache_ok_eq. cbn [TreeM.pcache TreeM.pnodes TreeM.phigh cache_ok_nodes]. split; [exact I|]. split; [|exact Hh].
           split; [|exact Hr]. destruct n; exact C2.
        -- rewrite (A eq_refl). split; [intros _; split; [|reflexivity]; destruct n; reflexivity|]. split; [discriminate|].
           intros _ HC. split; [exact I|]. destruct n; exact HC.
      * (* middle *)
        bind_inv E. name_orec lkh newlt EO.
        destruct (orec_cspec _ _ _ _ _ Hn EO) as (A & B & C).
        match goal with X : match hp with Some _ => _ | None => _ end = Ok ?g |- _ =>
          assert (Eg : phigh g = hp);
          [destruct hp as [h|]; [bind_inv X; unfold TreeM.insert_high_page in X; bind_inv X; injection X as <-; reflexivity | injection X as <-; reflexivity]|] end.
        rewrite Eg in E.
        assert (HCC: fixed = true -> cache_ok (Page lvl c (rev (p0 :: pre') ++ n :: rest) hp) ->
                  cache_ok_nodes (rev (p0 :: pre')) /\ cache_ok_opt lkh /\ cache_ok (Page lvl None (set_lt n newlt :: rest) hp)).
        { intros Hf HC. apply cache_ok_eq in HC. cbn [TreeM.pcache TreeM.pnodes TreeM.phigh] in HC. destruct HC as (_ & Hns & Hh).
          apply cache_ok_nodes_app in Hns as (Hpre & Hn0 & Hr). destruct (C Hf Hn0) as (C1 & C2).
          split; [exact Hpre|]. split; [exact C1|]. apply cache_ok_eq. cbn [TreeM.pcache TreeM.pnodes TreeM.phigh cache_ok_nodes].
          split; [exact I|]. split; [|exact Hh]. split; [destruct n; exact C2|exact Hr]. }
        destruct lkh as [h|].
        -- bind_inv E. match goal with X : TreeM.insert_high_page _ _ _ _ = Ok _ |- _ => unfold TreeM.insert_high_page in X; bind_inv X; injection X as <- end. injection E as <- <-.
           split; [discriminate|]. split; [discriminate|]. intros Hf HC. destruct (HCC Hf HC) as (X1 & X2 & X3).
           split; [|exact X3]. cbn [cache_ok_opt]. apply cache_ok_eq. cbn [TreeM.pcache TreeM.pnodes TreeM.phigh plvl]. split; [exact I|]. split; [exact X1|exact X2].
        -- injection E as <- <-. split; [discriminate|]. split; [discriminate|]. intros Hf HC. destruct (HCC Hf HC) as (X1 & X2 & X3).
           split; [|exact X3]. cbn [cache_ok_opt]. apply cache_ok_eq. cbn [TreeM.pcache TreeM.pnodes TreeM.phigh plvl]. split; [exact I|]. split; [exact X1|exact I].
    + inv Hrec. specialize (IH (n :: pre) l r H3 Hhp E). cbn [rev] in IH. rewrite <- app_assoc in IH. cbn [app] in IH.
      destruct IH as (A & B & C). split; [|split; assumption]. intros Hl. destruct (A Hl) as (_ & X). discriminate X.
Qed.

Theorem split_page_cspec k : forall p, CSPEC split_page k p.
Proof.
  induction p as [lvl c ns hp IHns IHhp] using (page_ind' ).
  intros l r E. cbn [TreeM.split_page] in E. bind_inv E.
  destruct (split_go_cspec split_page lvl c hp k ns [] l r IHns IHhp E) as (A & B & C). cbn [rev app] in *.
  split; [intros Hl; apply (A Hl)|]. split; [exact B|exact C].
Qed.

Notation split_opt := (split_opt digest V fixed).
Theorem split_opt_full k L o : fixed = true ->
  shape_opt L o -> sorted (content_opt o) -> ~ In k (keys (content_opt o)) ->
  exists l r, split_opt o k = Ok (l, r) /\
    content_opt l ++ content_opt r = content_opt o /\
    Forall (fun x => x < k) (keys (content_opt l)) /\
    Forall (fun x => k < x) (keys (content_opt r)) /\
    shape_opt L l /\ shape_opt L r /\
    (cache_ok_opt o -> cache_ok_opt l /\ cache_ok_opt r) /\
    (l = None -> r = o) /\ (r = None -> l = o).
Proof.
  intros Hf Hsh Hso Hk. unfold TreeM.split_opt.
  assert (HS: SPECo split_page k o) by (destruct o; cbn; auto; apply split_page_spec).
  destruct (orec_spec split_page k o L HS Hsh Hso Hk) as (l & r & E & Hc & Hl & Hr & Sl & Sr & _).
  assert (HC: CSPECo split_page k o) by (destruct o; cbn; auto; apply split_page_cspec).
  destruct (orec_cspec split_page k o l r HC E) as (A & B & C).
  exists l, r. split; [exact E|]. split; [exact Hc|]. split; [exact Hl|]. split; [exact Hr|]. split; [exact Sl|]. split; [exact Sr|].
  split; [intros HO; apply C; auto|]. split; [exact A|]. intros Hr0. apply B; auto.
Qed.
End SplitSpec.
