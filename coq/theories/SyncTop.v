From MST Require Import Base TreeM Diff Spec TreeUpsert TreeInv TreeRanges Intervals DiffTrees TreeRL DiffTop Sync.

Section SyncTop.
Variable digest V : Type.
Variable H : list (tok digest V) -> digest.
Variable lvl_of : N -> N.
Hypothesis lvl_of_u8 : forall k, lvl_of k < 255.
Variable deqb : digest -> digest -> bool.
Hypothesis deqb_spec : forall a b, deqb a b = true <-> a = b.
Hypothesis Hinj : forall a b, H a = H b -> a = b.
Variable Val : Type.
Variable val_dec : forall a b : Val, {a = b} + {a <> b}.
Variable vh : Val -> V.
Hypothesis vh_inj : forall a b, vh a = vh b -> a = b.
Variable merge : Val -> Val -> Val.
Hypothesis merge_anti : forall o x, merge o x = o -> merge x o = x -> o = x.

Notation store := (store Val).
Notation store_ok := (store_ok Val).
Notation cmap := (cmap V Val vh).
Notation run := (run digest V H lvl_of).
Notation final_map := (final_map V).
Notation ins := (ins V).

(* the real serialisation: build the tree from the store, hash, serialise *)
Definition ops_of (s : store) : list (op V) := map (fun kx => Upsert V (fst kx) (vh (snd kx))) s.
Definition ser (s : store) : list (prange digest) :=
  match run (ops_of s) with
  | Ok t => match tree_ranges digest V H t with Ok (Some l) => l | _ => [] end
  | _ => []
  end.

Lemma fold_ops_sorted : forall (s : store) acc, StronglySorted N.lt (keys acc ++ map fst s) ->
  fold_left (apply_op V) (ops_of s) acc = acc ++ cmap s.
Proof.
  induction s as [|[k x] s IH]; intros acc Hs; cbn [ops_of map fold_left Sync.cmap]; [now rewrite app_nil_r|].
  cbn [fst snd apply_op]. cbn [map fst] in Hs.
  assert (Hlt: Forall (fun z => z < k) (keys acc)).
  { apply SS_app in Hs as (_ & _ & S3). rewrite Forall_forall. intros z Hz. apply S3; [exact Hz|now left]. }
  assert (E: ins k (vh x) acc = acc ++ [(k, vh x)]).
  { rewrite <- (app_nil_r acc) at 1. rewrite ins_app_lt by exact Hlt. reflexivity. }
  rewrite E. fold (ops_of s). rewrite IH.
  - rewrite <- app_assoc. reflexivity.
  - rewrite keys_app. unfold keys at 2. cbn [map fst]. rewrite <- app_assoc. exact Hs.
Qed.
Lemma final_map_store s : store_ok s -> final_map (ops_of s) = cmap s.
Proof. intros Hs. unfold TreeInv.final_map. rewrite fold_ops_sorted; [reflexivity|]. exact Hs. Qed.

Theorem ser_RL s : store_ok s -> RL digest V H (cmap s) (ser s).
Proof.
  intros Hs. unfold ser. destruct (run_RL digest V H lvl_of lvl_of_u8 (ops_of s)) as (t & l & R & E & HR).
  rewrite R, E. rewrite <- (final_map_store s Hs). exact HR.
Qed.

Theorem C05_progress_trees a b : store_ok a -> store_ok b -> a <> b ->
  (exists a', pull digest deqb Val merge ser a b = Ok a' /\ a' <> a) \/
  (exists b', pull digest deqb Val merge ser b a = Ok b' /\ b' <> b).
Proof. exact (C05_progress digest V H deqb deqb_spec Hinj Val val_dec vh vh_inj merge merge_anti ser ser_RL a b). Qed.
Print Assumptions C05_progress_trees.
End SyncTop.
