From MST Require Import Base TreeM Spec.

Section Inj.
Variable digest V : Type.
Variable H : list (tok digest V) -> digest.
Hypothesis Hinj : forall a b, H a = H b -> a = b.

Notation page := (page digest V).
Notation node := (node digest V).
Notation nkey := (nkey digest V). Notation nval := (nval digest V). Notation nlt := (nlt digest V).
Notation content := (content digest V). Notation content_opt := (content_opt digest V). Notation content_nodes := (content_nodes digest V).
Notation ref_hash := (ref_hash digest V H). Notation ref_toks := (ref_toks digest V H). Notation ref_tok_opt := (ref_tok_opt digest V H).

Definition INJ (p : page) : Prop := forall q, ref_hash p = ref_hash q -> content p = content q.
Definition INJo (o : option page) : Prop := match o with Some p => INJ p | None => True end.

Lemma tok_opt_inj o o' : INJo o -> ref_tok_opt o = ref_tok_opt o' -> content_opt o = content_opt o'.
Proof.
  destruct o as [p|], o' as [q|]; cbn; intros Hp E; try discriminate; auto.
  injection E as E. now apply Hp.
Qed.

Lemma toks_inj : forall ns, Forall (fun n => INJo (nlt n)) ns -> forall hp, INJo hp -> forall ns' hp',
  ref_toks ns ++ ref_tok_opt hp = ref_toks ns' ++ ref_tok_opt hp' ->
  content_nodes ns ++ content_opt hp = content_nodes ns' ++ content_opt hp'.
Proof.
  induction ns as [|n r IH]; intros Hns hp Hhp ns' hp' E.
  - destruct ns' as [|m s].
    + cbn in *. now apply tok_opt_inj.
    + exfalso. cbn in E. destruct hp as [h|], (nlt m) as [c|]; cbn in E; try discriminate.
  - inversion Hns as [|? ? Hn Hr]; subst. destruct ns' as [|m s].
    + exfalso. cbn in E. destruct hp' as [h|], (nlt n) as [c|]; cbn in E; try discriminate.
    + cbn [Spec.ref_toks Spec.content_nodes] in *.
      destruct (nlt n) as [c|] eqn:En, (nlt m) as [c'|] eqn:Em; cbn in E, Hn |- *; try discriminate.
      * injection E as E1 E2 E3 E4. rewrite E2, E3. rewrite (Hn _ E1). rewrite <- !app_assoc. cbn [app]. f_equal. f_equal.
        apply IH; auto.
      * injection E as E2 E3 E4. rewrite E2, E3. f_equal. apply IH; auto.
Qed.

Theorem ref_hash_injective : forall p, INJ p.
Proof.
  induction p as [l c ns hp IHns IHhp] using (page_ind' digest V). intros q E.
  rewrite !ref_hash_eq in E. apply Hinj in E. destruct q as [l' c' ns' hp']. cbn [TreeM.pnodes TreeM.phigh] in E.
  rewrite !content_eq. cbn [TreeM.pnodes TreeM.phigh]. apply toks_inj; auto.
Qed.
Print Assumptions ref_hash_injective.
End Inj.
