(* C13, stack clause: the native recursion depth of the walk.  [rdepth] is [rdiff] instrumented with the number
   of native frames the Rust code has on the stack at its deepest point (recurse_diff calls recurse_subtree,
   which calls recurse_diff: two frames per nesting level; the loop continuation is not a call).
   Proved: rdepth computes exactly rdiff (so it is the same walk); depth <= 1 + 2 * #peer entries consumed;
   and the depth is UNBOUNDED in the input: two n-deep chains of nested ranges reach depth 2n-1.  The second
   fact refutes the "bounded stack" clause of C13 for the model; replayed on the crate it is finding F2. *)
From Coq Require Import PeanoNat Arith.
From MST Require Import Base TreeM Diff.

Section Depth.
Variable digest : Type.
Variable deqb : digest -> digest -> bool.
Notation prange := (prange digest).
Notation ps := (ps digest). Notation pe := (pe digest). Notation ph := (ph digest).
Notation st := (st digest).
Notation rdiff := (rdiff digest deqb).
Notation superset := (superset digest).

Fixpoint rdepth (fuel : nat) (root : prange) (last_p : option prange) (s : st) : res (st * nat) :=
  match fuel with
  | O => Fuel
  | S f =>
    match advance_within digest root (peer _ s) with
    | (None, _) => Ok (s, 1%nat)
    | (Some p, peer1) =>
      match advance_within digest p (loc _ s) with
      | (None, _) =>
        match loc _ s with
        | l0 :: _ =>
          if superset l0 p then Ok (ST digest peer1 (loc _ s) (bld _ s), 1%nat)
          else
            let start := match last_p with Some v => pe v | None => ps root end in
            let e := N.min (ps l0) (pe p) in
            if start <=? e then do b <- b_inc (bld _ s) start e; Ok (ST digest peer1 (loc _ s) b, 1%nat)
            else Ok (ST digest peer1 (loc _ s) (bld _ s), 1%nat)
        | [] =>
            let start := match last_p with Some v => pe v | None => ps root end in
            let e := pe p in
            if start <=? e then do b <- b_inc (bld _ s) start e; Ok (ST digest peer1 [] b, 1%nat)
            else Ok (ST digest peer1 [] (bld _ s), 1%nat)
        end
      | (Some l, loc1) =>
        do u <- assert (superset root p) 272;
        let '(l', loc2) := shrink digest p l loc1 in
        do s2 <- (if deqb (ph l') (ph p)
                  then do b <- b_con (bld _ s) (ps p) (pe p); Ok (ST digest (skip_while digest (superset p) peer1) loc2 b)
                  else do b <- b_inc (bld _ s) (ps p) (pe p); Ok (ST digest peer1 loc2 b));
        do r3 <- rdepth f p None s2;                       (* recurse_subtree(p) -> recurse_diff(p, ...) *)
        do pb <- drain digest p (peer _ (fst r3)) (bld _ (fst r3));
        let s4 := ST digest (fst pb) (loc _ (fst r3)) (snd pb) in
        do r5 <- rdepth f root (Some p) s4;                (* next loop iteration: same frame *)
        Ok (fst r5, Nat.max (2 + snd r3) (snd r5))
      end
    end
  end.

Ltac cse E t := let Hc := fresh "Hc" in destruct t eqn:Hc; rewrite ?Hc in E; cbn [bind] in E; try discriminate E.

(* rdepth is rdiff with a counter *)
Theorem rdepth_rdiff : forall fuel root last s,
  rdiff fuel root last s = match rdepth fuel root last s with Ok (s', _) => Ok s' | Panic w => Panic w | Fuel => Fuel end.
Proof.
  induction fuel as [|f IH]; intros root last s; cbn [Diff.rdiff rdepth]; [reflexivity|].
  destruct (advance_within digest root (peer _ s)) as [[p|] peer1]; [|reflexivity].
  destruct (advance_within digest p (loc _ s)) as [[l|] loc1].
  - destruct (assert (superset root p) 272); cbn [bind]; try reflexivity.
    destruct (shrink digest p l loc1) as [l' loc2].
    match goal with |- (do s2 <- ?X; _) = _ => destruct X as [s2|w|] end; cbn [bind]; try reflexivity.
    rewrite (IH p None s2). destruct (rdepth f p None s2) as [[s3 d3]|w|]; cbn [bind fst snd]; try reflexivity.
    destruct (drain digest p (peer _ s3) (bld _ s3)) as [[c b]|w|]; cbn [bind fst snd]; try reflexivity.
    rewrite (IH root (Some p) _). destruct (rdepth f root (Some p) _) as [[s5 d5]|w|]; cbn [bind fst snd]; reflexivity.
  - destruct (loc _ s) as [|l0 lr].
    + destruct (_ <=? pe p); [|reflexivity]. destruct (b_inc _ _ _); reflexivity.
    + destruct (superset l0 p); [reflexivity|]. destruct (_ <=? N.min (ps l0) (pe p)); [|reflexivity]. destruct (b_inc _ _ _); reflexivity.
Qed.

Lemma advance_len parent cur x r : advance_within digest parent cur = (Some x, r) -> length cur = S (length r).
Proof. destruct cur as [|p c]; cbn [advance_within]; [discriminate|]. destruct (superset parent p); [|discriminate]. intros [= <- <-]. reflexivity. Qed.
Lemma skip_while_len f l : (length (skip_while digest f l) <= length l)%nat.
Proof. induction l as [|x r IH]; cbn [skip_while length]; [lia|]. destruct (f x); cbn [length]; lia. Qed.
Lemma drain_len root : forall cur b cur' b', drain digest root cur b = Ok (cur', b') -> (length cur' <= length cur)%nat.
Proof.
  induction cur as [|p r IH]; intros b cur' b' E; cbn [drain] in E; [injection E as <- <-; cbn; lia|].
  cse E (superset root p).
  - cse E (b_inc b (ps p) (pe p)). apply IH in E. cbn [length]. lia.
  - injection E as <- <-. lia.
Qed.

(* depth is bounded by the number of peer entries consumed: 1 + 2 * consumed *)
Theorem rdepth_bound : forall fuel root last s s' d, rdepth fuel root last s = Ok (s', d) ->
  (length (peer _ s') <= length (peer _ s))%nat /\ (d + 2 * length (peer _ s') <= 1 + 2 * length (peer _ s))%nat.
Proof.
  induction fuel as [|f IH]; intros root last s s' d E; cbn [rdepth] in E; [discriminate|].
  destruct (advance_within digest root (peer _ s)) as [[p|] peer1] eqn:Ea.
  2:{ injection E as <- <-. lia. }
  pose proof (advance_len _ _ _ _ Ea) as La.
  destruct (advance_within digest p (loc _ s)) as [[l|] loc1] eqn:Eb.
  - cse E (assert (superset root p) 272).
    destruct (shrink digest p l loc1) as [l' loc2] eqn:Es.
    match type of E with (do s2 <- ?X; _) = _ => destruct X as [s2|w|] eqn:E2 end; cbn [bind] in E; try discriminate.
    assert (L2: (length (peer _ s2) <= length peer1)%nat).
    { cse E2 (deqb (ph l') (ph p)).
      - cse E2 (b_con (bld _ s) (ps p) (pe p)). injection E2 as <-. cbn [peer]. apply skip_while_len.
      - cse E2 (b_inc (bld _ s) (ps p) (pe p)). injection E2 as <-. cbn [peer]. lia. }
    destruct (rdepth f p None s2) as [[s3 d3]|w|] eqn:E3; cbn [bind fst snd] in E; try discriminate.
    destruct (IH _ _ _ _ _ E3) as (L3 & D3).
    destruct (drain digest p (peer _ s3) (bld _ s3)) as [[c b]|w|] eqn:Ed; cbn [bind fst snd] in E; try discriminate.
    pose proof (drain_len _ _ _ _ _ Ed) as L4.
    destruct (rdepth f root (Some p) (ST digest c (loc _ s3) b)) as [[s5 d5]|w|] eqn:E5; cbn [bind fst snd] in E; try discriminate.
    destruct (IH _ _ _ _ _ E5) as (L5 & D5). cbn [peer] in L5, D5.
    remember (Nat.max (2 + d3) d5) as m eqn:Em. injection E as <- <-.
    destruct (Nat.max_spec (2 + d3) d5) as [(? & Hm)|(? & Hm)]; rewrite Hm in Em; lia.
  - destruct (loc _ s) as [|l0 lr]; rewrite ?El in E.
    + destruct (_ <=? pe p) in E.
      * match type of E with context [b_inc ?b ?x ?y] => cse E (b_inc b x y) end. injection E as <- <-. cbn [peer]. lia.
      * injection E as <- <-. cbn [peer]. lia.
    + destruct (superset l0 p) in E; [injection E as <- <-; cbn [peer]; lia|].
      destruct (_ <=? N.min (ps l0) (pe p)) in E.
      * match type of E with context [b_inc ?b ?x ?y] => cse E (b_inc b x y) end. injection E as <- <-. cbn [peer]. lia.
      * injection E as <- <-. cbn [peer]. lia.
Qed.

(* native depth of a whole diff call (0 for the empty-peer shortcut) *)
Definition diff_depth (local peer_ : list prange) : res nat :=
  match peer_ with
  | [] => Ok 0%nat
  | root :: _ => do r <- rdepth (S (length peer_)) root None (ST digest peer_ local (B [] [])); Ok (snd r)
  end.
Theorem diff_depth_le local peer_ d : diff_depth local peer_ = Ok d -> (d <= 1 + 2 * length peer_)%nat.
Proof.
  unfold diff_depth. destruct peer_ as [|root rest]; [intros [= <-]; lia|].
  destruct (rdepth _ root None _) as [[s' d']|w|] eqn:E; cbn [bind snd]; try discriminate. intros [= <-].
  apply rdepth_bound in E. cbn [peer] in E. lia.
Qed.

(* ---- the nested chain ---- *)
Variable hl hp : nat -> digest.     (* digests of the i-th local / peer entry *)
Hypothesis h_differ : forall i, deqb (hl i) (hp i) = false.
Variable n : nat.
Definition rng (h : nat -> digest) (i : nat) : prange := PR digest (N.of_nat i) (N.of_nat (2 * n - i)) (h i).
Definition chain (h : nat -> digest) (i : nat) : list prange := map (rng h) (seq i (n - i)).   (* entries i .. n-1 *)

Lemma chain_cons h i : (i < n)%nat -> chain h i = rng h i :: chain h (S i).
Proof. intros Hi. unfold chain. replace (n - i)%nat with (S (n - S i)) by lia. reflexivity. Qed.
Lemma chain_nil h i : (n <= i)%nat -> chain h i = [].
Proof. intros Hi. unfold chain. replace (n - i)%nat with 0%nat by lia. reflexivity. Qed.
Lemma sup_next h h' i : (S i < n)%nat -> superset (rng h i) (rng h' (S i)) = true.
Proof. intros Hi. unfold Diff.superset, rng. cbn [TreeM.ps TreeM.pe]. apply andb_true_iff. split; apply N.leb_le; lia. Qed.
Lemma sup_same h h' i : superset (rng h i) (rng h' i) = true.
Proof. unfold Diff.superset, rng. cbn [TreeM.ps TreeM.pe]. rewrite !N.leb_refl. reflexivity. Qed.
Lemma nsup_next h h' i : (S i < n)%nat -> superset (rng h (S i)) (rng h' i) = false.
Proof. intros Hi. unfold Diff.superset, rng. cbn [TreeM.ps TreeM.pe]. apply andb_false_iff. left. apply N.leb_gt. lia. Qed.

(* walking the two chains from level i on, under root = entry i-1 (or entry 0 itself at the top) *)
Lemma chain_depth : forall k i root b fuel, (i + k = n)%nat -> (k < fuel)%nat ->
  (forall j, (i <= j < n)%nat -> superset root (rng hp j) = true) ->
  exists s' d, rdepth fuel root None (ST digest (chain hp i) (chain hl i) b) = Ok (s', d) /\
    peer _ s' = [] /\ (2 * k <= d + 1)%nat.
Proof.
  induction k as [|k IH]; intros i root b fuel Hik Hf Hroot.
  - destruct fuel as [|f]; [lia|]. rewrite (chain_nil hp i), (chain_nil hl i) by lia. cbn [rdepth advance_within peer].
    eexists _, _. split; [reflexivity|]. cbn [peer]. split; [reflexivity|lia].
  - destruct fuel as [|f]; [lia|]. assert (Hi: (i < n)%nat) by lia.
    rewrite (chain_cons hp i Hi), (chain_cons hl i Hi). cbn [rdepth advance_within peer loc bld].
    rewrite (Hroot i) by lia. cbn [advance_within]. rewrite sup_same. unfold assert. rewrite (Hroot i) by lia. cbn [bind].
    assert (Esh: shrink digest (rng hp i) (rng hl i) (chain hl (S i)) = (rng hl i, chain hl (S i))).
    { destruct (Nat.lt_ge_cases (S i) n) as [Hlt|Hge].
      - rewrite (chain_cons hl (S i) Hlt). cbn [shrink]. rewrite (nsup_next hl hp i Hlt). reflexivity.
      - rewrite (chain_nil hl (S i)) by lia. reflexivity. }
    rewrite Esh. cbn [ph rng TreeM.ph]. rewrite h_differ.
    unfold b_inc, assert. replace (ps (rng hp i) <=? pe (rng hp i)) with true by (symmetry; apply N.leb_le; unfold rng; cbn; lia). cbn [bind].
    destruct (IH (S i) (rng hp i) (B (inc b ++ [DR (ps (rng hp i)) (pe (rng hp i))]) (con b)) f) as (s3 & d3 & E3 & P3 & D3); [lia|lia| |].
    { intros j Hj. unfold Diff.superset, rng. cbn [TreeM.ps TreeM.pe]. apply andb_true_iff. split; apply N.leb_le; lia. }
    rewrite E3. cbn [bind fst snd]. rewrite P3. cbn [drain bind fst snd].
    destruct f as [|f']; [lia|]. cbn [rdepth advance_within peer]. cbn [bind fst snd].
    eexists _, _. split; [reflexivity|]. cbn [peer]. split; [reflexivity|lia].
Qed.

Theorem chain_is_deep : (0 < n)%nat ->
  exists d, diff_depth (chain hl 0) (chain hp 0) = Ok d /\ (2 * n <= d + 1)%nat.
Proof.
  intros Hn.
  assert (Eu: forall local peer_ root rest, peer_ = root :: rest ->
            diff_depth local peer_ = (do r <- rdepth (S (length peer_)) root None (ST digest peer_ local (B [] [])); Ok (snd r))).
  { intros local peer_ root rest ->. reflexivity. }
  rewrite (Eu _ _ _ _ (chain_cons hp 0 Hn)).
  destruct (chain_depth n 0 (rng hp 0) (B [] []) (S (length (chain hp 0)))) as (s' & d & E & _ & D); [lia| | |].
  - unfold chain. rewrite map_length, seq_length. lia.
  - intros j Hj. unfold Diff.superset, rng. cbn [TreeM.ps TreeM.pe]. apply andb_true_iff. split; apply N.leb_le; lia.
  - rewrite E. cbn [bind snd]. eauto.
Qed.
Lemma chain_wf h i : Forall (fun r => ps r <= pe r) (chain h i).
Proof. unfold chain. apply Forall_forall. intros r Hr. apply in_map_iff in Hr as (j & <- & Hj). apply in_seq in Hj. unfold rng. cbn [TreeM.ps TreeM.pe]. lia. Qed.
End Depth.
