From MST Require Import Base TreeM Diff Spec TreeRanges Intervals DiffTrees.

Section Sync.
Variable digest V : Type.
Variable H : list (tok digest V) -> digest.
Variable deqb : digest -> digest -> bool.
Hypothesis deqb_spec : forall a b, deqb a b = true <-> a = b.
Hypothesis Hinj : forall a b, H a = H b -> a = b.
Variable veq_dec : forall a b : V, {a = b} + {a <> b}.

Variable Val : Type.
Variable val_dec : forall a b : Val, {a = b} + {a <> b}.
Variable vh : Val -> V.
Hypothesis vh_inj : forall a b, vh a = vh b -> a = b.
Variable merge : Val -> Val -> Val.            (* merge old fetched *)
Hypothesis merge_anti : forall o x, merge o x = o -> merge x o = x -> o = x.

Notation prange := (prange digest).
Notation ps := (ps digest). Notation pe := (pe digest).
Notation RL := (RL digest V H).
Notation diff := (diff digest deqb).

Definition store := list (N * Val).
Definition skeys (s : store) : list N := map fst s.
Definition store_ok (s : store) : Prop := StronglySorted N.lt (skeys s).
Definition cmap (s : store) : list (N * V) := map (fun kx => (fst kx, vh (snd kx))) s.
Lemma keys_cmap s : keys (cmap s) = skeys s.
Proof. unfold keys, cmap, skeys. rewrite map_map. reflexivity. Qed.

Variable ser : store -> list prange.           (* the serialisation of the tree built from a store *)
Hypothesis ser_RL : forall s, store_ok s -> RL (cmap s) (ser s).

Fixpoint slookup (k : N) (l : store) : option Val :=
  match l with [] => None | (k', x) :: r => if k =? k' then Some x else slookup k r end.
Fixpoint sins (k : N) (x : Val) (l : store) : store :=
  match l with
  | [] => [(k, x)]
  | (k', x') :: r => if k <? k' then (k, x) :: l else if k =? k' then (k, x) :: r else (k', x') :: sins k x r
  end.

Lemma slookup_sins k x s k' : slookup k' (sins k x s) = if k' =? k then Some x else slookup k' s.
Proof.
  induction s as [|[k0 x0] s IH]; cbn [sins slookup].
  - destruct (k' =? k); reflexivity.
  - destruct (k <? k0) eqn:E1; [cbn [slookup]; reflexivity|]. destruct (k =? k0) eqn:E2.
    + apply N.eqb_eq in E2. subst k0. cbn [slookup]. destruct (k' =? k); reflexivity.
    + cbn [slookup]. destruct (k' =? k0) eqn:E3; [|exact IH]. apply N.eqb_eq in E3. subst k0.
      replace (k' =? k) with false; [reflexivity|]. symmetry. apply N.eqb_neq. apply N.eqb_neq in E2. congruence.
Qed.
Lemma skeys_sins k x s : forall z, In z (skeys (sins k x s)) <-> z = k \/ In z (skeys s).
Proof.
  induction s as [|[k0 x0] s IH]; intros z; cbn [sins].
  - cbn. intuition.
  - destruct (k <? k0); [cbn; intuition|]. destruct (k =? k0) eqn:E; [apply N.eqb_eq in E; subst; cbn; intuition|].
    cbn [skeys map fst In] in *. rewrite IH. intuition.
Qed.
Lemma store_ok_sins k x s : store_ok s -> store_ok (sins k x s).
Proof.
  unfold store_ok. induction s as [|[k0 x0] s IH]; intros Hs; cbn [sins].
  - cbn. repeat constructor.
  - cbn [skeys map fst] in Hs. inversion Hs as [|? ? Hs' Hf]; subst. destruct (k <? k0) eqn:E1.
    + apply N.ltb_lt in E1. cbn [skeys map fst]. constructor; [exact Hs|]. constructor; [exact E1|].
      rewrite Forall_forall in *. intros z Hz. specialize (Hf z Hz). lia.
    + apply N.ltb_ge in E1. destruct (k =? k0) eqn:E2.
      * apply N.eqb_eq in E2. subst. cbn [skeys map fst]. constructor; auto.
      * apply N.eqb_neq in E2. cbn [skeys map fst]. constructor; [apply IH; exact Hs'|].
        rewrite Forall_forall in *. intros z Hz. apply skeys_sins in Hz as [->|Hz]; [lia|auto].
Qed.
Lemma slookup_none k s : ~ In k (skeys s) -> slookup k s = None.
Proof. induction s as [|[k0 x0] s IH]; cbn; [reflexivity|]. intros Hn. destruct (k =? k0) eqn:E; [apply N.eqb_eq in E; subst; tauto|]. apply IH. tauto. Qed.
Lemma slookup_in k x s : store_ok s -> (In (k, x) s <-> slookup k s = Some x).
Proof.
  unfold store_ok. induction s as [|[k0 x0] s IH]; intros Hs; cbn [slookup]; [split; [intros []|discriminate]|].
  cbn [skeys map fst] in Hs. inversion Hs as [|? ? Hs' Hf]; subst. rewrite Forall_forall in Hf. destruct (k =? k0) eqn:E.
  - apply N.eqb_eq in E. subst k0. split.
    + intros [[= ->]|Hin]; [reflexivity|]. exfalso. assert (In k (skeys s)) by (unfold skeys; apply in_map_iff; exists (k, x); auto). specialize (Hf _ H0). lia.
    + intros [= ->]. now left.
  - apply N.eqb_neq in E. rewrite <- (IH Hs'). split; [intros [[= -> ->]|Hin]; [congruence|exact Hin]|intros Hin; right; exact Hin].
Qed.
Lemma slookup_some_key k x s : slookup k s = Some x -> In k (skeys s).
Proof. induction s as [|[k0 x0] s IH]; cbn; [discriminate|]. destruct (k =? k0) eqn:E; [apply N.eqb_eq in E; subst; auto|auto]. Qed.
Lemma store_ext a b : store_ok a -> store_ok b -> (forall k, slookup k a = slookup k b) -> a = b.
Proof.
  intros Sa Sb Hx.
  assert (forall kx, In kx a <-> In kx b).
  { intros [k x]. rewrite (slookup_in k x a Sa), (slookup_in k x b Sb), Hx. tauto. }
  clear Hx. unfold store_ok in *. revert b Sb H0. induction a as [|[k x] a IH]; intros b Sb Hx.
  - destruct b as [|y b]; [reflexivity|]. exfalso. apply (Hx y). now left.
  - destruct b as [|[k' x'] b]; [exfalso; apply (Hx (k, x)); now left|].
    cbn [skeys map fst] in Sa, Sb. inversion Sa as [|? ? Sa' Fa]; inversion Sb as [|? ? Sb' Fb]; subst. rewrite Forall_forall in Fa, Fb.
    assert (Hk: forall (s : store) z y, In (z, y) s -> In z (skeys s)) by (intros s z y Hi; unfold skeys; apply in_map_iff; exists (z, y); auto).
    assert (E: (k, x) = (k', x')).
    { destruct (proj1 (Hx (k, x)) (or_introl eq_refl)) as [E|Hin]; [auto|].
      destruct (proj2 (Hx (k', x')) (or_introl eq_refl)) as [E|Hin']; [auto|].
      exfalso. pose proof (Fb _ (Hk _ _ _ Hin)). pose proof (Fa _ (Hk _ _ _ Hin')). lia. }
    injection E as <- <-. f_equal. apply IH; auto. intros y. split; intros Hin.
    + destruct (proj1 (Hx y) (or_intror Hin)) as [<-|Hb]; [|exact Hb]. exfalso. pose proof (Fa _ (Hk _ _ _ Hin)). lia.
    + destruct (proj2 (Hx y) (or_intror Hin)) as [<-|Hb]; [|exact Hb]. exfalso. pose proof (Fb _ (Hk _ _ _ Hin)). lia.
Qed.

(* ---- fetching and merging ---- *)
Definition in_ranges (rs : list drange) (k : N) : bool := existsb (fun r => (ds r <=? k) && (k <=? de r)) rs.
Lemma in_ranges_spec rs k : in_ranges rs k = true <-> inl k rs.
Proof. unfold in_ranges, inl, inr. rewrite existsb_exists. split; intros (r & Hr & Hk); exists r; split; auto.
  - apply andb_true_iff in Hk as (A & B). apply N.leb_le in A, B. auto.
  - apply andb_true_iff. split; apply N.leb_le; tauto. Qed.
Definition merged (dst : store) (k : N) (x : Val) : Val := match slookup k dst with Some o => merge o x | None => x end.
Definition apply_fetched (dst : store) (fetched : store) : store :=
  fold_left (fun acc kx => sins (fst kx) (merged acc (fst kx) (snd kx)) acc) fetched dst.
Lemma apply_fetched_cons dst k x F : apply_fetched dst ((k, x) :: F) = apply_fetched (sins k (merged dst k x) dst) F.
Proof. reflexivity. Qed.
Lemma apply_fetched_ok F : forall dst, store_ok dst -> store_ok (apply_fetched dst F).
Proof. induction F as [|[k x] F IH]; intros dst Hs; [exact Hs|]. rewrite apply_fetched_cons. apply IH. apply store_ok_sins. exact Hs. Qed.
Lemma apply_fetched_other F k : ~ In k (skeys F) -> forall dst, slookup k (apply_fetched dst F) = slookup k dst.
Proof. induction F as [|[k0 x0] F IH]; intros Hn dst; [reflexivity|]. rewrite apply_fetched_cons.
  cbn [skeys map fst In] in Hn. rewrite IH by tauto. rewrite slookup_sins.
  replace (k =? k0) with false; [reflexivity|]. symmetry. apply N.eqb_neq. intros ->. tauto. Qed.
Lemma apply_fetched_hit F k x : store_ok F -> In (k, x) F -> forall dst, slookup k (apply_fetched dst F) = Some (merged dst k x).
Proof.
  unfold store_ok. induction F as [|[k0 x0] F IH]; intros Hs Hin dst; [destruct Hin|].
  cbn [skeys map fst] in Hs. inversion Hs as [|? ? Hs' Hf]; subst. rewrite Forall_forall in Hf. rewrite apply_fetched_cons.
  destruct Hin as [[= -> ->]|Hin].
  - rewrite apply_fetched_other.
    + rewrite slookup_sins, N.eqb_refl. reflexivity.
    + intros Hk. specialize (Hf _ Hk). lia.
  - rewrite (IH Hs' Hin). f_equal. unfold merged. rewrite slookup_sins.
    assert (In k (skeys F)) by (unfold skeys; apply in_map_iff; exists (k, x); auto). specialize (Hf _ H0).
    replace (k =? k0) with false; [reflexivity|]. symmetry. apply N.eqb_neq. lia.
Qed.

Definition fetch (rs : list drange) (src : store) : store := filter (fun kx => in_ranges rs (fst kx)) src.
Lemma fetch_ok rs src : store_ok src -> store_ok (fetch rs src).
Proof. unfold store_ok, fetch. induction src as [|[k x] s IH]; intros Hs; cbn [filter]; [constructor|].
  cbn [skeys map fst] in Hs. inversion Hs as [|? ? Hs' Hf]; subst. destruct (in_ranges rs (fst (k, x))); [|auto].
  cbn [skeys map fst]. constructor; [auto|]. rewrite Forall_forall in *. intros z Hz. apply Hf.
  unfold skeys in *. apply in_map_iff in Hz as (y & <- & Hy). apply filter_In in Hy as (Hy & _). apply in_map_iff. eauto. Qed.

Definition pull (dst src : store) : res store :=
  do rs <- diff (ser dst) (ser src); Ok (apply_fetched dst (fetch rs src)).

(* a fetched pair that the merge actually changes *)
Lemma pull_changes dst src rs k x : store_ok dst -> store_ok src -> diff (ser dst) (ser src) = Ok rs ->
  In (k, x) src -> inl k rs -> slookup k dst <> Some (merged dst k x) ->
  exists d', pull dst src = Ok d' /\ d' <> dst.
Proof.
  intros Sd Ss E Hin Hk Hne. unfold pull. rewrite E. cbn [bind]. eexists. split; [reflexivity|].
  intros Eq. apply Hne. rewrite <- Eq at 1.
  apply apply_fetched_hit; [apply fetch_ok; exact Ss|]. unfold fetch. apply filter_In. split; [exact Hin|]. cbn [fst]. apply in_ranges_spec. exact Hk.
Qed.

(* ---- C05: progress ---- *)
Notation lookup := (lookup V).
Lemma lookup_cmap k s : lookup k (cmap s) = option_map vh (slookup k s).
Proof. induction s as [|[k0 x0] s IH]; cbn; [reflexivity|]. destruct (k =? k0); [reflexivity|exact IH]. Qed.
Lemma in_cmap k x s : In (k, x) s -> In (k, vh x) (cmap s).
Proof. intros Hin. unfold cmap. apply in_map_iff. exists (k, x). auto. Qed.
Lemma cmap_nil s : cmap s = [] -> s = [].
Proof. destruct s; [reflexivity|discriminate]. Qed.
Lemma store_ok_cmap s : store_ok s -> sorted V (cmap s).
Proof. unfold store_ok, Spec.sorted. now rewrite keys_cmap. Qed.

Lemma diff_ok a b : store_ok a -> store_ok b -> exists rs, diff (ser a) (ser b) = Ok rs.
Proof.
  intros Sa Sb. pose proof (ser_RL a Sa) as RA. pose proof (ser_RL b Sb) as RB.
  destruct (ser b) as [|p0 restP] eqn:Eb; [exists []; reflexivity|]. rewrite <- Eb in *.
  destruct (walk_ok digest V H deqb deqb_spec (cmap a) (cmap b) (ser a) (ser b) RA RB p0 restP Eb) as (s' & Es & Ob & _).
  destruct Ob as (W1 & W2 & _).
  destruct (into_diff_vec_ok (bld _ s') W1 W2) as (out & Eo & _).
  exists out. unfold Diff.diff. rewrite Eb. rewrite <- Eb. rewrite Es. exact Eo.
Qed.

(* the receiver-side view of "b's pair (k,x) would change a" *)
Definition gains (a : store) (kx : N * Val) : Prop :=
  slookup (fst kx) a <> Some (snd kx) /\ slookup (fst kx) a <> Some (merged a (fst kx) (snd kx)).
Lemma gains_dec a kx : {gains a kx} + {~ gains a kx}.
Proof.
  unfold gains. destruct kx as [k x]. cbn [fst snd].
  assert (D: forall o : option Val, forall y, {o = Some y} + {o <> Some y}).
  { intros [o|] y; [destruct (val_dec o y) as [->|Hn]; [left; reflexivity|right; congruence]|right; discriminate]. }
  destruct (D (slookup k a) x); [right; tauto|]. destruct (D (slookup k a) (merged a k x)); [right; tauto|left; tauto].
Qed.
(* if nothing of b would change a, every pair of b is dominated by a *)
Lemma not_gains a k x : ~ gains a (k, x) -> exists o, slookup k a = Some o /\ (o = x \/ merge o x = o).
Proof.
  unfold gains. cbn [fst snd]. intros Hn. destruct (slookup k a) as [o|] eqn:E.
  - exists o. split; [reflexivity|]. unfold merged in Hn. rewrite E in Hn.
    destruct (val_dec o x) as [->|Hox]; [auto|]. right. destruct (val_dec (merge o x) o) as [Hm|Hm]; [exact Hm|].
    exfalso. apply Hn. split; congruence.
  - exfalso. apply Hn. split; [discriminate|]. unfold merged. rewrite E. discriminate.
Qed.

Lemma first_key_cmap s k x r : s = (k, x) :: r -> first_key V (cmap s) = Some k.
Proof. intros ->. reflexivity. Qed.

(* the nested case: the peer b spans at least the span of the (non-empty) receiver a *)
Lemma progress_nested a b : store_ok a -> store_ok b -> a <> [] -> a <> b ->
  span_covers V (cmap a) (cmap b) ->
  (exists a', pull a b = Ok a' /\ a' <> a) \/
  ((forall k x, In (k, x) b -> exists o, slookup k a = Some o /\ (o = x \/ merge o x = o))).
Proof.
  intros Sa Sb Hne Hab Hspan.
  destruct (Exists_dec (gains a) b (gains_dec a)) as [He|Hn].
  - left. apply Exists_exists in He as ([k x] & Hin & (G1 & G2)). cbn [fst snd] in *.
    destruct (diff_ok a b Sa Sb) as (rs & E).
    assert (Hk: inl k rs).
    { assert (NA: cmap a <> []) by (intros C; apply Hne; now apply cmap_nil).
      destruct (c07_nested digest V H deqb deqb_spec Hinj (cmap a) (cmap b) (ser a) (ser b) (ser_RL a Sa) (ser_RL b Sb) k (vh x) NA Hspan (in_cmap _ _ _ Hin)) as (rs' & E' & Hk).
      - rewrite lookup_cmap. destruct (slookup k a) as [o|]; cbn; [|discriminate]. intros [= C]. apply vh_inj in C. congruence.
      - congruence. }
    exact (pull_changes a b rs k x Sa Sb E Hin Hk G2).
  - right. intros k x Hin. apply not_gains. rewrite <- Forall_Exists_neg, Forall_forall in Hn. exact (Hn _ Hin).
Qed.

Definition dom (a b : store) : Prop := forall k x, In (k, x) b -> exists o, slookup k a = Some o /\ (o = x \/ merge o x = o).

Lemma dom_antisym a b : store_ok a -> store_ok b -> dom a b -> dom b a -> a = b.
Proof.
  intros Sa Sb Dab Dba. apply store_ext; auto. intros k.
  destruct (slookup k a) as [o|] eqn:Ea.
  - apply (slookup_in k o a Sa) in Ea as Hina. destruct (Dba k o Hina) as (x & Eb & Hx). rewrite Eb. f_equal.
    apply (slookup_in k x b Sb) in Eb as Hinb. destruct (Dab k x Hinb) as (o' & Ea' & Ho). rewrite Ea in Ea'. injection Ea' as <-.
    destruct Hx as [->|Hx]; [reflexivity|]. destruct Ho as [->|Ho]; [reflexivity|]. symmetry. apply merge_anti; assumption.
  - destruct (slookup k b) as [x|] eqn:Eb; [|reflexivity]. exfalso.
    apply (slookup_in k x b Sb) in Eb. destruct (Dab k x Eb) as (o & Ea' & _). congruence.
Qed.

Lemma dom_keys a b : dom a b -> forall k, In k (skeys b) -> In k (skeys a).
Proof. intros D k Hk. unfold skeys in Hk. apply in_map_iff in Hk as ([k' x] & <- & Hin). destruct (D k' x Hin) as (o & E & _). cbn. eapply slookup_some_key; eauto. Qed.

Theorem C05_progress a b : store_ok a -> store_ok b -> a <> b ->
  (exists a', pull a b = Ok a' /\ a' <> a) \/ (exists b', pull b a = Ok b' /\ b' <> b).
Proof.
  intros Sa Sb Hab. pose proof (ser_RL a Sa) as RA. pose proof (ser_RL b Sb) as RB.
  (* a helper for the "receiver is empty / lacks the peer's first key" situations *)
  assert (EMPTY: forall d s, store_ok d -> store_ok s -> d = [] -> s <> [] -> exists d', pull d s = Ok d' /\ d' <> d).
  { intros d s Sd Ss -> Hs. pose proof (ser_RL s Ss) as RS. pose proof (ser_RL [] Sd) as RD.
    destruct s as [|[k x] r] eqn:Es; [congruence|]. rewrite <- Es in *.
    destruct (rl_root _ _ _ _ _ RS) as (r0 & rest & El & F & L & _); [rewrite Es; discriminate|].
    destruct (RL_root_facts digest V H _ _ _ _ RS El) as (W & _).
    assert (E: diff (ser []) (ser s) = Ok [DR (ps r0) (pe r0)]).
    { rewrite (rl_empty _ _ _ _ _ RD eq_refl). apply (diff_empty_local digest V H deqb _ _ _ _ RS El). }
    assert (Ek: ps r0 = k). { rewrite Es in F. cbn in F. congruence. }
    apply (pull_changes [] s _ k x Sd Ss E).
    - rewrite Es. now left.
    - exists (DR (ps r0) (pe r0)). split; [now left|]. unfold inr. cbn [ds de]. lia.
    - cbn. discriminate. }
  destruct a as [|ka ra] eqn:Ea; [left; apply EMPTY; auto; congruence|]. rewrite <- Ea in *.
  destruct b as [|kb rb] eqn:Eb; [right; apply EMPTY; auto; rewrite Ea; discriminate|]. rewrite <- Eb in *.
  assert (NA: a <> []) by (rewrite Ea; discriminate). assert (NB: b <> []) by (rewrite Eb; discriminate).
  assert (NCA: cmap a <> []) by (intros C; apply NA; now apply cmap_nil).
  assert (NCB: cmap b <> []) by (intros C; apply NB; now apply cmap_nil).
  destruct (rl_root _ _ _ _ _ RA NCA) as (a0 & restA & ElA & FA & LA & _).
  destruct (rl_root _ _ _ _ _ RB NCB) as (b0 & restB & ElB & FB & LB & _).
  destruct (RL_root_facts digest V H _ _ _ _ RA ElA) as (WA & _). destruct (RL_root_facts digest V H _ _ _ _ RB ElB) as (WB & _).
  assert (BA: forall k, In k (skeys a) -> ps a0 <= k <= pe a0).
  { intros k Hk. rewrite <- keys_cmap in Hk. destruct (key_has_value V _ _ Hk) as (v & Hv). exact (between_first_last V _ k v _ _ (store_ok_cmap a Sa) Hv FA LA). }
  assert (BB: forall k, In k (skeys b) -> ps b0 <= k <= pe b0).
  { intros k Hk. rewrite <- keys_cmap in Hk. destruct (key_has_value V _ _ Hk) as (v & Hv). exact (between_first_last V _ k v _ _ (store_ok_cmap b Sb) Hv FB LB). }
  assert (IA: In (ps a0) (skeys a) /\ In (pe a0) (skeys a)) by (rewrite <- keys_cmap; split; [apply first_in|apply last_in]; assumption).
  assert (IB: In (ps b0) (skeys b) /\ In (pe b0) (skeys b)) by (rewrite <- keys_cmap; split; [apply first_in|apply last_in]; assumption).
  (* both nested cases share this argument *)
  assert (NESTED: forall d s d0 s0, store_ok d -> store_ok s -> d <> [] -> s <> [] -> d <> s ->
            first_key V (cmap d) = Some (ps d0) -> last_key V (cmap d) = Some (pe d0) ->
            first_key V (cmap s) = Some (ps s0) -> last_key V (cmap s) = Some (pe s0) ->
            (forall k, In k (skeys d) -> ps d0 <= k <= pe d0) ->
            In (ps s0) (skeys s) /\ In (pe s0) (skeys s) ->
            ps s0 <= ps d0 -> pe d0 <= pe s0 ->
            (exists d', pull d s = Ok d' /\ d' <> d) \/ (exists s', pull s d = Ok s' /\ s' <> s)).
  { intros d s d0 s0 Sd Ss Nd Ns Hds Fd Ld Fs Ls Bd (Is1 & Is2) H1 H2.
    destruct (progress_nested d s Sd Ss Nd Hds) as [L|Dom]; [exists (ps s0), (pe s0), (ps d0), (pe d0); repeat split; auto| left; exact L |].
    right. pose proof (Bd _ (dom_keys d s Dom _ Is1)). pose proof (Bd _ (dom_keys d s Dom _ Is2)).
    destruct (progress_nested s d Ss Sd Ns (fun E => Hds (eq_sym E))) as [R|Dom']; [exists (ps d0), (pe d0), (ps s0), (pe s0); repeat split; auto; lia| exact R |].
    exfalso. apply Hds. apply dom_antisym; assumption. }
  destruct (superset digest b0 a0) eqn:SBA.
  - apply andb_true_iff in SBA as (S1 & S2). apply N.leb_le in S1, S2.
    exact (NESTED a b a0 b0 Sa Sb NA NB Hab FA LA FB LB BA IB S1 S2).
  - destruct (superset digest a0 b0) eqn:SAB.
    + apply andb_true_iff in SAB as (S1 & S2). apply N.leb_le in S1, S2.
      destruct (NESTED b a b0 a0 Sb Sa NB NA (fun E => Hab (eq_sym E)) FB LB FA LA BB IA S1 S2) as [R|L]; [right; exact R|left; exact L].
    + (* neither span covers the other *)
      assert (E1: diff (ser a) (ser b) = Ok (if ps b0 <=? N.min (ps a0) (pe b0) then [DR (ps b0) (N.min (ps a0) (pe b0))] else []))
        by exact (diff_disjoint digest deqb _ _ a0 restA b0 restB ElA ElB WB SBA SAB).
      assert (E2: diff (ser b) (ser a) = Ok (if ps a0 <=? N.min (ps b0) (pe a0) then [DR (ps a0) (N.min (ps b0) (pe a0))] else []))
        by exact (diff_disjoint digest deqb _ _ b0 restB a0 restA ElB ElA WA SAB SBA).
      unfold Diff.superset in SBA, SAB. apply andb_false_iff in SBA. apply andb_false_iff in SAB. rewrite !N.leb_gt in SBA, SAB.
      destruct (N.lt_ge_cases (ps b0) (ps a0)) as [Hlt|Hge].
      * (* b's first key is below everything a holds: a gains it *)
        left. destruct IB as (IB1 & _). unfold skeys in IB1. apply in_map_iff in IB1 as ([k x] & Ek & Hin). cbn in Ek. subst k.
        replace (ps b0 <=? N.min (ps a0) (pe b0)) with true in E1 by (symmetry; apply N.leb_le; lia).
        apply (pull_changes a b _ (ps b0) x Sa Sb E1 Hin).
        -- exists (DR (ps b0) (N.min (ps a0) (pe b0))). split; [now left|]. unfold inr. cbn [ds de]. lia.
        -- rewrite slookup_none; [discriminate|]. intros Hk. specialize (BA _ Hk). lia.
      * right. assert (Hlt: ps a0 < ps b0) by lia.
        destruct IA as (IA1 & _). unfold skeys in IA1. apply in_map_iff in IA1 as ([k x] & Ek & Hin). cbn in Ek. subst k.
        replace (ps a0 <=? N.min (ps b0) (pe a0)) with true in E2 by (symmetry; apply N.leb_le; lia).
        apply (pull_changes b a _ (ps a0) x Sb Sa E2 Hin).
        -- exists (DR (ps a0) (N.min (ps b0) (pe a0))). split; [now left|]. unfold inr. cbn [ds de]. lia.
        -- rewrite slookup_none; [discriminate|]. intros Hk. specialize (BB _ Hk). lia.
Qed.
End Sync.
