From MST Require Import Base TreeM Spec TreeSplit TreeUpsert TreeHash.

Section Inv.
Variable digest V : Type.
Variable H : list (tok digest V) -> digest.
Variable lvl_of : N -> N.
Hypothesis lvl_of_u8 : forall k, lvl_of k < 255.

Notation page := (page digest V).
Notation mst := (mst digest V).
Notation Page := (Page digest V). Notation Node := (Node digest V).
Notation plvl := (plvl digest V). Notation pnodes := (pnodes digest V).
Notation phigh := (phigh digest V). Notation pcache := (pcache digest V).
Notation root := (root digest V). Notation root_hash := (root_hash digest V).
Notation content := (content digest V).
Notation shape := (shape digest V lvl_of).
Notation sorted := (sorted V).
Notation cache_ok := (cache_ok digest V H). Notation all_cached := (all_cached digest V).
Notation ref_hash := (ref_hash digest V H).
Notation mst_upsert := (mst_upsert digest V true).
Notation mst_root_hash := (mst_root_hash digest V H).
Notation mst_init := (mst_init digest V).
Notation ins := (ins V).
Notation eqs := (eqs digest V).

Definition empty_root (p : page) : Prop := pnodes p = [] /\ phigh p = None /\ plvl p = 0.
Definition Inv (t : mst) : Prop :=
  sorted (content (root t)) /\ cache_ok (root t) /\
  (empty_root (root t) \/ shape 256 (root t)) /\
  (forall d, root_hash t = Some d -> pcache (root t) = Some d).

Lemma Inv_init : Inv mst_init.
Proof.
  unfold Inv, TreeM.mst_init. cbn [TreeM.root TreeM.root_hash].
  split; [unfold Spec.sorted, keys; cbn; constructor|]. split; [apply cache_ok_eq; cbn; auto|].
  split; [left; unfold empty_root; cbn; auto|discriminate].
Qed.

Lemma Inv_mk p : sorted (content p) -> cache_ok p -> (empty_root p \/ shape 256 p) -> Inv (MST digest V p None).
Proof. intros A B C. unfold Inv. cbn [TreeM.root TreeM.root_hash]. repeat split; auto. discriminate. Qed.
Lemma sorted_single k v : sorted [(k, v)].
Proof. unfold Spec.sorted, keys. cbn. repeat constructor. Qed.

Lemma single_page_ok level k v : lvl_of k = level ->
  let p := Page level None [Node k v None] None in
  content p = [(k, v)] /\ shape 256 p /\ cache_ok p.
Proof.
  intros Hl p. split; [reflexivity|]. split.
  - apply shape_eq. cbn. pose proof (lvl_of_u8 k). repeat split; auto; try congruence; lia.
  - apply cache_ok_eq. cbn. auto.
Qed.

Theorem mst_upsert_spec t k v : Inv t ->
  exists t', mst_upsert t k (lvl_of k) v = Ok t' /\ Inv t' /\
    content (root t') = ins k v (content (root t)) /\ root_hash t' = None.
Proof.
  intros (Hso & Hc & Hsh & _). unfold TreeM.mst_upsert.
  destruct Hsh as [(En & Eh & El)|Hsh].
  - (* empty root *)
    destruct (root t) as [l c ns hp] eqn:Er. cbn [TreeM.pnodes TreeM.phigh TreeM.plvl] in *. subst ns hp l.
    destruct (single_page_ok (lvl_of k) k v eq_refl) as (A & B & C).
    cbn [TreeM.upsert_page]. replace (lvl_of k <? 0) with false by (symmetry; apply N.ltb_ge; lia).
    destruct (lvl_of k =? 0) eqn:E0.
    + apply N.eqb_eq in E0. cbn. eexists. split; [reflexivity|]. cbn [TreeM.root TreeM.root_hash].
      rewrite E0 in *. split; [apply Inv_mk; [rewrite A; apply sorted_single|exact C|right; exact B]|].
      split; [rewrite A; reflexivity|reflexivity].
    + cbn. eexists. split; [reflexivity|]. cbn [TreeM.root TreeM.root_hash].
      split; [apply Inv_mk; [rewrite A; apply sorted_single|exact C|right; exact B]|].
      split; [rewrite A; reflexivity|reflexivity].
  - destruct (upsert_page_spec digest V H lvl_of lvl_of_u8 k (lvl_of k) v eq_refl (root t) 256 Hsh Hso Hc) as (r & E & Hr).
    rewrite E. cbn [bind]. destruct r as [p'|]; cbn [UPr] in Hr.
    + destruct Hr as (_ & A & B & C & _). eexists. split; [reflexivity|]. cbn [TreeM.root TreeM.root_hash].
      split; [|split; [exact A|reflexivity]].
      apply Inv_mk; [rewrite A; apply sorted_ins; exact Hso|exact C|right; exact B].
    + rewrite (shape_nonempty _ _ _ _ _ Hsh).
      assert (Hk: ~ In k (keys (content (root t)))).
      { intros Hin. destruct (shape_key_levels digest V lvl_of lvl_of_u8 (root t) 256 Hsh) as (Hkl & _). rewrite Forall_forall in Hkl. specialize (Hkl _ Hin). lia. }
      destruct (insert_intermediate_spec digest V H lvl_of 256 (root t) k (lvl_of k) v Hsh Hr eq_refl Hso Hk Hc) as (p' & E' & A & B & C & D & _).
      rewrite E'. cbn [bind]. eexists. split; [reflexivity|]. cbn [TreeM.root TreeM.root_hash].
      split; [|split; [exact A|reflexivity]].
      apply Inv_mk; [rewrite A; apply sorted_ins; exact Hso|exact D|].
      right. apply (shape_relevel digest V lvl_of _ 256 _ C). rewrite B. pose proof (lvl_of_u8 k). lia.
Qed.

Theorem mst_root_hash_spec t : Inv t ->
  let '(t', d) := mst_root_hash t in
  Inv t' /\ d = ref_hash (root t) /\ eqs (root t') (root t) /\ all_cached (root t') /\ root_hash t' = Some d.
Proof.
  intros (Hso & Hc & Hsh & Hrh). unfold TreeM.mst_root_hash.
  pose proof (gen_hash_spec digest V H lvl_of (root t) Hc) as HG. destruct (gen_hash digest V H (root t)) as [p d].
  destruct HG as (A & B & C & D & E). cbn [TreeM.root TreeM.root_hash].
  split; [|split; [exact A|split; [exact B|split; [exact D|reflexivity]]]].
  unfold Inv. cbn [TreeM.root TreeM.root_hash].
  split; [rewrite (content_eqs digest V lvl_of p (root t) B); exact Hso|]. split; [exact C|].
  split.
  - destruct Hsh as [(En & Eh & El)|Hsh]; [left|right; eapply (shape_eqs digest V lvl_of); [|exact Hsh]; unfold TreeHash.eqs in *; congruence].
    apply eqs_inv in B. destruct B as (B1 & B2 & B3). unfold empty_root. rewrite B1, El. rewrite En in B2. rewrite Eh in B3.
    apply (eqs_nodes_inv digest V lvl_of) in B2. apply eqs_opt_inv in B3. destruct (pnodes p); [|tauto]. destruct (phigh p); [tauto|auto].
  - intros d' [= <-]. exact E.
Qed.

(* ---------------- histories ---------------- *)
Inductive op := Upsert (k : N) (v : V) | HashReq.
Definition step (t : mst) (o : op) : res mst :=
  match o with Upsert k v => mst_upsert t k (lvl_of k) v | HashReq => Ok (fst (mst_root_hash t)) end.
Fixpoint run_from (t : mst) (ops : list op) : res mst :=
  match ops with [] => Ok t | o :: r => do t' <- step t o; run_from t' r end.
Definition run := run_from mst_init.
Definition apply_op (m : list (N * V)) (o : op) := match o with Upsert k v => ins k v m | HashReq => m end.
Definition final_map (ops : list op) : list (N * V) := fold_left apply_op ops [].

Theorem run_from_inv : forall ops t, Inv t ->
  exists t', run_from t ops = Ok t' /\ Inv t' /\ content (root t') = fold_left apply_op ops (content (root t)).
Proof.
  induction ops as [|o r IH]; intros t Hi; cbn [run_from fold_left].
  - eauto.
  - destruct o as [k v|]; cbn [step apply_op].
    + destruct (mst_upsert_spec t k v Hi) as (t1 & E & Hi1 & Hc1 & _). rewrite E. cbn [bind].
      destruct (IH t1 Hi1) as (t' & E' & Hi' & Hc'). exists t'. rewrite Hc1 in Hc'. auto.
    + pose proof (mst_root_hash_spec t Hi) as HS. destruct (mst_root_hash t) as [t1 d]. destruct HS as (Hi1 & _ & Heq & _).
      cbn [bind fst]. destruct (IH t1 Hi1) as (t' & E' & Hi' & Hc'). exists t'.
      rewrite (content_eqs digest V lvl_of _ _ Heq) in Hc'. auto.
Qed.

Theorem run_inv ops : exists t, run ops = Ok t /\ Inv t /\ content (root t) = final_map ops.
Proof. exact (run_from_inv ops mst_init Inv_init). Qed.
Print Assumptions run_inv.
End Inv.
