(* C06, concrete half: replicas that keep their tree up to date incrementally (upsert on every write and on
   every fetched pair, hash only when serialising; caches carried from one sync step into the next), driven by
   an arbitrary schedule of writes, hash requests and one-way pulls.  This is the model the correspondence
   check runs against the crate (sync cases).  Proved here: every schedule runs without panic, and at every
   step each replica's tree is a tree reachable by SOME history whose final map is the replica's store
   (invariant RI); hence (C01) its root hash and page ranges are those of a tree freshly built from the store,
   and the stores evolve exactly as in the abstract store-level system of Sync.v / Sync6.v. *)
From Coq Require Import PeanoNat Arith.
From MST Require Import Base TreeM Diff Spec TreeUpsert TreeHash TreeInv TreeRanges HistIndep Intervals DiffTrees TreeRL DiffTop DiffMore Sync SyncTop ListUpd.

Section SM.
Variable digest V : Type.
Variable H : list (tok digest V) -> digest.
Variable lvl_of : N -> N.
Hypothesis lvl_of_u8 : forall k, lvl_of k < 255.
Variable deqb : digest -> digest -> bool.
Hypothesis deqb_spec : forall a b, deqb a b = true <-> a = b.
Variable Val : Type.
Variable vh : Val -> V.
Variable merge : Val -> Val -> Val.

Notation mst := (mst digest V).
Notation store := (store Val).
Notation store_ok := (store_ok Val).
Notation cmap := (cmap V Val vh).
Notation slookup := (slookup Val). Notation sins := (sins Val).
Notation merged := (merged Val merge).
Notation run := (run digest V H lvl_of). Notation run_from := (run_from digest V H lvl_of).
Notation final_map := (final_map V).
Notation mst_upsert := (mst_upsert digest V true).
Notation mst_root_hash := (mst_root_hash digest V H).
Notation mst_serialise := (mst_serialise digest V).
Notation diff := (diff digest deqb).
Notation ser := (ser digest V H lvl_of Val vh).
Notation tree_ranges := (tree_ranges digest V H).

Record replica := R { r_store : store; r_tree : mst }.
Inductive event := Write (r : nat) (k : N) (x : Val) | HashEv (r : nat) | Pull (dst src : nat).

Definition hashed (t : mst) : mst := fst (mst_root_hash t).

(* a local write or the application of one fetched pair: merge with the held value, upsert, remember *)
Definition r_write (rp : replica) (k : N) (x : Val) : res replica :=
  let x' := merged (r_store rp) k x in
  do t' <- mst_upsert (r_tree rp) k (lvl_of k) (vh x'); Ok (R (sins k x' (r_store rp)) t').
(* dst pulls from src: src hashes + serialises (snapshot); dst hashes its own tree in place, serialises,
   diffs, fetches every pair of src inside a returned range, merges and upserts each *)
Definition r_pull (dst src : replica) : res (replica * replica) :=
  let src' := R (r_store src) (hashed (r_tree src)) in
  let dst1 := R (r_store dst) (hashed (r_tree dst)) in
  do rs <- (do rl <- mst_serialise (r_tree dst1); do rp <- mst_serialise (r_tree src');
            match rl, rp with Some a, Some b => diff a b | _, _ => Panic 0 end);
  do dst2 <- fold_left (fun acc kx => do rp <- acc; r_write rp (fst kx) (snd kx))
                       (fetch Val rs (r_store src)) (Ok dst1);
  Ok (dst2, src').
Definition ev_step (rs : list replica) (e : event) : res (list replica) :=
  match e with
  | Write i k x => match nth_error rs i with Some rp => do rp' <- r_write rp k x; Ok (upd rs i rp') | None => Ok rs end
  | HashEv i => match nth_error rs i with Some rp => Ok (upd rs i (R (r_store rp) (hashed (r_tree rp)))) | None => Ok rs end
  | Pull i j => if Nat.eqb i j then Ok rs else
      match nth_error rs i, nth_error rs j with
      | Some d, Some s => do ds' <- r_pull d s; Ok (upd (upd rs i (fst ds')) j (snd ds'))
      | _, _ => Ok rs
      end
  end.
Fixpoint ev_run (rs : list replica) (es : list event) : res (list replica) :=
  match es with [] => Ok rs | e :: r => do rs' <- ev_step rs e; ev_run rs' r end.
Definition fresh (n : nat) : list replica := repeat (R [] (mst_init digest V)) n.

(* ---------------- the abstract, store-level system ---------------- *)
Definition a_step (S : list store) (e : event) : res (list store) :=
  match e with
  | Write i k x => match nth_error S i with Some s => Ok (upd S i (sins k (merged s k x) s)) | None => Ok S end
  | HashEv i => Ok S
  | Pull i j => if Nat.eqb i j then Ok S else
      match nth_error S i, nth_error S j with
      | Some a, Some b => do a' <- pull digest deqb Val merge ser a b; Ok (upd S i a')
      | _, _ => Ok S
      end
  end.
Fixpoint a_run (S : list store) (es : list event) : res (list store) :=
  match es with [] => Ok S | e :: r => do S' <- a_step S e; a_run S' r end.

(* ---------------- the refinement invariant ---------------- *)
Definition RI (rp : replica) : Prop :=
  store_ok (r_store rp) /\ exists ops, run ops = Ok (r_tree rp) /\ final_map ops = cmap (r_store rp).

Lemma run_from_app : forall a b t, run_from t (a ++ b) = (do t' <- run_from t a; run_from t' b).
Proof. induction a as [|o a IH]; intros b t; cbn [app TreeInv.run_from bind]; [reflexivity|].
  destruct (step digest V H lvl_of t o) as [t1|w|]; cbn [bind]; [apply IH|reflexivity|reflexivity]. Qed.
Lemma final_map_snoc ops o : final_map (ops ++ [o]) = apply_op V (final_map ops) o.
Proof. unfold TreeInv.final_map. rewrite fold_left_app. reflexivity. Qed.
Lemma cmap_sins k x s : cmap (sins k x s) = ins V k (vh x) (cmap s).
Proof.
  induction s as [|[k0 x0] s IH]; cbn [Sync.sins Sync.cmap map fst snd TreeUpsert.ins]; [reflexivity|].
  destruct (k <? k0); [reflexivity|]. destruct (k =? k0); [reflexivity|]. cbn [map fst snd]. f_equal. exact IH.
Qed.

Lemma RI_fresh n : Forall RI (fresh n).
Proof. unfold fresh. apply Forall_forall. intros rp Hr. apply repeat_spec in Hr. subst rp. split; [constructor|].
  exists []. split; reflexivity. Qed.

Lemma RI_write rp k x : RI rp ->
  exists rp', r_write rp k x = Ok rp' /\ RI rp' /\ r_store rp' = sins k (merged (r_store rp) k x) (r_store rp).
Proof.
  intros (Hs & ops & Hr & Hf). unfold r_write.
  destruct (run_inv digest V H lvl_of lvl_of_u8 ops) as (t & Hr' & Hi & _). rewrite Hr in Hr'. injection Hr' as <-.
  destruct (mst_upsert_spec digest V H lvl_of lvl_of_u8 (r_tree rp) k (vh (merged (r_store rp) k x)) Hi) as (t' & E & _).
  rewrite E. cbn [bind]. eexists. split; [reflexivity|]. split; [|reflexivity]. cbn [r_store r_tree]. split.
  - apply store_ok_sins. exact Hs.
  - exists (ops ++ [Upsert V k (vh (merged (r_store rp) k x))]). split.
    + unfold TreeInv.run. rewrite run_from_app. fold (run ops). rewrite Hr. cbn [bind TreeInv.run_from TreeInv.step]. rewrite E. reflexivity.
    + rewrite final_map_snoc. cbn [apply_op r_store]. rewrite Hf, cmap_sins. reflexivity.
Qed.
Lemma RI_hash rp : RI rp -> RI (R (r_store rp) (hashed (r_tree rp))).
Proof.
  intros (Hs & ops & Hr & Hf). split; [exact Hs|]. cbn [r_store r_tree]. exists (ops ++ [HashReq V]). split.
  - unfold TreeInv.run. rewrite run_from_app. fold (run ops). rewrite Hr. reflexivity.
  - rewrite final_map_snoc. exact Hf.
Qed.

(* the serialisation of a replica's (hashed) incremental tree is the serialisation of a tree freshly built
   from its store: this is where C01/C02 enter *)
Lemma RI_ranges rp : RI rp -> mst_serialise (hashed (r_tree rp)) = Ok (Some (ser (r_store rp))).
Proof.
  intros (Hs & ops & Hr & Hf).
  destruct (run_RL digest V H lvl_of lvl_of_u8 (ops_of V Val vh (r_store rp))) as (t0 & l0 & R0 & E0 & _).
  assert (EF: final_map ops = final_map (ops_of V Val vh (r_store rp))).
  { rewrite Hf. symmetry. apply (final_map_store V Val vh). exact Hs. }
  destruct (C01_history_independence digest V H lvl_of lvl_of_u8 _ _ EF) as (a & b & Ra & Rb & _ & EH).
  rewrite Hr in Ra. rewrite R0 in Rb. injection Ra as <-. injection Rb as <-.
  unfold SyncTop.ser. rewrite R0, E0. unfold TreeRL.tree_ranges in E0. unfold hashed. rewrite EH. exact E0.
Qed.

Lemma fold_write_err (F : store) w : fold_left (fun acc kx => do rp <- acc; r_write rp (fst kx) (snd kx)) F (Panic w) = Panic w.
Proof. induction F as [|kx F IH]; cbn [fold_left bind]; auto. Qed.
Lemma RI_apply : forall (F : store) rp, RI rp ->
  exists rp', fold_left (fun acc kx => do rp <- acc; r_write rp (fst kx) (snd kx)) F (Ok rp) = Ok rp' /\ RI rp' /\
    r_store rp' = apply_fetched Val merge (r_store rp) F.
Proof.
  induction F as [|[k x] F IH]; intros rp Hi; cbn [fold_left bind fst snd].
  - exists rp. auto.
  - destruct (RI_write rp k x Hi) as (rp1 & E1 & Hi1 & S1). rewrite E1.
    destruct (IH rp1 Hi1) as (rp' & E' & Hi' & S'). exists rp'. split; [exact E'|]. split; [exact Hi'|].
    rewrite S', S1. reflexivity.
Qed.

Lemma RI_pull d s : RI d -> RI s ->
  exists d' s', r_pull d s = Ok (d', s') /\ RI d' /\ RI s' /\ r_store s' = r_store s /\
    pull digest deqb Val merge ser (r_store d) (r_store s) = Ok (r_store d').
Proof.
  intros Hd Hs. unfold r_pull. cbn [r_tree r_store].
  rewrite (RI_ranges d Hd), (RI_ranges s Hs). cbn [bind].
  destruct (diff_ok digest V H deqb deqb_spec Val vh ser (ser_RL digest V H lvl_of lvl_of_u8 Val vh) (r_store d) (r_store s) (proj1 Hd) (proj1 Hs)) as (rs & Er).
  rewrite Er. cbn [bind].
  destruct (RI_apply (fetch Val rs (r_store s)) (R (r_store d) (hashed (r_tree d))) (RI_hash d Hd)) as (d' & E' & Hi' & S').
  rewrite E'. cbn [bind]. exists d', (R (r_store s) (hashed (r_tree s))). split; [reflexivity|]. split; [exact Hi'|].
  split; [apply RI_hash; exact Hs|]. split; [reflexivity|].
  unfold Sync.pull. rewrite Er. cbn [bind]. rewrite S'. reflexivity.
Qed.

(* ---------------- every schedule: no panic, invariant kept, stores follow the abstract system ---------------- *)
Theorem ev_step_refines rs e : Forall RI rs ->
  exists rs', ev_step rs e = Ok rs' /\ Forall RI rs' /\ length rs' = length rs /\
    a_step (map r_store rs) e = Ok (map r_store rs').
Proof.
  intros HI. destruct e as [i k x|i|i j]; cbn [ev_step a_step].
  - rewrite nth_error_map. destruct (nth_error rs i) as [rp|] eqn:En; cbn [option_map].
    + destruct (RI_write rp k x (Forall_nth _ _ _ _ HI En)) as (rp' & E & Hi' & S'). rewrite E. cbn [bind].
      assert (Hlt: (i < length rs)%nat) by (apply nth_error_Some; congruence).
      eexists. split; [reflexivity|]. split; [apply Forall_upd; assumption|]. split; [apply upd_length; exact Hlt|].
      rewrite map_upd, S'. reflexivity.
    + exists rs. auto.
  - destruct (nth_error rs i) as [rp|] eqn:En.
    + assert (Hlt: (i < length rs)%nat) by (apply nth_error_Some; congruence).
      eexists. split; [reflexivity|]. split; [apply Forall_upd; [exact HI|apply RI_hash; exact (Forall_nth _ _ _ _ HI En)]|].
      split; [apply upd_length; exact Hlt|]. rewrite map_upd. cbn [r_store]. rewrite upd_same; [reflexivity|].
      rewrite nth_error_map, En. reflexivity.
    + exists rs. auto.
  - destruct (Nat.eqb i j) eqn:Eij; [exists rs; auto|]. apply Nat.eqb_neq in Eij.
    rewrite !nth_error_map. destruct (nth_error rs i) as [d|] eqn:Ei; cbn [option_map]; [|exists rs; auto].
    destruct (nth_error rs j) as [s|] eqn:Ej; cbn [option_map]; [|exists rs; auto].
    destruct (RI_pull d s (Forall_nth _ _ _ _ HI Ei) (Forall_nth _ _ _ _ HI Ej)) as (d' & s' & E & Hd' & Hs' & Ss & Ep).
    rewrite E, Ep. cbn [bind fst snd].
    assert (Hi: (i < length rs)%nat) by (apply nth_error_Some; congruence).
    assert (Hj: (j < length rs)%nat) by (apply nth_error_Some; congruence).
    eexists. split; [reflexivity|]. split; [apply Forall_upd; [apply Forall_upd; assumption|exact Hs']|].
    split; [rewrite upd_length; rewrite upd_length; auto|].
    rewrite !map_upd, Ss. f_equal. symmetry. apply upd_same.
    rewrite nth_upd_other; [|rewrite map_length; exact Hi|exact Eij]. rewrite nth_error_map, Ej. reflexivity.
Qed.

Theorem ev_run_refines : forall es rs, Forall RI rs ->
  exists rs', ev_run rs es = Ok rs' /\ Forall RI rs' /\ length rs' = length rs /\
    a_run (map r_store rs) es = Ok (map r_store rs').
Proof.
  induction es as [|e es IH]; intros rs HI; cbn [ev_run a_run].
  - exists rs. auto.
  - destruct (ev_step_refines rs e HI) as (rs1 & E1 & HI1 & L1 & A1). rewrite E1, A1. cbn [bind].
    destruct (IH rs1 HI1) as (rs' & E' & HI' & L' & A'). exists rs'. split; [exact E'|]. split; [exact HI'|].
    split; [congruence|exact A'].
Qed.

(* C06 refinement: from n empty replicas, under ANY schedule: the run succeeds (no panic), and every replica's
   incremental tree (with whatever caches it carries) hashes and serialises exactly like a tree freshly built
   from its store *)
Theorem C06_refinement n es : exists rs, ev_run (fresh n) es = Ok rs /\ length rs = n /\
  a_run (repeat [] n) es = Ok (map r_store rs) /\
  Forall (fun rp => store_ok (r_store rp) /\
     exists t0, run (ops_of V Val vh (r_store rp)) = Ok t0 /\
       strip digest V (root digest V (r_tree rp)) = strip digest V (root digest V t0) /\
       snd (mst_root_hash (r_tree rp)) = snd (mst_root_hash t0) /\
       tree_ranges (r_tree rp) = tree_ranges t0) rs.
Proof.
  destruct (ev_run_refines es (fresh n) (RI_fresh n)) as (rs & E & HI & L & A).
  exists rs. split; [exact E|]. split; [rewrite L; unfold fresh; apply repeat_length|].
  split; [rewrite <- A; f_equal; unfold fresh; clear; induction n as [|n IHn]; cbn [repeat map r_store]; [reflexivity|rewrite <- IHn; reflexivity]|].
  eapply Forall_impl; [|exact HI]. intros rp (Hs & ops & Hr & Hf). split; [exact Hs|].
  destruct (run_inv digest V H lvl_of lvl_of_u8 (ops_of V Val vh (r_store rp))) as (t0 & R0 & _ & _).
  assert (EF: final_map ops = final_map (ops_of V Val vh (r_store rp))).
  { rewrite Hf. symmetry. apply (final_map_store V Val vh). exact Hs. }
  destruct (C01_history_independence digest V H lvl_of lvl_of_u8 _ _ EF) as (a & b & Ra & Rb & Es & EH).
  rewrite Hr in Ra. rewrite R0 in Rb. injection Ra as <-. injection Rb as <-.
  exists t0. split; [exact R0|]. split; [exact Es|]. unfold TreeRL.tree_ranges. rewrite EH. auto.
Qed.
End SM.
