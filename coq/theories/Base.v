From Coq Require Export List NArith Lia Bool.
Export ListNotations.
Open Scope N_scope.
Inductive res (A : Type) := Ok (a : A) | Panic (why : nat) | Fuel.
Arguments Ok {A} a. Arguments Panic {A} why. Arguments Fuel {A}.
Definition bind {A B} (r : res A) (f : A -> res B) : res B :=
  match r with Ok a => f a | Panic w => Panic w | Fuel => Fuel end.
Notation "'do' x <- r ; k" := (bind r (fun x => k)) (at level 200, x name, r at level 100, k at level 200).
Notation "'do2' ( a , b ) <- r ; k" := (bind r (fun ab => let '(a,b) := ab in k)) (at level 200, a name, b name, r at level 100, k at level 200).
Definition assert (b : bool) (w : nat) : res unit := if b then Ok tt else Panic w.
