From MST Require Import Base TreeM Diff Spec TreeRanges HashInj Intervals DiffWalk.

Section DT.
Variable digest V : Type.
Variable H : list (tok digest V) -> digest.
Variable deqb : digest -> digest -> bool.
Hypothesis deqb_spec : forall a b, deqb a b = true <-> a = b.
Hypothesis Hinj : forall a b, H a = H b -> a = b.

Notation page := (page digest V).
Notation prange := (prange digest).
Notation ps := (ps digest). Notation pe := (pe digest). Notation ph := (ph digest).
Notation content := (content digest V).
Notation ref_hash := (ref_hash digest V H).
Notation sorted := (sorted V).
Notation first_key := (first_key V). Notation last_key := (last_key V).
Notation diff := (diff digest deqb).
Notation superset := (superset digest).

(* r is the range entry of a page whose content is a segment of c *)
Definition seg (c : list (N * V)) (r : prange) : Prop :=
  exists q a b, c = a ++ content q ++ b /\ first_key (content q) = Some (ps r) /\ last_key (content q) = Some (pe r) /\ ph r = ref_hash q.
(* l is the serialisation of a tree with content c *)
Record RL (c : list (N * V)) (l : list prange) : Prop := {
  rl_sorted : sorted c;
  rl_empty : c = [] -> l = [];
  rl_root : c <> [] -> exists r0 rest, l = r0 :: rest /\ first_key c = Some (ps r0) /\ last_key c = Some (pe r0) /\
                        exists q, content q = c /\ ph r0 = ref_hash q;
  rl_seg : Forall (seg c) l;
  rl_strict : forall r0 rest, l = r0 :: rest -> Forall (fun r => superset r r0 = false) rest }.

Fixpoint lookup (k : N) (l : list (N * V)) : option V :=
  match l with [] => None | (k', v) :: r => if k =? k' then Some v else lookup k r end.
Lemma lookup_sorted c k v : sorted c -> In (k, v) c -> lookup k c = Some v.
Proof.
  unfold Spec.sorted. induction c as [|[k' v'] c IH]; intros Hs Hin; [destruct Hin|].
  rewrite keys_cons in Hs. inversion Hs as [|? ? Hs' Hf]; subst. cbn [fst] in *. cbn [lookup]. destruct Hin as [[= -> ->]|Hin].
  - now rewrite N.eqb_refl.
  - assert (In k (keys c)) by (unfold keys; apply in_map_iff; exists (k, v); auto).
    rewrite Forall_forall in Hf. specialize (Hf _ H0). replace (k =? k') with false by (symmetry; apply N.eqb_neq; lia). auto.
Qed.
Lemma key_has_value (c : list (N * V)) k : In k (keys c) -> exists v, In (k, v) c.
Proof. unfold keys. intros Hin. apply in_map_iff in Hin as ([k' v] & E & Hin). cbn in E. subst. eauto. Qed.
Lemma in_keys (c : list (N * V)) k v : In (k, v) c -> In k (keys c).
Proof. intros. unfold keys. apply in_map_iff. exists (k, v). auto. Qed.

(* ---- facts about segments of a sorted content ---- *)
Lemma first_in (m : list (N * V)) k : first_key m = Some k -> In k (keys m).
Proof. destruct m as [|[k' v] m]; [discriminate|]. intros [= ->]. rewrite keys_cons. now left. Qed.
Lemma last_in (m : list (N * V)) k : last_key m = Some k -> In k (keys m).
Proof. unfold TreeRanges.last_key. destruct (rev m) as [|[k' v] r] eqn:E; [discriminate|]. intros [= ->].
  apply (f_equal (@rev _)) in E. rewrite rev_involutive in E. cbn in E. rewrite E, keys_app, in_app_iff. right. rewrite keys_cons. now left. Qed.

Lemma seg_facts c r f l : sorted c -> seg c r -> first_key c = Some f -> last_key c = Some l ->
  ps r <= pe r /\ f <= ps r /\ pe r <= l /\ In (ps r) (keys c) /\ In (pe r) (keys c).
Proof.
  intros Hs (q & a & b & -> & F & L & _) Ff Ll.
  destruct (infix_bounds V (fun x => x) a (content q) b _ _ _ _ Hs F L Ff Ll) as (A & B & C).
  split; [exact B|]. split; [exact A|]. split; [exact C|].
  rewrite !keys_app, !in_app_iff. split; right; left; [apply first_in|apply last_in]; assumption.
Qed.

(* ---- closed-form evaluations of the walk ---- *)
Lemma superset_refl (r : prange) : superset r r = true.
Proof. unfold Diff.superset. rewrite !N.leb_refl. reflexivity. Qed.
Lemma shrink_strict p l cur : Forall (fun r => superset r p = false) cur -> shrink digest p l cur = (l, cur).
Proof. destruct cur as [|v r]; cbn [shrink]; [reflexivity|]. intros F. inversion F; subst. rewrite H2. reflexivity. Qed.
Lemma skip_all p cur : Forall (fun r => superset p r = true) cur -> skip_while digest (superset p) cur = [].
Proof. induction cur as [|v r IH]; cbn [skip_while]; [reflexivity|]. intros F. inversion F; subst. rewrite H2. auto. Qed.

Lemma RL_root_facts c l r0 rest : RL c l -> l = r0 :: rest ->
  ps r0 <= pe r0 /\ Forall (fun r => superset r0 r = true) rest /\ first_key c = Some (ps r0) /\ last_key c = Some (pe r0).
Proof.
  intros R E. assert (Hne: c <> []). { intros Ec. rewrite (rl_empty _ _ R Ec) in E. discriminate. }
  destruct (rl_root _ _ R Hne) as (r0' & rest' & E' & F & L & _). rewrite E in E'. injection E' as <- <-.
  pose proof (rl_seg _ _ R) as Sg. rewrite E in Sg. inversion Sg as [|? ? S0 Srest]; subst.
  destruct (seg_facts _ _ _ _ (rl_sorted _ _ R) S0 F L) as (W & _).
  split; [exact W|]. split; [|auto]. rewrite Forall_forall in *. intros r Hr.
  destruct (seg_facts _ _ _ _ (rl_sorted _ _ R) (Srest _ Hr) F L) as (_ & A & B & _).
  unfold Diff.superset. apply andb_true_iff. split; apply N.leb_le; assumption.
Qed.

Theorem diff_same c l : RL c l -> diff l l = Ok [].
Proof.
  intros R. destruct l as [|r0 rest] eqn:El; [reflexivity|]. rewrite <- El in R.
  destruct (RL_root_facts _ _ _ _ R El) as (W & Win & _ & _).
  pose proof (rl_strict _ _ R _ _ El) as St.
  unfold Diff.diff. cbn [length Diff.rdiff advance_within peer loc bld]. rewrite superset_refl. cbn [advance_within]. rewrite superset_refl.
  unfold assert. cbn [bind]. rewrite (shrink_strict r0 r0 rest St).
  assert (Ed: deqb (ph r0) (ph r0) = true) by (apply deqb_spec; reflexivity). rewrite Ed.
  unfold b_con, assert. replace (ps r0 <=? pe r0) with true by (symmetry; apply N.leb_le; exact W). cbn [bind inc con app].
  rewrite (skip_all r0 rest Win). cbn [Diff.rdiff advance_within peer loc bld bind drain fst snd].
  destruct (length rest); cbn [Diff.rdiff advance_within peer loc bld bind drain fst snd];
  unfold into_diff_vec, into_vec; cbn [inc con sort_by_start fold_right ins merge_overlapping merge_go bind windows_ok];
  unfold assert; cbn [bind reduce_sync_range fold_left flat_map merge_overlapping windows_nooverlap]; reflexivity.
Qed.

Lemma into_diff_single d : ds d <= de d -> into_diff_vec (B [d] []) = Ok [d].
Proof.
  intros W. unfold into_diff_vec, into_vec. cbn [inc con sort_by_start fold_right ins merge_overlapping merge_go bind windows_ok].
  unfold assert. cbn [bind reduce_sync_range fold_left merge_overlapping merge_go windows_nooverlap]. reflexivity.
Qed.

Theorem diff_empty_local c l r0 rest : RL c l -> l = r0 :: rest -> diff [] l = Ok [DR (ps r0) (pe r0)].
Proof.
  intros R El. destruct (RL_root_facts _ _ _ _ R El) as (W & _). subst l.
  unfold Diff.diff. cbn [length Diff.rdiff advance_within peer loc bld]. rewrite superset_refl. cbn [advance_within].
  replace (ps r0 <=? pe r0) with true by (symmetry; apply N.leb_le; exact W).
  unfold b_inc, assert. replace (ps r0 <=? pe r0) with true by (symmetry; apply N.leb_le; exact W). cbn [bind inc con app bld].
  apply into_diff_single. exact W.
Qed.

Theorem diff_disjoint lL lP l0 restL p0 restP : lL = l0 :: restL -> lP = p0 :: restP ->
  ps p0 <= pe p0 -> superset p0 l0 = false -> superset l0 p0 = false ->
  diff lL lP = Ok (if ps p0 <=? N.min (ps l0) (pe p0) then [DR (ps p0) (N.min (ps l0) (pe p0))] else []).
Proof.
  intros -> -> W S1 S2.
  unfold Diff.diff. cbn [length Diff.rdiff advance_within peer loc bld]. rewrite superset_refl. cbn [advance_within]. rewrite S1, S2.
  destruct (ps p0 <=? N.min (ps l0) (pe p0)) eqn:E.
  - unfold b_inc, assert. rewrite E. cbn [bind inc con app bld]. apply into_diff_single. cbn [ds de]. apply N.leb_le. exact E.
  - cbn [bind bld]. reflexivity.
Qed.

(* sorted association lists are determined by their elements *)
Lemma sorted_ext (a b : list (N * V)) : sorted a -> sorted b -> (forall x, In x a <-> In x b) -> a = b.
Proof.
  unfold Spec.sorted. revert b. induction a as [|[k v] a IH]; intros b Sa Sb Hx.
  - destruct b as [|y b]; [reflexivity|]. exfalso. apply (Hx y). now left.
  - destruct b as [|[k' v'] b]; [exfalso; apply (Hx (k, v)); now left|].
    rewrite keys_cons in Sa, Sb. cbn [fst] in *. inversion Sa as [|? ? Sa' Fa]; inversion Sb as [|? ? Sb' Fb]; subst.
    rewrite Forall_forall in Fa, Fb.
    assert (E: (k, v) = (k', v')).
    { destruct (proj1 (Hx (k, v)) (or_introl eq_refl)) as [E|Hin]; [auto|].
      destruct (proj2 (Hx (k', v')) (or_introl eq_refl)) as [E|Hin']; [auto|].
      exfalso. pose proof (Fb _ (in_keys _ _ _ Hin)). pose proof (Fa _ (in_keys _ _ _ Hin')). lia. }
    injection E as <- <-. f_equal. apply IH; auto. intros x. split; intros Hin.
    + destruct (proj1 (Hx x) (or_intror Hin)) as [<-|Hb]; [|exact Hb]. exfalso. pose proof (Fa _ (in_keys _ _ _ Hin)). lia.
    + destruct (proj2 (Hx x) (or_intror Hin)) as [<-|Hb]; [|exact Hb]. exfalso. pose proof (Fb _ (in_keys _ _ _ Hin)). lia.
Qed.

Section Pair.
Variables (cL cP : list (N * V)) (lL lP : list prange).
Hypothesis RLl : RL cL lL.
Hypothesis RLp : RL cP lP.

Definition X (z : N) : Prop := In z (keys cP) \/ In z (keys cL).
Definition Qc (d : drange) : Prop := exists p l, seg cP p /\ seg cL l /\ ph l = ph p /\ d = DR (ps p) (pe p).
Lemma HQc : forall l p, seg cL l -> seg cP p -> deqb (ph l) (ph p) = true -> Qc (DR (ps p) (pe p)).
Proof. intros l p Sl Sp E. apply deqb_spec in E. exists p, l. auto. Qed.

(* a key of the peer that lies inside a consistent interval is held by the local tree with the same value *)
Lemma consistent_not_differing d k v : Qc d -> In (k, v) cP -> inr k d -> lookup k cL = Some v.
Proof.
  intros (p & l & (qp & a & b & Ep & Fp & Lp & Hp) & (ql & a' & b' & El & _ & _ & Hl) & Eh & ->) Hin (K1 & K2). cbn [ds de] in *.
  assert (EC: content qp = content ql).
  { apply (ref_hash_injective digest V H Hinj). congruence. }
  pose proof (rl_sorted _ _ RLp) as Sp. pose proof (rl_sorted _ _ RLl) as Sl.
  assert (Hk: In k (keys (content qp))).
  { rewrite Ep in Sp. apply (infix_contiguous V a (content qp) b _ _ Sp Fp Lp); [|lia]. rewrite <- Ep. eapply in_keys; eauto. }
  destruct (key_has_value _ _ Hk) as (v' & Hv').
  assert (In (k, v') cP) by (rewrite Ep, !in_app_iff; auto).
  assert (v' = v). { pose proof (lookup_sorted _ _ _ Sp H0). pose proof (lookup_sorted _ _ _ Sp Hin). congruence. }
  subst v'. apply lookup_sorted; [exact Sl|]. rewrite El, !in_app_iff. right. left. rewrite <- EC. exact Hv'.
Qed.

Lemma oklP : okl digest X (seg cP) lP.
Proof.
  pose proof (rl_sorted _ _ RLp) as Sp. split; rewrite Forall_forall; intros r Hr; pose proof (rl_seg _ _ RLp) as Sg; rewrite Forall_forall in Sg; specialize (Sg _ Hr).
  - destruct cP as [|x c'] eqn:Ec; [rewrite (rl_empty _ _ RLp eq_refl) in Hr; destruct Hr|].
    destruct (rl_root _ _ RLp) as (r0 & rest & _ & F & L & _); [congruence|]. rewrite <- Ec in *.
    destruct (seg_facts _ _ _ _ Sp Sg F L) as (A & _). exact A.
  - destruct cP as [|x c'] eqn:Ec; [rewrite (rl_empty _ _ RLp eq_refl) in Hr; destruct Hr|].
    destruct (rl_root _ _ RLp) as (r0 & rest & _ & F & L & _); [congruence|]. rewrite <- Ec in *.
    destruct (seg_facts _ _ _ _ Sp Sg F L) as (_ & _ & _ & A & B). unfold xp, X. auto.
Qed.
Lemma oklL : okl digest X (seg cL) lL.
Proof.
  pose proof (rl_sorted _ _ RLl) as Sp. split; rewrite Forall_forall; intros r Hr; pose proof (rl_seg _ _ RLl) as Sg; rewrite Forall_forall in Sg; specialize (Sg _ Hr).
  - destruct cL as [|x c'] eqn:Ec; [rewrite (rl_empty _ _ RLl eq_refl) in Hr; destruct Hr|].
    destruct (rl_root _ _ RLl) as (r0 & rest & _ & F & L & _); [congruence|]. rewrite <- Ec in *.
    destruct (seg_facts _ _ _ _ Sp Sg F L) as (A & _). exact A.
  - destruct cL as [|x c'] eqn:Ec; [rewrite (rl_empty _ _ RLl eq_refl) in Hr; destruct Hr|].
    destruct (rl_root _ _ RLl) as (r0 & rest & _ & F & L & _); [congruence|]. rewrite <- Ec in *.
    destruct (seg_facts _ _ _ _ Sp Sg F L) as (_ & _ & _ & A & B). unfold xp, X. auto.
Qed.

(* the walk, started on the two serialisations, ends in a state satisfying the invariants *)
Lemma walk_ok p0 restP : lP = p0 :: restP ->
  exists s', rdiff digest deqb (S (length lP)) p0 None (ST digest lP lL (B [] [])) = Ok s' /\
    okb X Qc (bld _ s') /\ TOP digest deqb p0 (ST digest lP lL (B [] [])) s'.
Proof.
  intros E. pose proof oklP as OP. pose proof oklL as OL.
  assert (Hr: wfp digest p0 /\ xp digest X (seg cP) p0).
  { destruct OP as (A & B). rewrite E in A, B. inversion A; inversion B; subst. auto. }
  destruct Hr as (W0 & X0).
  assert (OS: oks digest X (seg cP) (seg cL) Qc (ST digest lP lL (B [] []))).
  { split; [exact OP|]. split; [exact OL|]. repeat split; constructor. }
  assert (Hlt: (length (peer digest (ST digest lP lL (B [] []))) < S (length lP))%nat) by (cbn [peer]; lia).
  destruct (rdiff_ok digest deqb X (seg cP) (seg cL) Qc HQc (S (length lP)) p0 None _ Hlt W0 X0 I OS) as (s' & Es & (_ & _ & Ob) & _ & _ & T).
  exists s'. auto.
Qed.

Lemma shrink_in p : forall cur l, fst (shrink digest p l cur) = l \/ In (fst (shrink digest p l cur)) cur.
Proof. induction cur as [|v r IH]; intros l; cbn [shrink]; [auto|]. destruct (superset v p); [|auto].
  destruct (IH v) as [E|E]; [right; left; auto|right; right; auto]. Qed.

Lemma between_first_last (c : list (N * V)) k v f l : sorted c -> In (k, v) c -> first_key c = Some f -> last_key c = Some l -> f <= k <= l.
Proof.
  intros Hs Hin F L. apply in_split in Hin as (a & b & ->).
  change (a ++ (k, v) :: b) with (a ++ [(k, v)] ++ b) in *.
  destruct (infix_bounds V (fun x => x) a [(k, v)] b k k f l Hs eq_refl eq_refl F L) as (A & _ & C). lia.
Qed.

Definition span_covers : Prop :=
  exists a b a' b', first_key cP = Some a /\ last_key cP = Some b /\ first_key cL = Some a' /\ last_key cL = Some b' /\ a <= a' /\ b' <= b.

Theorem c07_nested k v : cL <> [] -> span_covers -> In (k, v) cP -> lookup k cL <> Some v ->
  exists rs, diff lL lP = Ok rs /\ inl k rs.
Proof.
  intros HneL (a & b & a' & b' & Fp & Lp & Fl & Ll & Ha & Hb) Hin Hdiff.
  assert (HneP: cP <> []) by (intros E; rewrite E in Hin; destruct Hin).
  destruct (rl_root _ _ RLp HneP) as (p0 & restP & EP & Fp0 & Lp0 & q0 & Eq0 & Hq0).
  destruct (rl_root _ _ RLl HneL) as (l0 & restL & EL & Fl0 & Ll0 & _).
  assert (Hsup: superset p0 l0 = true).
  { unfold Diff.superset. apply andb_true_iff. split; apply N.leb_le; congruence || (assert (Some a = Some (ps p0)) by congruence; assert (Some a' = Some (ps l0)) by congruence;
      assert (Some b = Some (pe p0)) by congruence; assert (Some b' = Some (pe l0)) by congruence; repeat match goal with X : Some _ = Some _ |- _ => injection X as X end; lia). }
  assert (Hself: superset p0 p0 = true). { unfold Diff.superset. rewrite !N.leb_refl. reflexivity. }
  destruct (walk_ok p0 restP EP) as (s' & Es & Ob & T).
  unfold Diff.diff. rewrite EP. rewrite <- EP. rewrite Es. cbn [bind].
  destruct Ob as (W1 & W2 & _ & _ & Wq).
  destruct (into_diff_vec_ok (bld _ s') W1 W2) as (out & Eo & _ & _ & _ & R2 & _).
  exists out. split; [exact Eo|]. apply R2.
  - (* the root range was recorded *)
    unfold TOP in T. cbn [peer loc] in T. rewrite EP, EL in T. specialize (T Hself Hsup).
    destruct (deqb (ph (fst (shrink digest p0 l0 restL))) (ph p0)) eqn:Ed.
    + exfalso. apply deqb_spec in Ed.
      assert (Sl': seg cL (fst (shrink digest p0 l0 restL))).
      { pose proof (rl_seg _ _ RLl) as Sg. rewrite EL, Forall_forall in Sg. apply Sg.
        destruct (shrink_in p0 restL l0) as [->|Hi]; [now left|now right]. }
      destruct Sl' as (ql & x & y & Ec & _ & _ & Hql).
      assert (EC: content q0 = content ql). { apply (ref_hash_injective digest V H Hinj). congruence. }
      apply Hdiff. apply lookup_sorted; [exact (rl_sorted _ _ RLl)|]. rewrite Ec, !in_app_iff. right. left. rewrite <- EC, Eq0. exact Hin.
    + exists (DR (ps p0) (pe p0)). split; [apply T; reflexivity|]. unfold inr. cbn [ds de].
      assert (first_key cP = Some (ps p0)) by exact Fp0. assert (last_key cP = Some (pe p0)) by exact Lp0.
      apply (between_first_last cP k v _ _ (rl_sorted _ _ RLp) Hin H0 H1).
  - (* and the key is inside no consistent interval *)
    intros (d & Hd & Hk). rewrite Forall_forall in Wq. apply Hdiff. eapply consistent_not_differing; eauto.
Qed.
End Pair.

(* ---- C04: empty diffs in both directions imply equal content ---- *)
Variable veq_dec : forall a b : V, {a = b} + {a <> b}.

Lemma lookup_in k v (c : list (N * V)) : lookup k c = Some v -> In (k, v) c.
Proof. induction c as [|[k' v'] c IH]; cbn [lookup]; [discriminate|]. destruct (k =? k') eqn:E.
  - apply N.eqb_eq in E. intros [= ->]. subst. now left.
  - intros Hl. right. auto. Qed.

Lemma subset_of_empty_diff cL cP lL lP : RL cL lL -> RL cP lP -> cL <> [] -> span_covers cL cP ->
  diff lL lP = Ok [] -> forall k v, In (k, v) cP -> In (k, v) cL.
Proof.
  intros RLl RLp Hne Hspan Hd k v Hin. apply lookup_in.
  assert (Hdec: {lookup k cL = Some v} + {lookup k cL <> Some v}).
  { destruct (lookup k cL) as [v'|]; [destruct (veq_dec v' v) as [->|Hn]; [left; reflexivity|right; congruence]|right; discriminate]. }
  destruct Hdec as [E|Hn]; [exact E|]. exfalso.
  destruct (c07_nested cL cP lL lP RLl RLp k v Hne Hspan Hin Hn) as (rs & E & (r & Hr & _)).
  rewrite Hd in E. injection E as <-. destruct Hr.
Qed.

Lemma first_last_ex (c : list (N * V)) : c <> [] -> exists f l, first_key c = Some f /\ last_key c = Some l.
Proof. intros Hne. destruct c as [|[k v] c]; [congruence|]. exists k. unfold TreeRanges.last_key.
  destruct (rev ((k, v) :: c)) as [|[k' v'] r] eqn:E; [|eauto].
  apply (f_equal (@rev _)) in E. rewrite rev_involutive in E. cbn in E. discriminate. Qed.

Theorem c04 cA cB lA lB : RL cA lA -> RL cB lB -> diff lA lB = Ok [] -> diff lB lA = Ok [] -> cA = cB.
Proof.
  intros RA RB DAB DBA.
  destruct cA as [|xa cA'] eqn:EA; destruct cB as [|xb cB'] eqn:EB; [reflexivity| | |].
  - (* A empty, B not: diff [] lB is the whole span *)
    exfalso. rewrite (rl_empty _ _ RA eq_refl) in DAB. destruct (rl_root _ _ RB) as (r0 & rest & El & _); [congruence|].
    rewrite (diff_empty_local _ _ _ _ RB El) in DAB. discriminate.
  - exfalso. rewrite (rl_empty _ _ RB eq_refl) in DBA. destruct (rl_root _ _ RA) as (r0 & rest & El & _); [congruence|].
    rewrite (diff_empty_local _ _ _ _ RA El) in DBA. discriminate.
  - rewrite <- EA, <- EB in *. assert (NA: cA <> []) by congruence. assert (NB: cB <> []) by congruence.
    destruct (rl_root _ _ RA NA) as (a0 & restA & ElA & FA & LA & _). destruct (rl_root _ _ RB NB) as (b0 & restB & ElB & FB & LB & _).
    destruct (RL_root_facts _ _ _ _ RA ElA) as (WA & _). destruct (RL_root_facts _ _ _ _ RB ElB) as (WB & _).
    (* spans: A = [ps a0, pe a0], B = [ps b0, pe b0] *)
    assert (SAB: forall k v, In (k, v) cB -> ps b0 <= k <= pe b0) by (intros k v Hk; exact (between_first_last cB k v _ _ (rl_sorted _ _ RB) Hk FB LB)).
    assert (SAA: forall k v, In (k, v) cA -> ps a0 <= k <= pe a0) by (intros k v Hk; exact (between_first_last cA k v _ _ (rl_sorted _ _ RA) Hk FA LA)).
    assert (InA0: In (ps a0) (keys cA) /\ In (pe a0) (keys cA)) by (split; [apply first_in|apply last_in]; assumption).
    assert (InB0: In (ps b0) (keys cB) /\ In (pe b0) (keys cB)) by (split; [apply first_in|apply last_in]; assumption).
    destruct (superset b0 a0) eqn:SBA.
    + (* B's span covers A's: A <- B is complete, so B is a subset of A; then spans are equal and symmetric *)
      apply andb_true_iff in SBA as (S1 & S2). apply N.leb_le in S1, S2.
      assert (HBA: forall k v, In (k, v) cB -> In (k, v) cA).
      { apply (subset_of_empty_diff cA cB lA lB RA RB NA); [|exact DAB]. exists (ps b0), (pe b0), (ps a0), (pe a0). repeat split; auto. }
      assert (Eps: ps b0 = ps a0 /\ pe b0 = pe a0).
      { destruct InB0 as (I1 & I2). destruct (key_has_value _ _ I1) as (v1 & H1). destruct (key_has_value _ _ I2) as (v2 & H2).
        pose proof (SAA _ _ (HBA _ _ H1)). pose proof (SAA _ _ (HBA _ _ H2)). lia. }
      destruct Eps as (E1 & E2).
      assert (HAB: forall k v, In (k, v) cA -> In (k, v) cB).
      { apply (subset_of_empty_diff cB cA lB lA RB RA NB); [|exact DBA]. exists (ps a0), (pe a0), (ps b0), (pe b0). repeat split; auto; lia. }
      apply sorted_ext; eauto using rl_sorted. intros [k v]. split; auto.
    + destruct (superset a0 b0) eqn:SAB'.
      * (* A's span covers B's: symmetric *)
        apply andb_true_iff in SAB' as (S1 & S2). apply N.leb_le in S1, S2.
        assert (HAB: forall k v, In (k, v) cA -> In (k, v) cB).
        { apply (subset_of_empty_diff cB cA lB lA RB RA NB); [|exact DBA]. exists (ps a0), (pe a0), (ps b0), (pe b0). repeat split; auto. }
        assert (Eps: ps a0 = ps b0 /\ pe a0 = pe b0).
        { destruct InA0 as (I1 & I2). destruct (key_has_value _ _ I1) as (v1 & H1). destruct (key_has_value _ _ I2) as (v2 & H2).
          pose proof (SAB _ _ (HAB _ _ H1)). pose proof (SAB _ _ (HAB _ _ H2)). lia. }
        destruct Eps as (E1 & E2).
        assert (HBA: forall k v, In (k, v) cB -> In (k, v) cA).
        { apply (subset_of_empty_diff cA cB lA lB RA RB NA); [|exact DAB]. exists (ps b0), (pe b0), (ps a0), (pe a0). repeat split; auto; lia. }
        apply sorted_ext; eauto using rl_sorted. intros [k v]. split; auto.
      * (* neither span covers the other: one direction is literally non-empty *)
        exfalso.
        rewrite (diff_disjoint lA lB a0 restA b0 restB ElA ElB WB SBA SAB') in DAB.
        rewrite (diff_disjoint lB lA b0 restB a0 restA ElB ElA WA SAB' SBA) in DBA.
        destruct (ps b0 <=? N.min (ps a0) (pe b0)) eqn:E1; [discriminate|].
        destruct (ps a0 <=? N.min (ps b0) (pe a0)) eqn:E2; [discriminate|].
        apply N.leb_gt in E1, E2. lia.
Qed.
End DT.
