From MST Require Import Sip Base TreeM Diff.
Require Extraction ExtrOcamlBasic.
Extraction "allm.ml" siphash24_128 mst_init mst_upsert mst_root_hash mst_serialise node_iter traverse level diff.
