(* A concrete instance of the section parameters used throughout: digests are token streams themselves
   (prefix-free encoded as lists of N), so the page "hash" is injective by construction. It shows that the
   premises of the C03-C07 theorems (Hinj, deqb_spec, veq_dec, lvl_of < 255) are jointly satisfiable, and gives
   closed instances on which the statements are evaluated by vm_compute (non-vacuity Examples). *)
From MST Require Import Base TreeM Diff Spec TreeUpsert TreeHash TreeInv TreeRanges Intervals DiffTrees TreeRL DiffTop Sync SyncTop.

Definition dg := list N.
Fixpoint enc (l : list (tok dg N)) : dg :=
  match l with
  | [] => []
  | TD _ _ d :: r => 0 :: N.of_nat (length d) :: d ++ enc r
  | TK _ _ k :: r => 1 :: k :: enc r
  | TV _ _ v :: r => 2 :: v :: enc r
  end.
Lemma app_inj_len {A} : forall (a a' b b' : list A), length a = length a' -> a ++ b = a' ++ b' -> a = a' /\ b = b'.
Proof.
  induction a as [|x a IH]; intros [|x' a'] b b' L E; cbn in *; try discriminate; [auto|].
  injection E as <- E. injection L as L. destruct (IH _ _ _ L E) as (-> & ->). auto.
Qed.
Theorem enc_inj : forall a b, enc a = enc b -> a = b.
Proof.
  induction a as [|t a IH]; intros [|t' b] E.
  - reflexivity.
  - destruct t'; discriminate.
  - destruct t; discriminate.
  - destruct t as [d|k|v], t' as [d'|k'|v']; cbn [enc] in E; try discriminate.
    + injection E as L E. apply Nat2N.inj in L. destruct (app_inj_len _ _ _ _ L E) as (-> & E'). f_equal. apply IH. exact E'.
    + injection E as -> E. f_equal. apply IH. exact E.
    + injection E as -> E. f_equal. apply IH. exact E.
Qed.
Definition deq (a b : dg) : bool := if list_eq_dec N.eq_dec a b then true else false.
Lemma deq_spec a b : deq a b = true <-> a = b.
Proof. unfold deq. destruct (list_eq_dec N.eq_dec a b); split; congruence. Qed.
Definition lv (k : N) : N := match k with 1 => 2 | 0 => 1 | 4 => 2 | 7 => 1 | _ => 0 end.
Lemma lv_u8 k : lv k < 255.
Proof. unfold lv. destruct k as [|p]; [lia|]. repeat (destruct p; try lia). Qed.

(* all premises of the C03-C07 theorems hold for this instance *)
Example premises_satisfiable :
  (forall a b : list (tok dg N), enc a = enc b -> a = b) /\ (forall a b, deq a b = true <-> a = b) /\
  (forall k, lv k < 255) /\ inhabited (forall a b : N, {a = b} + {a <> b}).
Proof. split; [exact enc_inj|]. split; [exact deq_spec|]. split; [exact lv_u8|exact (inhabits N.eq_dec)]. Qed.

(* the F1 history (keys 0,1,2 on levels 1,2,0: upsert 2, upsert 0, hash, upsert 1) and its sorted twin: different
   histories, same final map - the premise of C01/C08 is met by distinct histories, and on the (repaired) model
   they do yield the same hashed tree and an empty diff *)
Definition h1 : list (op N) := [Upsert N 2 7; Upsert N 0 5; HashReq N; Upsert N 1 6].
Definition h2 : list (op N) := [Upsert N 0 5; Upsert N 1 6; Upsert N 2 7].
Example C01_premise_nontrivial : h1 <> h2 /\ final_map N h1 = final_map N h2 /\ final_map N h1 <> [].
Proof. split; [discriminate|]. split; [reflexivity|discriminate]. Qed.
Example C01_instance :
  match run dg N enc lv h1, run dg N enc lv h2 with
  | Ok t1, Ok t2 => mst_root_hash dg N enc t1 = mst_root_hash dg N enc t2 /\ tree_diff dg N enc deq t1 t2 = Ok []
                    /\ plvl _ _ (root _ _ t1) = 2 /\ phigh _ _ (root _ _ t1) <> None
  | _, _ => False
  end.
Proof. vm_compute. split; [reflexivity|]. split; [reflexivity|]. split; [reflexivity|discriminate]. Qed.

(* C07/C04/C12: peer span covers the local span, one differing value (key 1) and one missing key (4) *)
Definition hL : list (op N) := [Upsert N 1 6; Upsert N 2 7].
Definition hP : list (op N) := [Upsert N 0 5; Upsert N 1 9; Upsert N 2 7; Upsert N 4 8; HashReq N; Upsert N 7 3].
Example C07_premise_nontrivial :
  final_map N hL <> [] /\ span_covers N (final_map N hL) (final_map N hP) /\
  In (1, 9) (final_map N hP) /\ lookup N 1 (final_map N hL) <> Some 9.
Proof.
  split; [discriminate|]. split.
  - exists 0, 7, 1, 2. vm_compute. repeat split; try reflexivity; discriminate.
  - split; [vm_compute; auto|vm_compute; discriminate].
Qed.
Example C07_instance :
  match run dg N enc lv hL, run dg N enc lv hP with
  | Ok tL, Ok tP => tree_diff dg N enc deq tL tP = Ok [DR 0 7] /\ tree_diff dg N enc deq tP tL = Ok []
  | _, _ => False
  end.
Proof. vm_compute. split; reflexivity. Qed.


(* C05: two different stores with partially overlapping spans (max merge) *)
Definition sA : store N := [(0, 5); (2, 7); (4, 1)].
Definition sB : store N := [(1, 9); (2, 3); (4, 1); (7, 2)].
(* the spans only partially overlap: pulling A <- B changes nothing, so (C05_progress) B <- A must change B *)
Example C05_instance :
  store_ok N sA /\ store_ok N sB /\ sA <> sB /\
  pull dg deq N N.max (ser dg N enc lv N (fun x => x)) sA sB = Ok sA /\
  pull dg deq N N.max (ser dg N enc lv N (fun x => x)) sB sA = Ok [(0, 5); (1, 9); (2, 3); (4, 1); (7, 2)].
Proof. split; [repeat constructor; lia|]. split; [repeat constructor; lia|]. split; [discriminate|]. vm_compute. split; reflexivity. Qed.
