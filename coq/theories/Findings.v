(* Finding F1, formally: the model with the ORIGINAL split condition (flag [fixed := false], i.e. the code as it
   was before commit 541c247) violates C02 - a reachable state whose cached root digest, as returned by the next
   hash request, is not the reference digest of the tree. The witness is the four-step history of DESIGN.md
   section 1; evaluated by vm_compute on the injective instance of Instances.v. With [fixed := true] (the
   repaired code, which is what every theorem of this development is about) the same history is fine. *)
From MST Require Import Base TreeM Spec TreeInv Instances.

Definition step_f (fixed : bool) (t : mst dg N) (o : op N) : res (mst dg N) :=
  match o with
  | Upsert _ k v => mst_upsert dg N fixed t k (lv k) v
  | HashReq _ => Ok (fst (mst_root_hash dg N enc t))
  end.
Fixpoint run_f (fixed : bool) (t : mst dg N) (ops : list (op N)) : res (mst dg N) :=
  match ops with [] => Ok t | o :: r => do t' <- step_f fixed t o; run_f fixed t' r end.

Lemma run_f_true ops : forall t, run_f true t ops = run_from dg N enc lv t ops.
Proof. induction ops as [|o r IH]; intros t; cbn [run_f run_from]; [reflexivity|].
  destruct o; cbn [step_f step]; [destruct (mst_upsert dg N true t k (lv k) v); cbn [bind]; auto|cbn [bind]; auto]. Qed.

Theorem F1_unrepaired_refutes_C02 :
  exists ops t, run_f false (mst_init dg N) ops = Ok t /\
    snd (mst_root_hash dg N enc t) <> ref_hash dg N enc (root dg N t).
Proof. exists h1. eexists. split; [vm_compute; reflexivity|]. vm_compute. discriminate. Qed.
Theorem F1_repaired_ok :
  exists t, run_f true (mst_init dg N) h1 = Ok t /\ snd (mst_root_hash dg N enc t) = ref_hash dg N enc (root dg N t).
Proof. eexists. split; [vm_compute; reflexivity|]. vm_compute. reflexivity. Qed.
