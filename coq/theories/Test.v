From MST Require Import Base TreeM Diff Statements.
(* concrete toy instance: digest = list of tokens flattened to N list (injective enough for tests) *)
Definition dg := list N.
Fixpoint enc (l : list (tok dg N)) : dg :=
  match l with [] => [] | TD _ _ d :: r => 1 :: N.of_nat (length d) :: d ++ enc r | TK _ _ k :: r => 2 :: k :: enc r | TV _ _ v :: r => 3 :: v :: enc r end.
Definition deq (a b : dg) : bool := if list_eq_dec N.eq_dec a b then true else false.
Definition lv (k : N) : N := match k with 1 => 1 | 4 => 2 | 7 => 1 | _ => 0 end.
Definition ops1 := [Upsert N 2 20; Upsert N 0 1; HashReq N; Upsert N 1 10; Upsert N 4 40; Upsert N 3 30; HashReq N; Upsert N 7 70; Upsert N 5 50].
Definition T := run dg N enc lv ops1.
Eval vm_compute in match T with Ok t => Some (content dg N (root _ _ t), final_map N ops1) | _ => None end.
(* C17_prefix instance, all cut points *)
Definition prefix_ok (t : mst dg N) (cut : nat) : bool :=
  let answers := fun i => negb (Nat.eqb i cut) in
  let full := full_events dg N t in
  let k := first_false answers (length full) in
  let '(evs, b) := traverse _ _ answers t in
  Nat.eqb (length evs) (length (firstn (S k) full)) && Bool.eqb b (Nat.leb (length full) k) && Nat.eqb (length evs) (Nat.min (S cut) (length full)).
Eval vm_compute in match T with Ok t => Some (length (full_events dg N t), forallb (prefix_ok t) (seq 0 40)) | _ => None end.
(* pulls *)
Definition st1 : store N := [(0, 5); (2, 7); (4, 1)].
Definition st2 : store N := [(1, 9); (2, 3); (4, 1); (7, 2)].
Eval vm_compute in (pull dg N deq enc lv N (fun x => x) N.max st1 st2, pull dg N deq enc lv N (fun x => x) N.max st2 st1, disagree N N.eqb st1 st2).
Eval vm_compute in sync_rounds dg N deq enc lv N (fun x => x) N.max (disagree N N.eqb st1 st2) st1 st2.
Eval vm_compute in pointwise_join N N.max st1 st2.
Eval vm_compute in sync_rounds dg N deq enc lv N (fun x => x) (fun _ f => f) (disagree N N.eqb st1 st2) st1 st2.
(* C06 toy schedule *)
Definition es := [Write N 0 1 5; Write N 1 1 9; Pull N 0 1; Write N 2 4 3; HashEv N 2; Write N 0 2 2; Pull N 2 0; Write N 1 7 7].
Definition blk := [Pull N 0 1; Pull N 1 0; Pull N 0 2; Pull N 2 0; Pull N 1 2; Pull N 2 1].
Eval vm_compute in match ev_run dg N deq enc lv N (fun x => x) N.max (fresh dg N N 3) (es ++ blk ++ blk) with Ok rs => Some (map (r_store _ _ _) rs, written N N.max es) | _ => None end.
