From MST Require Export Base TreeM.

Section D.
Variable digest : Type.
Variable deqb : digest -> digest -> bool.

Notation prange := (prange digest).
Notation ps := (ps digest). Notation pe := (pe digest). Notation ph := (ph digest).
Record drange := DR { ds : N; de : N }.

Definition superset (a b : prange) : bool := (ps a <=? ps b) && (pe b <=? pe a).
Definition overlaps (self p : drange) : bool := (ds self <=? de p) && (ds p <=? de self).

(* ---- range_list.rs ---- *)
Fixpoint merge_go (last : drange) (rest : list drange) : res (list drange) :=
  match rest with
  | [] => Ok [last]
  | r :: rest' =>
    do u <- assert (ds last <=? ds r) 81;
    if de r <=? de last then merge_go last rest'
    else if ds r <=? de last then merge_go (DR (ds last) (de r)) rest'
    else do t <- merge_go r rest'; Ok (last :: t)
  end.
Definition merge_overlapping (l : list drange) : res (list drange) :=
  match l with [] => Ok [] | x :: r => merge_go x r end.

(* stable insertion sort by start *)
Fixpoint ins (x : drange) (l : list drange) : list drange :=
  match l with [] => [x] | y :: r => if ds x <=? ds y then x :: l else y :: ins x r end.
Definition sort_by_start (l : list drange) : list drange := fold_right ins [] l.

Fixpoint windows_ok (l : list drange) : bool :=
  match l with
  | a :: ((b :: _) as r) => negb (overlaps a b) && (ds a <=? de a) && (ds b <=? de b) && windows_ok r
  | _ => true
  end.
Fixpoint windows_nooverlap (l : list drange) : bool :=
  match l with
  | a :: ((b :: _) as r) => negb (overlaps a b) && windows_nooverlap r
  | _ => true
  end.

Definition into_vec (l : list drange) : res (list drange) :=
  do m <- merge_overlapping (sort_by_start l);
  do u <- assert (windows_ok m) 39;
  Ok m.

(* ---- diff_builder.rs ---- *)
Definition punch (good : drange) (bad : drange) : list drange :=
  if negb (overlaps good bad) then [bad]
  else (if ds bad <? ds good then [DR (ds bad) (ds good)] else []) ++
       (if de good <? de bad then [DR (de good) (de bad)] else []).
Definition reduce_sync_range (bad good : list drange) : res (list drange) :=
  let bad' := fold_left (fun b g => flat_map (punch g) b) good bad in
  do m <- merge_overlapping bad';
  do u <- assert (windows_nooverlap m) 104;
  Ok m.

Record builder := B { inc : list drange; con : list drange }.  (* push order: appended at the end *)
Definition b_inc (b : builder) (s e : N) : res builder :=
  do u <- assert (s <=? e) 27; Ok (B (inc b ++ [DR s e]) (con b)).
Definition b_con (b : builder) (s e : N) : res builder :=
  do u <- assert (s <=? e) 27; Ok (B (inc b) (con b ++ [DR s e])).
Definition into_diff_vec (b : builder) : res (list drange) :=
  do i <- into_vec (inc b); do c <- into_vec (con b); reduce_sync_range i c.

(* ---- diff.rs ---- *)
Record st := ST { peer : list prange; loc : list prange; bld : builder }.

Definition advance_within (parent : prange) (cur : list prange) : option prange * list prange :=
  match cur with
  | [] => (None, [])
  | p :: r => if superset parent p then (Some p, r) else (None, cur)
  end.

Fixpoint skip_while (f : prange -> bool) (l : list prange) : list prange :=
  match l with [] => [] | x :: r => if f x then skip_while f r else l end.
(* local.next_if(|v| v.is_superset_of(&p)) loop: returns last taken *)
Fixpoint shrink (p : prange) (l : prange) (cur : list prange) : prange * list prange :=
  match cur with
  | v :: r => if superset v p then shrink p v r else (l, cur)
  | [] => (l, [])
  end.
Fixpoint drain (root : prange) (cur : list prange) (b : builder) : res (list prange * builder) :=
  match cur with
  | p :: r => if superset root p then do b' <- b_inc b (ps p) (pe p); drain root r b' else Ok (cur, b)
  | [] => Ok ([], b)
  end.

Fixpoint rdiff (fuel : nat) (root : prange) (last_p : option prange) (s : st) : res st :=
  match fuel with
  | O => Fuel
  | S f =>
    match advance_within root (peer s) with
    | (None, _) => Ok s
    | (Some p, peer1) =>
      match advance_within p (loc s) with
      | (None, _) =>
        match loc s with
        | l0 :: _ =>
          if superset l0 p then Ok (ST peer1 (loc s) (bld s))
          else
            let start := match last_p with Some v => pe v | None => ps root end in
            let e := N.min (ps l0) (pe p) in
            if start <=? e then do b <- b_inc (bld s) start e; Ok (ST peer1 (loc s) b)
            else Ok (ST peer1 (loc s) (bld s))
        | [] =>
            let start := match last_p with Some v => pe v | None => ps root end in
            let e := pe p in
            if start <=? e then do b <- b_inc (bld s) start e; Ok (ST peer1 [] b)
            else Ok (ST peer1 [] (bld s))
        end
      | (Some l, loc1) =>
        do u <- assert (superset root p) 272;
        let '(l', loc2) := shrink p l loc1 in
        do s2 <- (if deqb (ph l') (ph p)
                  then do b <- b_con (bld s) (ps p) (pe p); Ok (ST (skip_while (superset p) peer1) loc2 b)
                  else do b <- b_inc (bld s) (ps p) (pe p); Ok (ST peer1 loc2 b));
        (* recurse_subtree(&p) *)
        do s3 <- rdiff f p None s2;
        do pb <- drain p (peer s3) (bld s3);
        let s4 := ST (fst pb) (loc s3) (snd pb) in
        rdiff f root (Some p) s4
      end
    end
  end.

Definition diff (local peer_ : list prange) : res (list drange) :=
  match peer_ with
  | [] => Ok []
  | root :: _ =>
    do s <- rdiff (S (length peer_)) root None (ST peer_ local (B [] []));
    into_diff_vec (bld s)
  end.
End D.

