(* C18 — every configuration. All property theorems are universally quantified over the digest type, the
   value-digest type V, the page hasher H and the level function lvl_of (= level (key_digest k) base), under
   the only premise lvl_of k < 255 (u8 levels; guaranteed for digest widths <= 127 by C14_level_bound), so
   they hold for every base, width, key type and hasher. Proved here: the base/hasher changes only the
   shape, never the content. Cargo features and the three constructors are Rust items outside the model
   (checked by the configuration matrix of the differential run). *)
From MST Require Import Base TreeM Spec TreeInv LevelSpec Top.

Theorem C18_content_config_free :
  forall (digest digest' V : Type) (H : list (tok digest V) -> digest) (H' : list (tok digest' V) -> digest')
         (lvl_of lvl_of' : N -> N),
  (forall k : N, lvl_of k < 255) -> (forall k : N, lvl_of' k < 255) ->
  forall ops : list (op V), exists t t',
    run digest V H lvl_of ops = Ok t /\ run digest' V H' lvl_of' ops = Ok t' /\
    content digest V (root digest V t) = content digest' V (root digest' V t').
Proof. exact Top.C18_content_config_free. Qed.
Print Assumptions C18_content_config_free.

Theorem C18_level_fits_u8 : forall (bytes : list N) (base : N),
  (length bytes <= 127)%nat -> level bytes base < 255.
Proof. exact Top.C18_level_fits_u8. Qed.
Print Assumptions C18_level_fits_u8.
