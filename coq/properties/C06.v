(* C06 — under any schedule of writes and pulls, replicas converge once writes stop.
   Concrete replicas (SyncModel.v): each keeps its tree up to date incrementally (upsert on every write and on
   every fetched pair, hash only when it serialises; page-hash caches carried from one step into the next),
   source side snapshotted. Events: Write r k x | HashEv r | Pull dst src, any interleaving, any number of
   replicas. Merge: ANY join-semilattice (idempotent, commutative, associative). *)
From MST Require Import Base TreeM Diff Spec TreeHash TreeInv DiffTrees TreeRL DiffTop Sync SyncTop SyncRounds SyncG
  SyncModel SyncLimitG SyncFinalG.

(* refinement: every schedule runs without panic; the stores evolve as in the store-level system [a_run]; and
   every replica's incremental tree is, up to caches, the tree freshly built from its store, with the same
   root hash and the same serialised page ranges (so stale-cache effects cannot exist at any step) *)
Theorem C06_refinement :
  forall (digest V : Type) (H : list (tok digest V) -> digest) (lvl_of : N -> N),
  (forall k : N, lvl_of k < 255) ->
  forall deqb : digest -> digest -> bool, (forall a b : digest, deqb a b = true <-> a = b) ->
  forall (Val : Type) (vh : Val -> V) (merge : Val -> Val -> Val) (n : nat) (es : list (event Val)),
  exists rs : list (replica digest V Val),
    ev_run digest V H lvl_of deqb Val vh merge (fresh digest V Val n) es = Ok rs /\
    length rs = n /\
    a_run digest V H lvl_of deqb Val vh merge (repeat [] n) es = Ok (map (r_store digest V Val) rs) /\
    Forall (fun rp : replica digest V Val =>
      store_ok Val (r_store digest V Val rp) /\
      exists t0 : mst digest V,
        run digest V H lvl_of (ops_of V Val vh (r_store digest V Val rp)) = Ok t0 /\
        strip digest V (root digest V (r_tree digest V Val rp)) = strip digest V (root digest V t0) /\
        snd (mst_root_hash digest V H (r_tree digest V Val rp)) = snd (mst_root_hash digest V H t0) /\
        tree_ranges digest V H (r_tree digest V Val rp) = tree_ranges digest V H t0) rs.
Proof. exact SyncModel.C06_refinement. Qed.
Print Assumptions C06_refinement.

(* convergence and limit: after ANY schedule es from n empty replicas, EVERY continuation consisting of at
   least M blocks, each containing every ordered pair Pull i j (in any order, with anything else in between),
   succeeds and ends with every replica holding exactly [written n es] - the per-key join of everything ever
   written to an existing replica: nothing written is lost - and all replicas reporting the same root hash.
   M is computed from the stores at the moment writes stop. *)
Theorem C06_limit :
  forall (digest V : Type) (H : list (tok digest V) -> digest) (lvl_of : N -> N),
  (forall k : N, lvl_of k < 255) ->
  forall deqb : digest -> digest -> bool, (forall a b : digest, deqb a b = true <-> a = b) ->
  (forall a b : list (tok digest V), H a = H b -> a = b) ->
  forall (Val : Type) (val_dec : forall a b : Val, {a = b} + {a <> b}) (vh : Val -> V),
  (forall a b : Val, vh a = vh b -> a = b) ->
  forall merge : Val -> Val -> Val,
  (forall x : Val, merge x x = x) ->
  (forall o x : Val, merge o x = merge x o) ->
  (forall a b c : Val, merge a (merge b c) = merge (merge a b) c) ->
  forall (n : nat) (es : list (event Val)),
  exists rs0 : list (replica digest V Val),
    ev_run digest V H lvl_of deqb Val vh merge (fresh digest V Val n) es = Ok rs0 /\
    length rs0 = n /\
    (let S := map (r_store digest V Val) rs0 in
     forall blocks : list (list (nat * nat)),
     Forall (all_pairs n) blocks ->
     (M Val val_dec merge (universe Val S) S S <= length blocks)%nat ->
     exists rs : list (replica digest V Val),
       ev_run digest V H lvl_of deqb Val vh merge rs0 (pulls Val (concat blocks)) = Ok rs /\
       length rs = n /\
       (forall a : replica digest V Val, In a rs -> r_store digest V Val a = written Val merge n es) /\
       (forall a b : replica digest V Val, In a rs -> In b rs ->
          snd (mst_root_hash digest V H (r_tree digest V Val a)) =
          snd (mst_root_hash digest V H (r_tree digest V Val b)))).
Proof. exact SyncFinalG.C06_limit. Qed.
Print Assumptions C06_limit.

(* store-level core (kept pinned): M = number of (replica, key, reference entry) triples not yet absorbed;
   it strictly decreases on every changing pull, and a block of all pairs forces a change (C05_progress) *)
Theorem C06_converges :
  forall (digest V : Type) (H : list (tok digest V) -> digest) (lvl_of : N -> N),
  (forall k : N, lvl_of k < 255) ->
  forall deqb : digest -> digest -> bool, (forall a b : digest, deqb a b = true <-> a = b) ->
  (forall a b : list (tok digest V), H a = H b -> a = b) ->
  forall (Val : Type) (val_dec : forall a b : Val, {a = b} + {a <> b}) (vh : Val -> V),
  (forall a b : Val, vh a = vh b -> a = b) ->
  forall merge : Val -> Val -> Val,
  (forall x : Val, merge x x = x) ->
  (forall o x : Val, merge o x = merge x o) ->
  (forall a b c : Val, merge a (merge b c) = merge (merge a b) c) ->
  forall (U : list N) (S0 : list (store Val)) (blocks : list (list (nat * nat))) (S : list (store Val)),
  okS Val merge U S0 S -> Forall (all_pairs (length S)) blocks ->
  (M Val val_dec merge U S0 S <= length blocks)%nat ->
  all_equal Val (runp digest deqb Val merge (ser digest V H lvl_of Val vh) S (concat blocks)).
Proof.
  intros digest V H lvl_of Hl deqb Hd Hinj Val val_dec vh Hvh merge Hsel Hcomm Hassoc.
  exact (SyncG.C06_converges digest V H deqb Hd Hinj Val val_dec vh Hvh merge Hsel Hcomm Hassoc
           (ser digest V H lvl_of Val vh) (ser_RL digest V H lvl_of Hl Val vh)).
Qed.
Print Assumptions C06_converges.
