(* C06 — under any schedule of pulls, replicas converge (abstract stores; linear join merges). *)
From MST Require Import Base TreeM Diff Spec TreeInv DiffTrees TreeRL DiffTop Sync SyncTop SyncRounds Sync6.

(* PARTIAL (see DESIGN.md section 9): proved over stores whose trees are rebuilt by [ser] at every pull,
   for linear joins (max of a total order), any number of replicas, any continuation made of blocks that
   each contain every ordered pair: after [M S] blocks all stores are equal. The refinement from
   incrementally maintained trees (caches carried across pulls) to this abstract system is C01/C02. *)
Theorem C06_converges :
  forall (digest V : Type) (H : list (tok digest V) -> digest) (lvl_of : N -> N),
  (forall k : N, lvl_of k < 255) ->
  forall deqb : digest -> digest -> bool, (forall a b : digest, deqb a b = true <-> a = b) ->
  (forall a b : list (tok digest V), H a = H b -> a = b) ->
  forall (Val : Type) (val_dec : forall a b : Val, {a = b} + {a <> b}) (vh : Val -> V),
  (forall a b : Val, vh a = vh b -> a = b) ->
  forall merge : Val -> Val -> Val,
  (forall o x : Val, merge o x = o \/ merge o x = x) ->
  (forall o x : Val, merge o x = merge x o) ->
  (forall a b c : Val, merge a (merge b c) = merge (merge a b) c) ->
  forall (U : list N) (S0 : list (store Val)) (blocks : list (list (nat * nat))) (S : list (store Val)),
  okS Val U S0 S -> Forall (all_pairs (length S)) blocks ->
  (M Val val_dec merge U S0 S <= length blocks)%nat ->
  all_equal Val (runp digest deqb Val merge (ser digest V H lvl_of Val vh) S (concat blocks)).
Proof.
  intros digest V H lvl_of Hl deqb Hd Hinj Val val_dec vh Hvh merge Hsel Hcomm Hassoc.
  exact (Sync6.C06_converges digest V H deqb Hd Hinj Val val_dec vh Hvh merge Hsel Hcomm Hassoc
           (ser digest V H lvl_of Val vh) (ser_RL digest V H lvl_of Hl Val vh)).
Qed.
Print Assumptions C06_converges.
