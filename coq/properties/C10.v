(* C10 — upsert has exact map semantics. *)
From MST Require Import Base TreeM Spec TreeUpsert TreeInv Top.

(* final_map folds [ins] (sorted-assoc-list insert/overwrite) over the upserts: each distinct key once,
   last value wins, other keys untouched *)
Theorem C10_map_semantics :
  forall (digest V : Type) (H : list (tok digest V) -> digest) (lvl_of : N -> N),
  (forall k : N, lvl_of k < 255) ->
  forall ops : list (op V), exists t : mst digest V,
    run digest V H lvl_of ops = Ok t /\ content digest V (root digest V t) = final_map V ops.
Proof. exact Top.C10_map_semantics. Qed.
Print Assumptions C10_map_semantics.

Theorem C10_node_iter :
  forall (digest V : Type) (H : list (tok digest V) -> digest) (lvl_of : N -> N),
  (forall k : N, lvl_of k < 255) ->
  forall (ops : list (op V)) (t : mst digest V), run digest V H lvl_of ops = Ok t ->
  exists ns, node_iter digest V t = Ok ns /\
    map (fun n => (nkey digest V n, nval digest V n)) ns = final_map V ops.
Proof. exact Top.C10_node_iter. Qed.
Print Assumptions C10_node_iter.

(* one upsert, pointwise: the key gets the new value digest, every other key keeps its stored digest *)
Theorem C10_upsert_pointwise :
  forall (digest V : Type) (H : list (tok digest V) -> digest) (lvl_of : N -> N),
  (forall k : N, lvl_of k < 255) ->
  forall (ops : list (op V)) (t : mst digest V) (k : N) (v : V), run digest V H lvl_of ops = Ok t ->
  exists t', mst_upsert digest V true t k (lvl_of k) v = Ok t' /\
    forall k', mlookup V k' (content digest V (root digest V t')) =
               if k' =? k then Some v else mlookup V k' (content digest V (root digest V t)).
Proof. exact Top.C10_upsert_pointwise. Qed.
Print Assumptions C10_upsert_pointwise.
