(* C02 — lazily cached hashes are never stale. *)
From MST Require Import Base TreeM Spec TreeHash TreeInv TreeRL Top.

(* at every state reachable by any interleaving of upserts and hash requests: every cached page digest is
   the reference digest of its (cache-free) subtree and a cached page has a fully cached subtree; a cached
   root hash is the reference digest; hashing returns the reference digest, changes nothing but caches and
   leaves every cache filled and valid *)
Theorem C02_never_stale :
  forall (digest V : Type) (H : list (tok digest V) -> digest) (lvl_of : N -> N),
  (forall k : N, lvl_of k < 255) ->
  forall (ops : list (op V)) (t : mst digest V), run digest V H lvl_of ops = Ok t ->
  cache_ok digest V H (root digest V t) /\
  (forall d, root_hash digest V t = Some d ->
     d = ref_hash digest V H (root digest V t) /\ all_cached digest V (root digest V t)) /\
  snd (mst_root_hash digest V H t) = ref_hash digest V H (root digest V t) /\
  strip digest V (root digest V (fst (mst_root_hash digest V H t))) = strip digest V (root digest V t) /\
  cache_ok digest V H (root digest V (fst (mst_root_hash digest V H t))) /\
  all_cached digest V (root digest V (fst (mst_root_hash digest V H t))).
Proof. exact Top.C02_never_stale. Qed.
Print Assumptions C02_never_stale.

(* after ANY upsert (also one that leaves the value unchanged) the cached root hash and the serialisation
   are unavailable *)
Theorem C02_gate :
  forall (digest V : Type) (H : list (tok digest V) -> digest) (lvl_of : N -> N),
  (forall k : N, lvl_of k < 255) ->
  forall (ops : list (op V)) (t : mst digest V) (k : N) (v : V), run digest V H lvl_of ops = Ok t ->
  exists t', mst_upsert digest V true t k (lvl_of k) v = Ok t' /\
    root_hash digest V t' = None /\ mst_serialise digest V t' = Ok None.
Proof. exact Top.C02_gate. Qed.
Print Assumptions C02_gate.

Theorem C02_available :
  forall (digest V : Type) (H : list (tok digest V) -> digest) (lvl_of : N -> N),
  (forall k : N, lvl_of k < 255) ->
  forall (ops : list (op V)) (t : mst digest V), run digest V H lvl_of ops = Ok t ->
  root_hash digest V (fst (mst_root_hash digest V H t)) = Some (snd (mst_root_hash digest V H t)) /\
  exists l, mst_serialise digest V (fst (mst_root_hash digest V H t)) = Ok (Some l).
Proof. exact Top.C02_available. Qed.
Print Assumptions C02_available.
