(* C15 — no operation on a tree panics, for any history. Every debug_assert!/assert!/unwrap/expect of the
   modelled files is an explicit [Panic site] result in the model; [Ok] excludes all of them. *)
From MST Require Import Base TreeM Diff Spec TreeInv TreeRL Top.

Theorem C15_no_panic :
  forall (digest V : Type) (H : list (tok digest V) -> digest) (lvl_of : N -> N),
  (forall k : N, lvl_of k < 255) ->
  forall ops : list (op V), exists t : mst digest V, run digest V H lvl_of ops = Ok t /\
    (forall k v, exists t', mst_upsert digest V true t k (lvl_of k) v = Ok t') /\
    (exists l, tree_ranges digest V H t = Ok (Some l)) /\
    (exists ns, node_iter digest V t = Ok ns).
Proof. exact Top.C15_no_panic. Qed.
Print Assumptions C15_no_panic.

Theorem C15_diff_no_panic :
  forall (digest V : Type) (H : list (tok digest V) -> digest) (lvl_of : N -> N),
  (forall k : N, lvl_of k < 255) ->
  forall deqb : digest -> digest -> bool, (forall a b : digest, deqb a b = true <-> a = b) ->
  forall (opsA opsB : list (op V)) (tA tB : mst digest V),
  run digest V H lvl_of opsA = Ok tA -> run digest V H lvl_of opsB = Ok tB ->
  exists rs, DiffTop.tree_diff digest V H deqb tA tB = Ok rs.
Proof. exact Top.C15_diff_no_panic. Qed.
Print Assumptions C15_diff_no_panic.
