(* C13 — diff is total on untrusted page-range input (functional half; the native-stack half is the known
   finding F2, see DESIGN.md). *)
From MST Require Import Base TreeM Diff Intervals DiffWalk DiffTotal.

Theorem C13_total :
  forall (digest : Type) (deqb : digest -> digest -> bool) (local peer : list (prange digest)),
  Forall (fun r => ps digest r <= pe digest r) local ->
  Forall (fun r => ps digest r <= pe digest r) peer ->
  exists rs, diff digest deqb local peer = Ok rs /\
    Forall (fun r => ds r <= de r) rs /\ strict_asc rs /\
    Forall (fun r => In (ds r) (bounds_of digest (local ++ peer)) /\
                     In (de r) (bounds_of digest (local ++ peer))) rs.
Proof. intros digest deqb. exact (DiffTotal.C13_total_proved digest deqb). Qed.
Print Assumptions C13_total.

(* ---- the stack clause ---- *)
From MST Require Import DiffDepth.
(* [rdepth] is the same walk instrumented with the native recursion depth of the Rust code (two frames per
   nesting level); it computes exactly [rdiff] *)
Theorem C13_depth_same_walk :
  forall (digest : Type) (deqb : digest -> digest -> bool) fuel root last s,
  rdiff digest deqb fuel root last s =
  match rdepth digest deqb fuel root last s with Ok (s', _) => Ok s' | Panic w => Panic w | Fuel => Fuel end.
Proof. exact DiffDepth.rdepth_rdiff. Qed.
Print Assumptions C13_depth_same_walk.
(* depth is at most linear in the length of the peer list ... *)
Theorem C13_depth_le_length :
  forall (digest : Type) (deqb : digest -> digest -> bool) (local peer : list (prange digest)) d,
  diff_depth digest deqb local peer = Ok d -> (d <= 1 + 2 * length peer)%nat.
Proof. exact DiffDepth.diff_depth_le. Qed.
Print Assumptions C13_depth_le_length.
(* ... and REFUTED as a bounded quantity: for every n two well-formed lists of n nested ranges (digests
   differing level by level) drive the recursion 2n-1 frames deep. "Without exhausting the call stack however
   deeply nested the lists are" is therefore false of the model; replayed on the crate with a 2 MiB stack this
   is the known finding F2 (DESIGN.md section 1, known_findings.json). *)
Theorem C13_bounded_stack_refuted :
  forall (digest : Type) (deqb : digest -> digest -> bool) (hl hp : nat -> digest),
  (forall i, deqb (hl i) (hp i) = false) ->
  forall n : nat, (0 < n)%nat ->
  Forall (fun r => ps digest r <= pe digest r) (chain digest n hl 0) /\
  Forall (fun r => ps digest r <= pe digest r) (chain digest n hp 0) /\
  exists d, diff_depth digest deqb (chain digest n hl 0) (chain digest n hp 0) = Ok d /\ (2 * n <= d + 1)%nat.
Proof.
  intros digest deqb hl hp Hd n Hn. split; [apply chain_wf|]. split; [apply chain_wf|].
  exact (DiffDepth.chain_is_deep digest deqb hl hp Hd n Hn).
Qed.
Print Assumptions C13_bounded_stack_refuted.
