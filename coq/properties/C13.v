(* C13 — diff is total on untrusted page-range input (functional half; the native-stack half is the known
   finding F2, see DESIGN.md). *)
From MST Require Import Base TreeM Diff Intervals DiffWalk Statements DiffTotal.

Theorem C13_total :
  forall (digest : Type) (deqb : digest -> digest -> bool) (local peer : list (prange digest)),
  Forall (fun r => ps digest r <= pe digest r) local ->
  Forall (fun r => ps digest r <= pe digest r) peer ->
  exists rs, diff digest deqb local peer = Ok rs /\
    Forall (fun r => ds r <= de r) rs /\ strictly_ascending rs /\
    Forall (fun r => In (ds r) (bounds_of digest (local ++ peer)) /\
                     In (de r) (bounds_of digest (local ++ peer))) rs.
Proof. intros digest deqb. exact (DiffTotal.C13_total_proved digest deqb unit). Qed.
Print Assumptions C13_total.
