(* C05 — anti-entropy always makes progress and converges in bounded rounds (two replicas). *)
From MST Require Import Base TreeM Diff Spec TreeInv DiffTrees TreeRL DiffTop Sync SyncTop SyncRounds.

(* stores are strictly key-sorted association lists; [ser] builds the tree from the store, hashes and
   serialises it (SyncTop.ser); [pull merge ser dst src] diffs, fetches every pair of src inside a returned
   range and merges. Progress holds for every merge with [merge o x = o -> merge x o = x -> o = x]:
   peer-wins and every commutative (join) merge. *)
Theorem C05_progress :
  forall (digest V : Type) (H : list (tok digest V) -> digest) (lvl_of : N -> N),
  (forall k : N, lvl_of k < 255) ->
  forall deqb : digest -> digest -> bool, (forall a b : digest, deqb a b = true <-> a = b) ->
  (forall a b : list (tok digest V), H a = H b -> a = b) ->
  forall Val : Type, (forall a b : Val, {a = b} + {a <> b}) ->
  forall vh : Val -> V, (forall a b : Val, vh a = vh b -> a = b) ->
  forall merge : Val -> Val -> Val, (forall o x : Val, merge o x = o -> merge x o = x -> o = x) ->
  forall a b : store Val, store_ok Val a -> store_ok Val b -> a <> b ->
  (exists a', pull digest deqb Val merge (ser digest V H lvl_of Val vh) a b = Ok a' /\ a' <> a) \/
  (exists b', pull digest deqb Val merge (ser digest V H lvl_of Val vh) b a = Ok b' /\ b' <> b).
Proof. exact SyncTop.C05_progress_trees. Qed.
Print Assumptions C05_progress.

(* selective merges (peer-wins; max of a total order): after as many two-way rounds as there are
   disagreeing keys the stores are equal *)
Theorem C05_rounds :
  forall (digest V : Type) (H : list (tok digest V) -> digest) (lvl_of : N -> N),
  (forall k : N, lvl_of k < 255) ->
  forall deqb : digest -> digest -> bool, (forall a b : digest, deqb a b = true <-> a = b) ->
  (forall a b : list (tok digest V), H a = H b -> a = b) ->
  forall (Val : Type) (val_dec : forall a b : Val, {a = b} + {a <> b}) (vh : Val -> V),
  (forall a b : Val, vh a = vh b -> a = b) ->
  forall merge : Val -> Val -> Val,
  (forall o x : Val, merge o x = o -> merge x o = x -> o = x) ->
  (forall o x : Val, merge o x = o \/ merge o x = x) ->
  forall (U : list N) (n : nat) (a b : store Val),
  store_ok Val a -> store_ok Val b ->
  (forall k : N, In k (skeys Val a) -> In k U) -> (forall k : N, In k (skeys Val b) -> In k U) ->
  (dis Val val_dec U a b <= n)%nat ->
  exists a' b' : store Val,
    sync_rounds digest deqb Val merge (ser digest V H lvl_of Val vh) n a b = Ok (a', b') /\ a' = b'.
Proof.
  intros digest V H lvl_of Hl deqb Hd Hinj Val val_dec vh Hvh merge Ha Hs.
  exact (SyncRounds.C05_rounds digest V H deqb Hd Hinj Val val_dec vh Hvh merge Ha Hs
           (ser digest V H lvl_of Val vh) (ser_RL digest V H lvl_of Hl Val vh)).
Qed.
Print Assumptions C05_rounds.

(* under a linear join the state both replicas reach is exactly the pointwise join of the initial contents
   (and, being the same store, they report the same root hash: the tree is a function of the store, C01) *)
From MST Require Import SyncModel SyncLimit SyncJoin.
Theorem C05_join_result :
  forall (digest V : Type) (H : list (tok digest V) -> digest) (lvl_of : N -> N),
  (forall k : N, lvl_of k < 255) ->
  forall deqb : digest -> digest -> bool, (forall a b : digest, deqb a b = true <-> a = b) ->
  (forall a b : list (tok digest V), H a = H b -> a = b) ->
  forall (Val : Type) (val_dec : forall a b : Val, {a = b} + {a <> b}) (vh : Val -> V),
  (forall a b : Val, vh a = vh b -> a = b) ->
  forall merge : Val -> Val -> Val,
  (forall o x : Val, merge o x = o \/ merge o x = x) ->
  (forall o x : Val, merge o x = merge x o) ->
  (forall a b c : Val, merge a (merge b c) = merge (merge a b) c) ->
  forall (U : list N) (n : nat) (a b : store Val),
  store_ok Val a -> store_ok Val b ->
  (forall k : N, In k (skeys Val a) -> In k U) -> (forall k : N, In k (skeys Val b) -> In k U) ->
  (dis Val val_dec U a b <= n)%nat ->
  sync_rounds digest deqb Val merge (ser digest V H lvl_of Val vh) n a b =
    Ok (pointwise_join Val merge a b, pointwise_join Val merge a b).
Proof. exact SyncJoin.C05_join_result. Qed.
Print Assumptions C05_join_result.
