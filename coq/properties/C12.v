(* C12 — diff output is sorted, disjoint, well-formed and confined. *)
From MST Require Import Base TreeM Diff Spec TreeInv TreeRanges Intervals DiffWalk DiffTotal DiffTrees TreeRL DiffTop DiffMore.

(* arbitrary well-formed page-range lists: ascending, not even sharing an end point, start <= end *)
Theorem C12_lists :
  forall (digest : Type) (deqb : digest -> digest -> bool) (local peer : list (prange digest)),
  Forall (fun r => ps digest r <= pe digest r) local ->
  Forall (fun r => ps digest r <= pe digest r) peer ->
  exists rs, diff digest deqb local peer = Ok rs /\
    Forall (fun r => ds r <= de r) rs /\ strict_asc rs.
Proof.
  intros digest deqb local peer Wl Wp.
  destruct (DiffTotal.C13_total_proved digest deqb local peer Wl Wp) as (rs & E & A & B & _). eauto.
Qed.
Print Assumptions C12_lists.

(* real trees: additionally every range starts at a key the peer holds, ends at a key held by the peer or
   by the local tree, and lies within the peer's smallest and largest key *)
Theorem C12_confined :
  forall (digest V : Type) (H : list (tok digest V) -> digest) (lvl_of : N -> N),
  (forall k : N, lvl_of k < 255) ->
  forall deqb : digest -> digest -> bool, (forall a b : digest, deqb a b = true <-> a = b) ->
  forall (opsL opsP : list (TreeInv.op V)) (tL tP : mst digest V),
  TreeInv.run digest V H lvl_of opsL = Ok tL -> TreeInv.run digest V H lvl_of opsP = Ok tP ->
  exists rs, tree_diff digest V H deqb tL tP = Ok rs /\ Forall wf rs /\ strict_asc rs /\
    Forall (fun r => In (ds r) (Spec.keys (TreeInv.final_map V opsP)) /\
                     (In (de r) (Spec.keys (TreeInv.final_map V opsP)) \/ In (de r) (Spec.keys (TreeInv.final_map V opsL))) /\
                     exists a b, TreeRanges.first_key V (TreeInv.final_map V opsP) = Some a /\
                                 TreeRanges.last_key V (TreeInv.final_map V opsP) = Some b /\
                                 a <= ds r /\ de r <= b) rs.
Proof. exact DiffMore.C12_confined. Qed.
Print Assumptions C12_confined.
