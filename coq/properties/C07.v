(* C07 — one pull is complete when the peer's key span covers the local span. *)
From MST Require Import Base TreeM Diff Spec TreeInv TreeRanges Intervals DiffTrees TreeRL DiffTop DiffMore.

Theorem C07_complete :
  forall (digest V : Type) (H : list (tok digest V) -> digest) (lvl_of : N -> N),
  (forall k : N, lvl_of k < 255) ->
  forall deqb : digest -> digest -> bool, (forall a b : digest, deqb a b = true <-> a = b) ->
  (forall a b : list (tok digest V), H a = H b -> a = b) ->
  forall (opsL opsP : list (op V)) (tL tP : mst digest V) (k : N) (v : V),
  run digest V H lvl_of opsL = Ok tL -> run digest V H lvl_of opsP = Ok tP ->
  final_map V opsL <> [] ->
  span_covers V (final_map V opsL) (final_map V opsP) ->
  In (k, v) (final_map V opsP) -> lookup V k (final_map V opsL) <> Some v ->
  exists rs : list drange, tree_diff digest V H deqb tL tP = Ok rs /\ Intervals.inl k rs.
Proof. exact DiffTop.C07_complete. Qed.
Print Assumptions C07_complete.

Theorem C07_empty_local :
  forall (digest V : Type) (H : list (tok digest V) -> digest) (lvl_of : N -> N),
  (forall k : N, lvl_of k < 255) ->
  forall deqb : digest -> digest -> bool,
  forall (opsL opsP : list (op V)) (tL tP : mst digest V) (a b : N),
  run digest V H lvl_of opsL = Ok tL -> run digest V H lvl_of opsP = Ok tP ->
  final_map V opsL = [] ->
  first_key V (final_map V opsP) = Some a -> last_key V (final_map V opsP) = Some b ->
  tree_diff digest V H deqb tL tP = Ok [DR a b].
Proof. exact DiffMore.C07_empty_local. Qed.
Print Assumptions C07_empty_local.
