(* C04 — no false convergence: empty diffs in both directions imply equal content. *)
From MST Require Import Base TreeM Diff Spec TreeInv Intervals DiffTrees TreeRL DiffTop DiffMore.

Theorem C04_no_false_convergence :
  forall (digest V : Type) (H : list (tok digest V) -> digest) (lvl_of : N -> N),
  (forall k : N, lvl_of k < 255) ->
  forall deqb : digest -> digest -> bool, (forall a b : digest, deqb a b = true <-> a = b) ->
  (forall a b : V, {a = b} + {a <> b}) ->
  (forall a b : list (tok digest V), H a = H b -> a = b) ->
  forall (opsA opsB : list (op V)) (tA tB : mst digest V),
  run digest V H lvl_of opsA = Ok tA -> run digest V H lvl_of opsB = Ok tB ->
  tree_diff digest V H deqb tA tB = Ok [] -> tree_diff digest V H deqb tB tA = Ok [] ->
  final_map V opsA = final_map V opsB.
Proof. exact DiffTop.C04_no_false_convergence. Qed.
Print Assumptions C04_no_false_convergence.

(* second clause: every reported range starts at a key the peer really holds (so fetching a non-empty diff
   always transfers at least one key) *)
Theorem C04_ranges_start_at_peer_keys :
  forall (digest V : Type) (H : list (tok digest V) -> digest) (lvl_of : N -> N),
  (forall k : N, lvl_of k < 255) ->
  forall deqb : digest -> digest -> bool, (forall a b : digest, deqb a b = true <-> a = b) ->
  forall (opsL opsP : list (op V)) (tL tP : mst digest V),
  run digest V H lvl_of opsL = Ok tL -> run digest V H lvl_of opsP = Ok tP ->
  exists rs, tree_diff digest V H deqb tL tP = Ok rs /\
    Forall (fun r => In (ds r) (keys (final_map V opsP)) /\ ds r <= de r) rs.
Proof. exact DiffMore.C04_starts. Qed.
Print Assumptions C04_ranges_start_at_peer_keys.
