(* C04 — no false convergence: empty diffs in both directions imply equal content. *)
From MST Require Import Base TreeM Diff Spec TreeInv DiffTrees TreeRL DiffTop.

Theorem C04_no_false_convergence :
  forall (digest V : Type) (H : list (tok digest V) -> digest) (lvl_of : N -> N),
  (forall k : N, lvl_of k < 255) ->
  forall deqb : digest -> digest -> bool, (forall a b : digest, deqb a b = true <-> a = b) ->
  (forall a b : V, {a = b} + {a <> b}) ->
  (forall a b : list (tok digest V), H a = H b -> a = b) ->
  forall (opsA opsB : list (op V)) (tA tB : mst digest V),
  run digest V H lvl_of opsA = Ok tA -> run digest V H lvl_of opsB = Ok tB ->
  tree_diff digest V H deqb tA tB = Ok [] -> tree_diff digest V H deqb tB tA = Ok [] ->
  final_map V opsA = final_map V opsB.
Proof. exact DiffTop.C04_no_false_convergence. Qed.
Print Assumptions C04_no_false_convergence.
