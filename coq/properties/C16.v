(* C16 — owned snapshots and wire round-trips. In the model a page range IS its (start,end,digest) triple,
   so representation equivalence is by construction; what is proved is that rebuilding through the checked
   constructors (PageRange::new / OwnedPageRange::new assert start <= end) cannot fail for serialised trees.
   The Rust-level equivalence of the four representations is checked by the differential run (DESIGN 5/C16). *)
From MST Require Import Base TreeM Diff Spec TreeInv DiffWalk DiffTrees TreeRL DiffTop DiffMore Top.

Theorem C16_new_ok :
  forall (digest V : Type) (H : list (tok digest V) -> digest) (lvl_of : N -> N),
  (forall k : N, lvl_of k < 255) ->
  forall (ops : list (op V)) (t : mst digest V) l, run digest V H lvl_of ops = Ok t ->
  tree_ranges digest V H t = Ok (Some l) -> Forall (fun r => ps digest r <= pe digest r) l.
Proof. exact Top.C16_new_ok. Qed.
Print Assumptions C16_new_ok.
