(* C08 — replicas with identical content exchange nothing. *)
From MST Require Import Base TreeM Diff Spec TreeInv DiffTrees TreeRL DiffTop.

Theorem C08_identical :
  forall (digest V : Type) (H : list (tok digest V) -> digest) (lvl_of : N -> N),
  (forall k : N, lvl_of k < 255) ->
  forall deqb : digest -> digest -> bool, (forall a b : digest, deqb a b = true <-> a = b) ->
  forall (ops1 ops2 : list (op V)) (t1 t2 : mst digest V),
  final_map V ops1 = final_map V ops2 ->
  run digest V H lvl_of ops1 = Ok t1 -> run digest V H lvl_of ops2 = Ok t2 ->
  tree_diff digest V H deqb t1 t2 = Ok [].
Proof. exact DiffTop.C08_identical. Qed.
Print Assumptions C08_identical.

Theorem C08_empty_peer :
  forall (digest : Type) (deqb : digest -> digest -> bool) (local : list (prange digest)),
  diff digest deqb local [] = Ok [].
Proof. reflexivity. Qed.
Print Assumptions C08_empty_peer.
