(* C14 — hash construction and level derivation match the stable reference construction. *)
From MST Require Import Base TreeM Spec TreeHash TreeInv LevelSpec Top.

Theorem C14_level_spec : forall (bytes : list N) (base : N),
  level bytes base = 2 * N.of_nat (leading_zeros bytes) + next_digit bytes base.
Proof. exact LevelSpec.C14_level_spec. Qed.
Print Assumptions C14_level_spec.
Theorem C14_level_bound : forall (bytes : list N) (base : N), level bytes base <= 2 * N.of_nat (length bytes).
Proof. exact LevelSpec.C14_level_bound. Qed.
Print Assumptions C14_level_bound.

(* the digest returned after any history is the documented construction (Spec.ref_hash: per key ascending,
   digest of the page just below if any, key, value digest; then the high-page digest) applied to the
   cache-free tree, which itself is a function of the final map only *)
Theorem C14_reference :
  forall (digest V : Type) (H : list (tok digest V) -> digest) (lvl_of : N -> N),
  (forall k : N, lvl_of k < 255) ->
  forall (ops : list (op V)) (t : mst digest V), run digest V H lvl_of ops = Ok t ->
  snd (mst_root_hash digest V H t) = ref_hash digest V H (strip digest V (root digest V t)) /\
  (forall ops' t', final_map V ops' = final_map V ops -> run digest V H lvl_of ops' = Ok t' ->
     strip digest V (root digest V t') = strip digest V (root digest V t)).
Proof. exact Top.C14_reference. Qed.
Print Assumptions C14_reference.
