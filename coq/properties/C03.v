(* C03 — trees with different content have different root hashes (up to digest collisions: premise Hinj). *)
From MST Require Import Base TreeM Spec TreeInv HashInj Top.

Theorem C03_ref_hash_injective :
  forall (digest V : Type) (H : list (tok digest V) -> digest),
  (forall a b : list (tok digest V), H a = H b -> a = b) ->
  forall p q : page digest V,
  ref_hash digest V H p = ref_hash digest V H q -> content digest V p = content digest V q.
Proof. exact HashInj.ref_hash_injective. Qed.
Print Assumptions C03_ref_hash_injective.

Theorem C03_injective :
  forall (digest V : Type) (H : list (tok digest V) -> digest) (lvl_of : N -> N),
  (forall k : N, lvl_of k < 255) ->
  (forall a b : list (tok digest V), H a = H b -> a = b) ->
  forall (ops1 ops2 : list (op V)) (t1 t2 : mst digest V),
  run digest V H lvl_of ops1 = Ok t1 -> run digest V H lvl_of ops2 = Ok t2 ->
  snd (mst_root_hash digest V H t1) = snd (mst_root_hash digest V H t2) ->
  final_map V ops1 = final_map V ops2.
Proof. exact Top.C03_injective. Qed.
Print Assumptions C03_injective.

Theorem C03_different_content_different_hash :
  forall (digest V : Type) (H : list (tok digest V) -> digest) (lvl_of : N -> N),
  (forall k : N, lvl_of k < 255) ->
  (forall a b : list (tok digest V), H a = H b -> a = b) ->
  forall (ops1 ops2 : list (op V)) (t1 t2 : mst digest V),
  run digest V H lvl_of ops1 = Ok t1 -> run digest V H lvl_of ops2 = Ok t2 ->
  final_map V ops1 <> final_map V ops2 ->
  snd (mst_root_hash digest V H t1) <> snd (mst_root_hash digest V H t2).
Proof. exact Top.C03_different_content_different_hash. Qed.
Print Assumptions C03_different_content_different_hash.
