(* C01 — root hash and page ranges depend only on the final content, not on the history.
   Statement pinned here; proof in theories/HistIndep.v (via TreeInv.run_inv, TreeCanon.canonical). *)
From MST Require Import Base TreeM Spec TreeHash TreeInv HistIndep TreeRL Top.

(* any two histories (upserts in any order, duplicates, overwrites, hash requests in between) with the
   same final map: both run without panic, the trees are equal up to caches, and after hashing the
   WHOLE hashed tree (structure, every cached page digest, cached root hash) and the returned root
   digest are identical; hence so is every observable, in particular the serialised page ranges. *)
Theorem C01_history_independence :
  forall (digest V : Type) (H : list (tok digest V) -> digest) (lvl_of : N -> N),
  (forall k : N, lvl_of k < 255) ->
  forall ops1 ops2 : list (op V),
  final_map V ops1 = final_map V ops2 ->
  exists t1 t2 : mst digest V,
    run digest V H lvl_of ops1 = Ok t1 /\ run digest V H lvl_of ops2 = Ok t2 /\
    strip digest V (root digest V t1) = strip digest V (root digest V t2) /\
    mst_root_hash digest V H t1 = mst_root_hash digest V H t2.
Proof. exact HistIndep.C01_history_independence. Qed.
Print Assumptions C01_history_independence.

Theorem C01_ranges_equal :
  forall (digest V : Type) (H : list (tok digest V) -> digest) (lvl_of : N -> N),
  (forall k : N, lvl_of k < 255) ->
  forall (ops1 ops2 : list (op V)) (t1 t2 : mst digest V),
  final_map V ops1 = final_map V ops2 ->
  run digest V H lvl_of ops1 = Ok t1 -> run digest V H lvl_of ops2 = Ok t2 ->
  snd (mst_root_hash digest V H t1) = snd (mst_root_hash digest V H t2) /\
  tree_ranges digest V H t1 = tree_ranges digest V H t2.
Proof. exact Top.C01_ranges_equal. Qed.
Print Assumptions C01_ranges_equal.
