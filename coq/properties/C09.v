(* C09 — the tree is always an ordered, level-stratified, canonical search tree. *)
From MST Require Import Base TreeM Spec TreeHash TreeInv Top.

(* [shape lvl_of L p]: page level < L, page non-empty, every key k on the page has lvl_of k = page level,
   every child / high page has shape below the page's level (Spec.shape). Holds at EVERY state of EVERY
   history because the statement quantifies over all op lists (prefixes included). *)
Theorem C09_invariant :
  forall (digest V : Type) (H : list (tok digest V) -> digest) (lvl_of : N -> N),
  (forall k : N, lvl_of k < 255) ->
  forall ops : list (op V), exists t : mst digest V, run digest V H lvl_of ops = Ok t /\
    StronglySorted N.lt (keys (content digest V (root digest V t))) /\
    (content digest V (root digest V t) <> [] -> shape digest V lvl_of 256 (root digest V t)) /\
    (content digest V (root digest V t) = [] ->
       pnodes digest V (root digest V t) = [] /\ phigh digest V (root digest V t) = None).
Proof. exact Top.C09_invariant. Qed.
Print Assumptions C09_invariant.

Theorem C09_canonical :
  forall (digest V : Type) (lvl_of : N -> N), (forall k : N, lvl_of k < 255) ->
  forall (p q : page digest V) (L L' : N),
  shape digest V lvl_of L p -> shape digest V lvl_of L' q ->
  content digest V p = content digest V q -> strip digest V p = strip digest V q.
Proof. exact Top.C09_canonical. Qed.
Print Assumptions C09_canonical.
