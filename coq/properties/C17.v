(* C17 — traversal APIs agree and honour the visitor protocol. *)
From Coq Require Import PeanoNat.
From MST Require Import Base TreeM Spec Trav Iter TravIter.

(* [events p hp] is the nesting protocol written as a plain function of the tree: page entry (flag hp),
   per key: pre-visit, lower subtree (flag false), visit, post-visit; page exit; then the high page (flag
   true). Traversal with ANY visitor = feeding that list to the visitor until its first refusal. *)
Theorem C17_prefix :
  forall (digest V : Type) (answers : nat -> bool) (t : mst digest V),
  let full := events digest V (root digest V t) false in
  let k := first_false_from answers 0 (length full) in
  traverse digest V answers t = (firstn (S k) full, Nat.leb (length full) k).
Proof. exact Trav.C17_prefix. Qed.
Print Assumptions C17_prefix.

Theorem C17_iter_is_in_order :
  forall (digest V : Type) (t : mst digest V),
  node_iter digest V t = Ok (nodes_of digest V (root digest V t)).
Proof. exact Iter.node_iter_spec. Qed.
Print Assumptions C17_iter_is_in_order.

Theorem C17_visit_events_are_nodes :
  forall (digest V : Type) (p : page digest V) (hp : bool),
  flat_map (fun e => match e with EVisit _ _ n => [n] | _ => [] end) (events digest V p hp)
  = nodes_of digest V p.
Proof. exact TravIter.visit_events_nodes. Qed.
Print Assumptions C17_visit_events_are_nodes.

(* the nesting protocol as a grammar (TravGrammar.page_events): page entry (flagged iff reached through a
   high-page link), per key pre-visit / lower subtree / visit / post-visit, page exit, then the high page *)
From MST Require Import TravGrammar.
Theorem C17_nesting :
  forall (digest V : Type) (p : page digest V) (hp : bool),
  page_events digest V p hp (events digest V p hp).
Proof. exact TravGrammar.events_obey_protocol. Qed.
Print Assumptions C17_nesting.
