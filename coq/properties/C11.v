(* C11 — serialised page ranges describe the tree faithfully and in diffable order. *)
From MST Require Import Base TreeM Spec TreeHash TreeInv TreeRanges TreeRL Top.

(* [subpages p] is the pre-order list of pages (page, each key's lower subtree in key order, high page);
   [range_spec q r]: r = (first key, last key, reference digest) of q's whole subtree content. *)
Theorem C11_ranges :
  forall (digest V : Type) (H : list (tok digest V) -> digest) (lvl_of : N -> N),
  (forall k : N, lvl_of k < 255) ->
  forall (ops : list (op V)) (t : mst digest V), run digest V H lvl_of ops = Ok t ->
  (final_map V ops = [] -> tree_ranges digest V H t = Ok (Some [])) /\
  (final_map V ops <> [] -> exists l, tree_ranges digest V H t = Ok (Some l) /\
     Forall2 (range_spec digest V H) (subpages digest V (root digest V (fst (mst_root_hash digest V H t)))) l).
Proof. exact Top.C11_ranges. Qed.
Print Assumptions C11_ranges.
