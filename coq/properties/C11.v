(* C11 — serialised page ranges describe the tree faithfully and in diffable order. *)
From MST Require Import Base TreeM Spec TreeHash TreeInv TreeRanges TreeNest TreeRL Top.

(* [subpages p] is the pre-order list of pages (page, each key's lower subtree in key order, high page);
   [range_spec q r]: r = (first key, last key, reference digest) of q's whole subtree content. *)
Theorem C11_ranges :
  forall (digest V : Type) (H : list (tok digest V) -> digest) (lvl_of : N -> N),
  (forall k : N, lvl_of k < 255) ->
  forall (ops : list (op V)) (t : mst digest V), run digest V H lvl_of ops = Ok t ->
  (final_map V ops = [] -> tree_ranges digest V H t = Ok (Some [])) /\
  (final_map V ops <> [] -> exists l, tree_ranges digest V H t = Ok (Some l) /\
     Forall2 (range_spec digest V H) (subpages digest V (root digest V (fst (mst_root_hash digest V H t)))) l).
Proof. exact Top.C11_ranges. Qed.
Print Assumptions C11_ranges.

(* for every page p of every reachable hashed tree (children p = each key's lower subtree in key order, then
   the high page): every child's span lies inside p's span, strictly on at least one side; sibling spans are
   disjoint and ascending *)
Theorem C11_nesting :
  forall (digest V : Type) (H : list (tok digest V) -> digest) (lvl_of : N -> N),
  (forall k : N, lvl_of k < 255) ->
  forall (ops : list (op V)) (t : mst digest V), run digest V H lvl_of ops = Ok t ->
  forall p, In p (subpages digest V (root digest V (fst (mst_root_hash digest V H t)))) ->
  (forall q f l fq lq, In q (children digest V p) ->
     first_key V (content digest V p) = Some f -> last_key V (content digest V p) = Some l ->
     first_key V (content digest V q) = Some fq -> last_key V (content digest V q) = Some lq ->
     f <= fq /\ lq <= l /\ (f < fq \/ lq < l)) /\
  (forall l1 c1 l2 c2 l3 e1 s2, children digest V p = l1 ++ c1 :: l2 ++ c2 :: l3 ->
     last_key V (content digest V c1) = Some e1 -> first_key V (content digest V c2) = Some s2 -> e1 < s2).
Proof. exact Top.C11_nesting. Qed.
Print Assumptions C11_nesting.
