#!/bin/sh
# Build everything the checks need, offline, from files on disk only.
set -e
cd "$(dirname "$0")"
export CARGO_NET_OFFLINE=true
mkdir -p .cache evidence
( cd coq && coq_makefile -f _CoqProject -o Makefile >/dev/null && timeout 2400 make -j16 >/dev/null )
( cd ocaml && coqc -Q ../coq/theories MST ../coq/extract/Extract.v >/dev/null && ocamlfind ocamlopt -O3 -w -a mstmodel.mli mstmodel.ml driver.ml -o model )
cp /repo/Cargo.lock harness/Cargo.lock
( cd harness && CARGO_TARGET_DIR=../.cache/target cargo build --offline && CARGO_TARGET_DIR=../.cache/target cargo build --offline --release \
  && CARGO_TARGET_DIR=../.cache/target-nofeat cargo build --offline --no-default-features \
  && CARGO_TARGET_DIR=../.cache/target-mst-all cargo build --offline --no-default-features --features mst-all ) >/dev/null 2>&1
echo setup-ok
