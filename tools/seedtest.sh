#!/bin/bash
# usage: seedtest.sh <worktree-or-seeded-dir> [confirm|detect|both]
# confirm: in the scratch worktree: suite passes with the change, demo fails with it and passes without it
# detect : apply patch to /repo, run every quick check, revert; print which properties raise VIOLATION
D=$1; MODE=${2:-both}
P=$D/out/patch.diff; [ -f $P ] || P=$D/patch.diff
export CARGO_NET_OFFLINE=true
if [ "$MODE" = confirm ] || [ "$MODE" = both ]; then
  W=$D
  ( cd $W && git diff -- src | diff -q - $P >/dev/null && echo "confirm: worktree diff == patch.diff" || echo "confirm: WARNING worktree diff differs from patch.diff" )
  ( cd $W && cargo test --offline --no-fail-fast 2>&1 | grep -E "^test result|^test .*FAILED|Running" > /tmp/seed_with.txt )
  echo "confirm: with change:"; grep -B1 -E "FAILED|failed" /tmp/seed_with.txt | grep -E "Running|test result" | sed 's/^/    /'
  grep -E "^test result" /tmp/seed_with.txt | awk '{p+=$4; f+=$6} END {print "    total passed=" p " failed=" f}'
  ( cd $W && git apply -R $P && cargo test --offline --test seeded_demo 2>&1 | grep -E "^test result" | sed 's/^/confirm: demo WITHOUT change: /'; git apply $P )
fi
if [ "$MODE" = detect ] || [ "$MODE" = both ]; then
  cd /verif
  git -C /repo apply $P || { echo "patch does not apply to /repo"; exit 2; }
  for p in C01 C02 C03 C04 C05 C06 C07 C08 C09 C10 C11 C12 C13 C14 C15 C16 C17 C18; do
    out=$(MSTV_NO_ESCALATE=${MSTV_NO_ESCALATE:-} ./check $p --tier quick 2>/dev/null | grep -E "VIOLATION" | head -1)
    [ -n "$out" ] && echo "detect: $out"
  done
  git -C /repo checkout -- . ; git -C /repo status --short
fi
