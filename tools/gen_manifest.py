#!/usr/bin/env python3
"""Regenerate /verif/MANIFEST.json (texts per property live here)."""
import json
props = [json.loads(l) for l in open('/verif/properties.jsonl')]
notes = {
 "C01": ("Theorems C01_history_independence, C01_ranges_equal (Coq, closed under the global context): for ALL op lists over {upsert, hash request}, all level functions and all page hashers, equal final maps give identical hashed trees (structure, every cached page digest, cached root hash), root digests and serialisations. Quantifies over every history and level structure at once, which sampling cannot.", "4, 5"),
 "C02": ("Theorems C02_never_stale, C02_gate, C02_available: cache validity + cache-closedness is an invariant of every reachable (content, cache-state) pair; gate after every upsert; availability after hashing. The model follows the repaired split condition (F1 fixed in /repo, 541c247); Findings.v proves the original condition violates C02.", "1, 4, 5"),
 "C03": ("Theorems C03_ref_hash_injective, C03_injective, C03_different_content_different_hash: under the explicit premise that the page digest is injective on token streams (the precise form of 'up to collisions'), equal root digests imply equal final maps, for arbitrary pages and all histories.", "3, 5"),
 "C04": ("Theorems C04_no_false_convergence and C04_ranges_start_at_peer_keys over all pairs of histories (premises: digest injectivity, decidable value-digest equality).", "5"),
 "C05": ("Theorems C05_progress (any merge with merge_anti: peer-wins and every commutative join), C05_rounds (selective merges: #disagreeing keys two-way rounds suffice), C05_join_result (linear join: both replicas end with the pointwise join), over real-tree serialisations of arbitrary sorted stores. For an arbitrary join-semilattice bounded convergence to the join is C06_limit with n = 2.", "5, 9"),
 "C06": ("Theorems C06_refinement (any schedule of writes, hash requests and pulls over concrete replicas with incrementally maintained trees: no panic, stores follow the store-level system, every tree hashes/serialises like a fresh build of its store), C06_limit (then >= M all-pairs blocks: every store = join of everything written, equal root hashes), C06_converges; for EVERY join-semilattice merge, any number of replicas.", "5"),
 "C07": ("Theorems C07_complete and C07_empty_local over all pairs of histories satisfying the span condition (premise: digest injectivity).", "5"),
 "C08": ("Theorems C08_identical (any two histories with the same final map diff to []) and C08_empty_peer; any page hasher.", "5"),
 "C09": ("Theorems C09_invariant (sortedness + Spec.shape at every reachable state, i.e. for every op list) and C09_canonical (shape + equal content => equal up to caches).", "5"),
 "C10": ("Theorems C10_map_semantics, C10_node_iter, C10_upsert_pointwise: content = fold of sorted-assoc insert over the history, node_iter yields it, one upsert changes exactly one entry.", "5"),
 "C11": ("Theorems C11_ranges (serialisation = pre-order list of (first key, last key, reference digest) of every sub-page; empty tree -> []) and C11_nesting (every child's span inside its parent's, strictly on one side; sibling spans disjoint and ascending), for every page of every reachable hashed tree.", "5"),
 "C12": ("Theorems C12_lists (all well-formed lists: ascending, strictly disjoint, start<=end) and C12_confined (real trees: every range starts at a peer key, ends at a key of peer or local tree, lies within the peer's span).", "4 (T5'), 5"),
 "C13": ("Theorem C13_total: for ALL well-formed lists (no order/nesting/digest assumption, any length) diff returns Ok (termination, every internal assertion), sorted, strictly disjoint, bounds from the input. Stack clause: C13_depth_same_walk, C13_depth_le_length and C13_bounded_stack_refuted (depth >= 2n-1 on the n-chain: the clause is false of the model) = known finding F2, exhibited on the crate by a child-process probe with a 2 MiB stack.", "1 (F2), 5"),
 "C14": ("Theorems C14_level_spec / C14_level_bound (all bases, all widths) and C14_reference (returned digest = documented construction on the canonical tree). The bytes: Gallina SipHash-2-4-128 (Sip.v, checked against the reference vectors in Show.v) compared byte-for-byte with the crate on every digest of the correspondence run.", "3, 5"),
 "C15": ("Theorems C15_no_panic / C15_diff_no_panic: every API call of the model returns Ok on every reachable tree; every debug_assert/assert/unwrap/expect of the modelled files is an explicit Panic site in the model. Debug and release builds are both run under catch_unwind, with a per-case watchdog for non-termination.", "5, 8"),
 "C16": ("Theorem C16_new_ok (checked constructors cannot fail on serialised trees); representation equivalence is by construction in the model and is otherwise a Rust-level fact covered by the six-route differential oracle. Thin by nature.", "5, 9"),
 "C17": ("Theorems C17_prefix (traversal with any visitor = the protocol event list cut after the first refusal, incl. the returned flag), C17_iter_is_in_order, C17_visit_events_are_nodes, C17_nesting (the event list obeys the nesting grammar).", "5"),
 "C18": ("Every theorem is universally quantified over digest type, V, H, lvl_of (hence base, width, key bytes, hashers); C18_content_config_free, C18_level_fits_u8. Partial by nature: cargo features, the three constructors and concrete key/hasher types are Rust items outside the model, covered by the configuration dimensions of the differential run (random bases/widths/key lengths, both builder call orders, deprecated and default constructors, default and seeded SipHasher with Vec<u8>/String/[u8;4] keys, feature sets none/default/all).", "5, 9"),
}
checks = []
for p in props:
    pid = p['id']; text, ref = notes[pid]
    checks.append(dict(property_id=pid, quick_cmd="./check %s --tier quick" % pid, thorough_cmd="./check %s --tier thorough" % pid,
        evidence_file="/verif/evidence/%s.json" % pid, replay_cmd_template="./check %s --replay {path}" % pid, engine="coq-proof+correspondence",
        level_claimed=dict(category="proof", text=text, design_ref="DESIGN.md section " + ref),
        level_note="Trusted: Coq 8.16.1 kernel; no axioms (Print Assumptions must say 'Closed under the global context' for every pinned theorem on every run); the hand-written Gallina model is tied to /repo by the correspondence check only (model extracted to OCaml, and for a sample evaluated inside coqc, vs the crate on exhaustive small scopes + shaped + seeded random cases; projections listed in the evidence); extraction (ExtrOcamlBasic only) + OCaml driver + Rust harness + check script; theorem premises (lvl_of k < 255, digest injectivity where stated, decidable equalities, merge laws) are visible in the pinned statements.",
        technique="machine-checked proof in Coq 8.16 about a hand-written Gallina model + differential correspondence check (extracted OCaml model and in-Coq evaluation vs the crate) + oracle search for replays"))
m = dict(version=1,
  setup_cmd="cd /verif && ./setup.sh",
  hooks=dict(guard="mst_verif", enable="no hooks are needed: the harness uses the public API only (RUSTFLAGS='--cfg mst_verif' would enable them if any existed)",
             baseline_off_cmd="cd /repo && cargo test --workspace --no-fail-fast --offline", source_commits=[], add_only=True),
  engines=[dict(name="coq-proof+correspondence", path="/verif/check", serves_properties=[p['id'] for p in props],
                kind_free_text="Coq 8.16 theory (coq/theories, pinned statements in coq/properties), model extracted to OCaml (ocaml/) and evaluated in Coq (theories/Show.v, tools/coqcases.py), Rust harness (harness/) driving the real crate; ./check ties them per property")],
  checks=checks,
  notes="Repair committed in /repo: 541c247 'fix: invalidate page hash when split_off_lt detaches the whole high page' (F1). Known finding: F2 (C13 stack exhaustion on deeply nested untrusted lists), see known_findings.json. Seeded changes and which checks catch them: seeded/RESULTS.md.",
  not_applicable=[])
json.dump(m, open('/verif/MANIFEST.json', 'w'), indent=1)
print("MANIFEST.json written")
