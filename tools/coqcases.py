#!/usr/bin/env python3
"""coqcases.py <cases-file> <impl-observations-file> <out-dir>
In-Coq correspondence path: renders every T/Tb/P/D/L case as a Gallina term, lets coqc evaluate the model by
vm_compute (theories/Show.v; no extraction, no OCaml) and compare the printed observation with the line the
Rust harness produced. Prints JSON {"cases": n, "agree": k, "disagree": [indices], "skipped": m}."""
import sys, os, re, json, subprocess

def bl(hexs):
    if hexs in ("-", ""):
        return "[]"
    return "[" + ";".join(str(int(hexs[i:i+2], 16)) for i in range(0, len(hexs), 2)) + "]"
def pad(hexs, w):
    if hexs == "-": hexs = ""
    return hexs + "00" * (w - len(hexs) // 2)
def keys(s, w):
    if s == "-":
        return "(KI [] [])"
    kb, kd = [], []
    for t in s.split(","):
        b, d = t.split(":")
        kb.append(bl(b)); kd.append(bl(pad(d, w)))
    return "(KI [%s] [%s])" % ("; ".join(kb), "; ".join(kd))
def ops(s, w):
    if s == "-":
        return "[]"
    out = []
    for t in s.split(","):
        if t == "h":
            out.append("CH")
        else:
            k, v = t[1:].split(":")
            out.append("CU %s %s" % (k, bl(pad(v, w))))
    return "[" + "; ".join(out) + "]"
def plist(s):
    if s == "-":
        return "[]"
    out = []
    for t in s.split(","):
        if not t: continue
        a, b, h = t.split("-")
        out.append("PR _ %s %s %s" % (a, b, bl(pad(h, 16))))
    return "[" + "; ".join(out) + "]"
def term(line):
    t = line.split(" ")
    if t[0] in ("T", "Tb"):
        w = int(t[2])
        return "show_tree_case %s %s %s %s" % ("true" if t[0] == "Tb" else "false", t[1], keys(t[3], w), ops(t[4], w))
    if t[0] == "P":
        w = int(t[2])
        return "show_pair_case %s %s %s %s" % (t[1], keys(t[3], w), ops(t[4], w), ops(t[5], w))
    if t[0] == "D":
        return "show_list_case %s %s" % (plist(t[1]), plist(t[2]))
    if t[0] == "L":
        return "show_level_case %s %s" % (t[1], bl(t[2]))
    return None

def main():
    """coqcases.py <cases-file> <out-file>: evaluate every case in Coq, write the model's observation lines"""
    cases, outfile = sys.argv[1:3]
    coqdir = os.environ.get("MSTV_COQDIR") or os.path.join(os.path.dirname(os.path.dirname(os.path.abspath(__file__))), "coq")
    outdir = os.path.dirname(os.path.abspath(outfile))
    lines = [l.rstrip("\n") for l in open(cases) if l.strip()]
    terms = [term(c) for c in lines]
    if any(t is None for t in terms):
        print(json.dumps({"error": "unsupported case kind for the in-Coq path"})); return
    v = os.path.join(outdir, "cases.v")
    with open(v, "w") as f:
        f.write("From Coq Require Import String.\nFrom MST Require Import Sip Base TreeM Diff Show.\nOpen Scope N_scope.\n")
        for i, tm in enumerate(terms):
            f.write("Eval vm_compute in (%s).\n" % tm)
    p = subprocess.run(["coqc", "-noglob", "-Q", os.path.join(coqdir, "theories"), "MST", v], stdout=subprocess.PIPE, stderr=subprocess.STDOUT, text=True, timeout=3000)
    res = {"cases": len(lines)}
    if p.returncode != 0:
        res["error"] = p.stdout[-1500:]
    else:
        outs = re.findall(r'=\s*"(.*?)"(?:%string)?\s*:\s*string', p.stdout, re.S)
        outs = [re.sub(r"\s*\n\s*", "", o).replace('""', '"') for o in outs]
        if len(outs) != len(lines):
            res["error"] = "expected %d results, parsed %d" % (len(lines), len(outs))
        else:
            open(outfile, "w").write("\n".join(outs) + "\n")
    for ext in ("vo", "vok", "vos", "glob"):
        try: os.remove(os.path.join(outdir, "cases." + ext))
        except OSError: pass
    print(json.dumps(res))

if __name__ == "__main__":
    main()
