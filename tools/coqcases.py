#!/usr/bin/env python3
"""coqcases.py <cases-file> <impl-observations-file> <out-dir>
In-Coq correspondence path: renders every T/Tb/P/D/L case as a Gallina term, lets coqc evaluate the model by
vm_compute (theories/Show.v; no extraction, no OCaml) and compare the printed observation with the line the
Rust harness produced. Prints JSON {"cases": n, "agree": k, "disagree": [indices], "skipped": m}."""
import sys, os, re, json, subprocess

def bl(hexs):
    if hexs in ("-", ""):
        return "[]"
    return "[" + ";".join(str(int(hexs[i:i+2], 16)) for i in range(0, len(hexs), 2)) + "]"
def pad(hexs, w):
    if hexs == "-": hexs = ""
    return hexs + "00" * (w - len(hexs) // 2)
def keys(s, w):
    if s == "-":
        return "(KI [] [])"
    kb, kd = [], []
    for t in s.split(","):
        b, d = t.split(":")
        kb.append(bl(b)); kd.append(bl(pad(d, w)))
    return "(KI [%s] [%s])" % ("; ".join(kb), "; ".join(kd))
def ops(s, w):
    if s == "-":
        return "[]"
    out = []
    for t in s.split(","):
        if t == "h":
            out.append("CH")
        else:
            k, v = t[1:].split(":")
            out.append("CU %s %s" % (k, bl(pad(v, w))))
    return "[" + "; ".join(out) + "]"
def plist(s):
    if s == "-":
        return "[]"
    out = []
    for t in s.split(","):
        if not t: continue
        a, b, h = t.split("-")
        out.append("PR _ %s %s %s" % (a, b, bl(pad(h, 16))))
    return "[" + "; ".join(out) + "]"
def term(line):
    t = line.split(" ")
    if t[0] in ("T", "Tb"):
        w = int(t[2])
        return "show_tree_case %s %s %s %s" % ("true" if t[0] == "Tb" else "false", t[1], keys(t[3], w), ops(t[4], w))
    if t[0] == "P":
        w = int(t[2])
        return "show_pair_case %s %s %s %s" % (t[1], keys(t[3], w), ops(t[4], w), ops(t[5], w))
    if t[0] == "D":
        return "show_list_case %s %s" % (plist(t[1]), plist(t[2]))
    if t[0] == "L":
        return "show_level_case %s %s" % (t[1], bl(t[2]))
    return None

def run_coq(coqdir, outdir, terms, tag):
    """evaluate the terms in one coqc run; returns the list of printed strings, or None on any failure"""
    v = os.path.join(outdir, "cases_%s.v" % tag)
    with open(v, "w") as f:
        f.write("From Coq Require Import String.\nFrom MST Require Import Sip Base TreeM Diff Show.\nOpen Scope N_scope.\n")
        for tm in terms:
            f.write("Eval vm_compute in (%s).\n" % tm)
    cmd = "ulimit -s unlimited 2>/dev/null; exec coqc -noglob -Q %s MST %s" % (os.path.join(coqdir, "theories"), v)
    try:
        p = subprocess.run(["bash", "-c", cmd], stdout=subprocess.PIPE, stderr=subprocess.STDOUT, text=True, timeout=900)
    except subprocess.TimeoutExpired:
        return None
    finally:
        for ext in ("vo", "vok", "vos", "glob"):
            try: os.remove(os.path.join(outdir, "cases_%s.%s" % (tag, ext)))
            except OSError: pass
    if p.returncode != 0:
        return None
    outs = re.findall(r'=\s*"(.*?)"(?:%string)?\s*:\s*string', p.stdout, re.S)
    outs = [re.sub(r"\s*\n\s*", "", o).replace('""', '"') for o in outs]
    return outs if len(outs) == len(terms) else None

def main():
    """coqcases.py <cases-file> <out-file>: evaluate every case inside coqc (vm_compute), write the model's
    observation lines to <out-file> and the cases actually evaluated to <cases-file>.used. A case Coq cannot
    evaluate within its resources (stack, time) is skipped and counted - that is a limit of this path, not a
    disagreement."""
    cases, outfile = sys.argv[1:3]
    coqdir = os.environ.get("MSTV_COQDIR") or os.path.join(os.path.dirname(os.path.dirname(os.path.abspath(__file__))), "coq")
    outdir = os.path.dirname(os.path.abspath(outfile))
    lines = [l.rstrip("\n") for l in open(cases) if l.strip()]
    items = [(l, term(l)) for l in lines]
    items = [(l, t) for l, t in items if t is not None]
    results = {}
    CH = 20
    for c0 in range(0, len(items), CH):
        chunk = items[c0:c0 + CH]
        outs = run_coq(coqdir, outdir, [t for _, t in chunk], "c%d" % c0)
        if outs is not None:
            for j, o in enumerate(outs):
                results[c0 + j] = o
        else:
            for j, (_, t) in enumerate(chunk):
                o = run_coq(coqdir, outdir, [t], "c%d_%d" % (c0, j))
                if o is not None:
                    results[c0 + j] = o[0]
    used = [i for i in range(len(items)) if i in results]
    open(cases + ".used", "w").write("".join(items[i][0] + "\n" for i in used))
    open(outfile, "w").write("".join(results[i] + "\n" for i in used))
    print(json.dumps({"cases": len(used), "skipped": len(lines) - len(used)}))

if __name__ == "__main__":
    main()
