#!/usr/bin/env python3
"""coqcases.py <cases-file> <impl-observations-file> <out-dir>
In-Coq correspondence path: renders every T/Tb/P/D/L case as a Gallina term, lets coqc evaluate the model by
vm_compute (theories/Show.v; no extraction, no OCaml) and compare the printed observation with the line the
Rust harness produced. Prints JSON {"cases": n, "agree": k, "disagree": [indices], "skipped": m}."""
import sys, os, re, json, subprocess

def bl(hexs):
    if hexs in ("-", ""):
        return "[]"
    return "[" + ";".join(str(int(hexs[i:i+2], 16)) for i in range(0, len(hexs), 2)) + "]"
def pad(hexs, w):
    if hexs == "-": hexs = ""
    return hexs + "00" * (w - len(hexs) // 2)
def keys(s, w):
    if s == "-":
        return "(KI [] [])"
    kb, kd = [], []
    for t in s.split(","):
        b, d = t.split(":")
        kb.append(bl(b)); kd.append(bl(pad(d, w)))
    return "(KI [%s] [%s])" % ("; ".join(kb), "; ".join(kd))
def ops(s, w):
    if s == "-":
        return "[]"
    out = []
    for t in s.split(","):
        if t == "h":
            out.append("CH")
        else:
            k, v = t[1:].split(":")
            out.append("CU %s %s" % (k, bl(pad(v, w))))
    return "[" + "; ".join(out) + "]"
def plist(s):
    if s == "-":
        return "[]"
    out = []
    for t in s.split(","):
        if not t: continue
        a, b, h = t.split("-")
        out.append("PR _ %s %s %s" % (a, b, bl(pad(h, 16))))
    return "[" + "; ".join(out) + "]"
def term(line):
    t = line.split(" ")
    if t[0] in ("T", "Tb"):
        w = int(t[2])
        return "show_tree_case %s %s %s %s" % ("true" if t[0] == "Tb" else "false", t[1], keys(t[3], w), ops(t[4], w))
    if t[0] == "P":
        w = int(t[2])
        return "show_pair_case %s %s %s %s" % (t[1], keys(t[3], w), ops(t[4], w), ops(t[5], w))
    if t[0] == "D":
        return "show_list_case %s %s" % (plist(t[1]), plist(t[2]))
    if t[0] == "L":
        return "show_level_case %s %s" % (t[1], bl(t[2]))
    return None

def main():
    cases, obs, outdir = sys.argv[1:4]
    coqdir = os.environ.get("MSTV_COQDIR") or os.path.join(os.path.dirname(os.path.dirname(os.path.abspath(__file__))), "coq")
    os.makedirs(outdir, exist_ok=True)
    lines = [l.rstrip("\n") for l in open(cases) if l.strip()]
    olines = [l.rstrip("\n") for l in open(obs)]
    items, skipped = [], 0
    for i, (c, o) in enumerate(zip(lines, olines)):
        tm = term(c)
        if tm is None:
            skipped += 1
            continue
        items.append((i, tm, o))
    v = os.path.join(outdir, "cases.v")
    with open(v, "w") as f:
        f.write("From Coq Require Import String.\nFrom MST Require Import Sip Base TreeM Diff Show.\nOpen Scope N_scope.\n")
        for i, tm, o in items:
            f.write('Definition c%d : bool := String.eqb (%s) "%s"%%string.\n' % (i, tm, o.replace('"', '""')))
        f.write("Definition results : list bool := [%s].\n" % "; ".join("c%d" % i for i, _, _ in items))
        f.write("Eval vm_compute in results.\n")
    p = subprocess.run(["coqc", "-noglob", "-Q", os.path.join(coqdir, "theories"), "MST", v], stdout=subprocess.PIPE, stderr=subprocess.STDOUT, text=True, timeout=1800)
    res = {"cases": len(items), "skipped": skipped}
    if p.returncode != 0:
        res["error"] = p.stdout[-1500:]
    else:
        m = re.search(r"=\s*\[(.*?)\]\s*:\s*list bool", p.stdout, re.S)
        vals = re.findall(r"true|false", m.group(1)) if m else []
        res["agree"] = vals.count("true")
        res["disagree"] = [items[j][0] for j, x in enumerate(vals) if x == "false"]
        if len(vals) != len(items):
            res["error"] = "expected %d results, parsed %d" % (len(items), len(vals))
    for ext in ("vo", "vok", "vos", "glob"):
        try: os.remove(os.path.join(outdir, "cases." + ext))
        except OSError: pass
    print(json.dumps(res))

if __name__ == "__main__":
    main()
