#!/usr/bin/env python3
"""Write /verif/seeded/RESULTS.md from the meta.json files."""
import json, glob, os
rows = []
for f in sorted(glob.glob("/verif/seeded/*/meta.json")):
    m = json.load(open(f)); name = os.path.basename(os.path.dirname(f))
    first = ""
    p = os.path.join(os.path.dirname(f), "patch.diff")
    files = sorted(set(l[6:].strip() for l in open(p) if l.startswith("+++ b/"))) if os.path.exists(p) else []
    conc = m.get("caught_with_concrete_replay_by", [])
    nof = [v["property"] for v in m.get("violations_reported", []) if not v["concrete_replay"]]
    c = m["confirmed_by_me_in_scratch_worktree"]
    rows.append("| %s | %s | %s | %s | %s | %s | %s |" % (name, m["breaks_property"], ", ".join(files),
        "yes" if (c["demo_fails_with_change"] and c["demo_passes_without_change"]) else "NO",
        "**yes**" if m["caught_by_target_property"] else "**no**", " ".join(conc) or "-", " ".join(nof) or "-"))
out = ["# Seeded changes and the checks that catch them", "",
       "Each change compiles, passes the repository's 121 tests + 8 doc tests, and breaks the named property only under the specific",
       "conditions described in its notes.md. Columns: confirmed = I re-ran suite and demonstration in the scratch worktree;",
       "target = the quick check of the targeted property raises a VIOLATION; concrete = checks that report a concrete failing input",
       "(replay file with a shrunk case); tie-only = checks that report `no-failing-input-found` (the correspondence for one of their",
       "projections broke but their own oracle holds on everything explored).", "",
       "| id | property | files changed | confirmed | target catches | concrete replay from | tie-only |", "|---|---|---|---|---|---|---|"] + rows
open("/verif/seeded/RESULTS.md", "w").write("\n".join(out) + "\n")
print("\n".join(out[-len(rows)-2:]))
