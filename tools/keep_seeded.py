#!/usr/bin/env python3
"""keep_seeded.py <seedloop.log> : for every seeded change tested in the log (sections '=== <id> hh:mm:ss'),
copy /tmp/mut/<id>/out/{patch.diff,seeded_demo.rs,notes.md} to /verif/seeded/<name>/ and write meta.json with
what I confirmed in the scratch worktree and which checks raised a VIOLATION (with/without a concrete replay)."""
import sys, os, re, json, shutil
log = open(sys.argv[1]).read()
suffix = sys.argv[2] if len(sys.argv) > 2 else ""
props = {json.loads(l)["id"]: json.loads(l)["title"] for l in open("/verif/properties.jsonl")}
for sec in re.split(r"(?m)^=== ", log)[1:]:
    sid = sec.split()[0]
    if sid == "done":
        continue
    pid = sid
    pf = "/tmp/mut/%s.prompt.txt" % sid
    if os.path.exists(pf):
        mm = re.search(r"^Property (C\d+):", open(pf).read(), re.M)
        if mm:
            pid = mm.group(1)
    src = "/tmp/mut/%s/out" % sid
    if not os.path.exists(os.path.join(src, "patch.diff")):
        continue
    m = re.search(r"total passed=(\d+) failed=(\d+)", sec)
    demo_fail_with = "seeded_demo" in sec and "FAILED" in sec
    demo_pass_without = bool(re.search(r"demo WITHOUT change: test result: ok", sec))
    suite_ok = bool(m) and all("FAILED" not in l or "seeded_demo" in prev for prev, l in zip([""] + sec.split("\n"), sec.split("\n")) if "test result" in l)
    det = re.findall(r"detect: VIOLATION property=(C\d+) replay=(\S+)( no-failing-input-found)?", sec)
    name = "%s%s" % (sid, suffix)
    dst = "/verif/seeded/%s" % name
    os.makedirs(dst, exist_ok=True)
    for f in ("patch.diff", "seeded_demo.rs", "notes.md"):
        if os.path.exists(os.path.join(src, f)):
            shutil.copyfile(os.path.join(src, f), os.path.join(dst, f))
    notes = open(os.path.join(src, "notes.md")).read() if os.path.exists(os.path.join(src, "notes.md")) else ""
    meta = {
        "breaks_property": pid, "property_title": props.get(pid),
        "source": "fresh sub-agent given only the property text and a scratch worktree (/tmp/mut/%s)" % sid,
        "needs_to_manifest": "see notes.md (agent's description); demonstration: seeded_demo.rs",
        "confirmed_by_me_in_scratch_worktree": {
            "worktree_diff_equals_patch": "worktree diff == patch.diff" in sec,
            "existing_suite_with_change": "passed=%s failed=%s (the failures are the seeded_demo target only: %s)" % (m.group(1), m.group(2), suite_ok) if m else "not run",
            "demo_fails_with_change": demo_fail_with, "demo_passes_without_change": demo_pass_without,
            "commands": ["cargo test --offline --no-fail-fast   (in the worktree, change applied)",
                         "git apply -R out/patch.diff && cargo test --offline --test seeded_demo && git apply out/patch.diff"],
        },
        "checks_run": "tools/seedtest.sh: git -C /repo apply patch.diff; ./check Cxx --tier quick for all 18; git -C /repo checkout -- .",
        "violations_reported": [{"property": p, "concrete_replay": not bool(n)} for p, r, n in det],
        "caught_by_target_property": any(p == pid for p, _, _ in det),
        "caught_with_concrete_replay_by": [p for p, r, n in det if not n],
    }
    json.dump(meta, open(os.path.join(dst, "meta.json"), "w"), indent=1)
    print(name, "caught_by_target:", meta["caught_by_target_property"], "concrete:", meta["caught_with_concrete_replay_by"], "nofail:", [p for p, r, n in det if n])
