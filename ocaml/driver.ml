(* Model runner: reads the same case lines as the Rust harness and prints one observation line per
   case, computed by the functions extracted from the Coq model (Mstmodel). The only logic here is
   parsing, printing and a memo table around the extracted SipHash. *)
open Mstmodel

let rec pos_of_int i = if i = 1 then XH else if i land 1 = 0 then XO (pos_of_int (i lsr 1)) else XI (pos_of_int (i lsr 1))
let n_of_int i = if i = 0 then N0 else Npos (pos_of_int i)
let rec int_of_pos = function XH -> 1 | XO p -> 2 * int_of_pos p | XI p -> 2 * int_of_pos p + 1
let int_of_n = function N0 -> 0 | Npos p -> int_of_pos p
let rec int_of_nat = function O -> 0 | S n -> 1 + int_of_nat n
let rec nat_of_int i = if i = 0 then O else S (nat_of_int (i - 1))
let nbyte = Array.init 256 n_of_int

let hexd = "0123456789abcdef"
let hex (s : string) : string =
  let b = Bytes.create (2 * String.length s) in
  String.iteri (fun i c -> let x = Char.code c in Bytes.set b (2*i) hexd.[x lsr 4]; Bytes.set b (2*i+1) hexd.[x land 15]) s;
  Bytes.to_string b
let hexz (s : string) : string =
  let n = ref (String.length s) in
  while !n > 0 && s.[!n - 1] = '\000' do decr n done;
  hex (String.sub s 0 !n)
let hv c = match c with '0'..'9' -> Char.code c - 48 | 'a'..'f' -> Char.code c - 87 | _ -> failwith "hex"
let unhex (s : string) : string =
  if s = "-" then "" else
  String.init (String.length s / 2) (fun i -> Char.chr (hv s.[2*i] * 16 + hv s.[2*i+1]))
let unhex_pad (s : string) (w : int) : string =
  let b = unhex s in b ^ String.make (w - String.length b) '\000'

let bytes_to_nlist (s : string) : n list = List.init (String.length s) (fun i -> nbyte.(Char.code s.[i]))
let nlist_to_bytes (l : n list) : string = String.concat "" (List.map (fun x -> String.make 1 (Char.chr (int_of_n x))) l)

(* memoised extracted SipHash-2-4-128 with zero key over a byte string *)
let memo : (string, string) Hashtbl.t = Hashtbl.create 100000
let sip (msg : string) : string =
  match Hashtbl.find_opt memo msg with
  | Some d -> d
  | None ->
    let d = nlist_to_bytes (siphash24_128 N0 N0 (bytes_to_nlist msg)) in
    if Hashtbl.length memo > 2_000_000 then Hashtbl.reset memo;
    Hashtbl.add memo msg d; d

type keyinfo = { kbytes : string array; klevel : n array }
let page_hash (ki : keyinfo) (toks : (string, string) tok list) : string =
  sip (String.concat "" (List.map (function TD d -> d | TK k -> ki.kbytes.(int_of_n k) | TV v -> v) toks))

let split_on c s = if s = "-" || s = "" then [] else String.split_on_char c s
let parse_keys (s : string) (w : int) (base : int) : keyinfo =
  let l = split_on ',' s in
  let kb = Array.of_list (List.map (fun t -> match String.split_on_char ':' t with [b; _] -> unhex b | _ -> failwith "key") l) in
  let kl = Array.of_list (List.map (fun t -> match String.split_on_char ':' t with
      | [_; d] -> level (bytes_to_nlist (unhex_pad d w)) (n_of_int base) | _ -> failwith "key") l) in
  { kbytes = kb; klevel = kl }
type op = U of int * string | H
let parse_ops (s : string) (w : int) : op list =
  List.map (fun t -> if t = "h" then H else
    match String.split_on_char ':' (String.sub t 1 (String.length t - 1)) with
    | [k; v] -> U (int_of_string k, unhex_pad v w) | _ -> failwith "op") (split_on ',' s)

let buf = Buffer.create (1 lsl 16)
let add = Buffer.add_string buf
let rec dump_page hp (Page (lvl, c, ns, high)) =
  add (Printf.sprintf "I%d:%s:%s " (int_of_n lvl) (if hp then "h" else "n") (match c with None -> "-" | Some d -> hex d));
  List.iter (fun (Node (k, v, lt)) ->
    add "( ";
    (match lt with Some p -> dump_page false p | None -> ());
    add (Printf.sprintf "%d=%s ) " (int_of_n k) (hexz v))) ns;
  add "O ";
  (match high with Some p -> dump_page true p | None -> ())
let add_ranges (l : string prange list) =
  List.iter (fun r -> add (Printf.sprintf "%d-%d-%s," (int_of_n r.ps) (int_of_n r.pe) (hex r.ph))) l
let observe_state (t : (string, string) mst) =
  add "D="; dump_page false t.root;
  (match t.root_hash with None -> add "|rc=-" | Some d -> add ("|rc=" ^ hex d));
  (match mst_serialise t with
   | Ok None -> add "|R=-"
   | Ok (Some l) -> add "|R="; add_ranges l
   | Panic _ | Fuel -> raise Exit);
  (match node_iter t with
   | Ok l -> add "|N="; List.iter (fun (Node (k, v, _)) -> add (Printf.sprintf "%d=%s," (int_of_n k) (hexz v))) l
   | Panic _ | Fuel -> raise Exit)

let apply_op ki t = function
  | H -> let (t', d) = mst_root_hash (page_hash ki) t in add ("H=" ^ hex d ^ "|"); t'
  | U (k, v) -> (match mst_upsert true t (n_of_int k) ki.klevel.(k) v with Ok t' -> t' | Panic _ | Fuel -> raise Exit)

let run_tree (toks : string array) =
  let base = int_of_string toks.(1) and w = int_of_string toks.(2) in
  let ki = parse_keys toks.(3) w base in
  let ops = parse_ops toks.(4) w in
  let t = ref mst_init in
  let first = ref true in
  if toks.(0) = "Tf" then begin
    (* large case: hash results and the final state only *)
    let mark = Buffer.length buf in
    (try
      List.iter (fun op ->
        let m = Buffer.length buf in
        t := apply_op ki !t op;
        (* apply_op printed "H=..|" for a hash op: turn the trailing '|' into ';' *)
        if Buffer.length buf > m then begin
          let s = Buffer.sub buf m (Buffer.length buf - m - 1) in
          Buffer.truncate buf m; add s; add ";" end) ops;
      observe_state !t
    with Exit -> Buffer.truncate buf mark; add "PANIC")
  end else
  (try
    List.iter (fun op ->
      if not !first then add ";"; first := false;
      let mark = Buffer.length buf in
      (try t := apply_op ki !t op; observe_state !t
       with Exit -> Buffer.truncate buf mark; add "PANIC"; raise Not_found)) ops;
    if toks.(0) = "Tb" then begin
      add "#";
      let kind = function EIn (_, hp) -> if hp then 'H' else 'I' | EOut _ -> 'O' | EPre _ -> '(' | EVisit _ -> 'v' | EPost _ -> ')' in
      let (full, _) = traverse (fun _ -> true) !t in
      let total = List.length full in
      for b = 1 to total do
        let (evs, _) = traverse (fun i -> int_of_nat i + 1 < b) !t in
        add "B:"; List.iter (fun e -> Buffer.add_char buf (kind e)) evs; add " "
      done
    end
  with Not_found -> ())

let build ki ops =
  let t = List.fold_left (fun t op -> let mark = Buffer.length buf in let t' = apply_op ki t op in Buffer.truncate buf mark; t') mst_init ops in
  fst (mst_root_hash (page_hash ki) t)
let get_ranges t = match mst_serialise t with Ok (Some l) -> l | _ -> raise Exit
let add_diff (d : drange list res) =
  match d with
  | Ok [] -> add "-"
  | Ok l -> List.iter (fun r -> add (Printf.sprintf "%d-%d," (int_of_n r.ds) (int_of_n r.de))) l
  | Panic _ | Fuel -> raise Exit
let ranges_str_of t = (match mst_serialise t with Ok None -> add "-" | Ok (Some l) -> add_ranges l | _ -> raise Exit)
let run_pair (toks : string array) =
  let base = int_of_string toks.(1) and w = int_of_string toks.(2) in
  let ki = parse_keys toks.(3) w base in
  let mark = Buffer.length buf in
  try
    let a = build ki (parse_ops toks.(4) w) and b = build ki (parse_ops toks.(5) w) in
    let ra = get_ranges a and rb = get_ranges b in
    add "RA="; ranges_str_of a; add "|RB="; ranges_str_of b;
    add "|AB="; add_diff (diff String.equal ra rb);
    add "|BA="; add_diff (diff String.equal rb ra)
  with Exit -> Buffer.truncate buf mark; add "PANIC"

let parse_list (s : string) : string prange list =
  List.filter_map (fun t -> if t = "" then None else
    match String.split_on_char '-' t with
    | [a; b; h] -> Some { ps = n_of_int (int_of_string a); pe = n_of_int (int_of_string b); ph = unhex_pad h 16 }
    | _ -> failwith "range") (split_on ',' s)
let run_list (toks : string array) =
  let mark = Buffer.length buf in
  try add_diff (diff String.equal (parse_list toks.(1)) (parse_list toks.(2)))
  with Exit -> Buffer.truncate buf mark; add "PANIC"

let run_level (toks : string array) =
  add (string_of_int (int_of_n (level (bytes_to_nlist (unhex toks.(2))) (n_of_int (int_of_string toks.(1))))))

let vh (v : int) : string = String.init 16 (fun i -> if i < 8 then Char.chr ((v lsr (8 * i)) land 255) else '\000')
let run_sync (toks : string array) =
  let base = int_of_string toks.(1) in
  let merge = if toks.(2) = "max" then (fun (o : int) (x : int) -> max o x) else (fun _ x -> x) in
  let nrep = int_of_string toks.(3) in
  let ki = parse_keys toks.(4) 16 base in
  let evs = List.map (fun t ->
      let f = List.map int_of_string (String.split_on_char ':' (String.sub t 1 (String.length t - 1))) in
      match t.[0], f with
      | 'w', [r; k; x] -> Write (nat_of_int r, n_of_int k, x)
      | 'h', [r] -> HashEv (nat_of_int r)
      | 'p', [d; s] -> Pull (nat_of_int d, nat_of_int s)
      | _ -> failwith "event") (split_on ',' toks.(5)) in
  let lvl_of k = ki.klevel.(int_of_n k) in
  let mark = Buffer.length buf in
  try
    let rs = ref (fresh (nat_of_int nrep)) in
    let final_only = toks.(0) = "Yf" in
    let nev = List.length evs in
    List.iteri (fun i e ->
      if i > 0 && not final_only then add ";";
      (match ev_run (page_hash ki) lvl_of String.equal vh merge !rs [e] with Ok r -> rs := r | _ -> raise Exit);
      if (not final_only) || i + 1 = nev then
      List.iteri (fun j rp ->
        if j > 0 then add "/";
        add "S="; add (String.concat "," (List.map (fun (k, v) -> Printf.sprintf "%d=%d" (int_of_n k) v) rp.r_store));
        add "|D="; dump_page false rp.r_tree.root;
        (match rp.r_tree.root_hash with None -> add "|rc=-" | Some d -> add ("|rc=" ^ hex d))) !rs) evs;
    add "#";
    List.iter (fun rp -> let (_, d) = mst_root_hash (page_hash ki) rp.r_tree in add (hex d ^ " ")) !rs
  with Exit -> Buffer.truncate buf mark; add "PANIC"

let () =
  let out = Buffer.create (1 lsl 20) in
  (try
    while true do
      let line = input_line stdin in
      if line <> "" then begin
        Buffer.clear buf;
        let toks = Array.of_list (String.split_on_char ' ' line) in
        (match toks.(0) with
         | "T" | "Tb" | "Tf" -> run_tree toks
         | "P" -> run_pair toks
         | "D" -> run_list toks
         | "L" -> run_level toks
         | "Y" | "Yf" -> run_sync toks
         | _ -> add "?");
        Buffer.add_buffer out buf; Buffer.add_char out '\n';
        if Buffer.length out > (1 lsl 20) then (print_string (Buffer.contents out); Buffer.clear out)
      end
    done
  with End_of_file -> ());
  print_string (Buffer.contents out)
