//! Property predicates evaluated directly on the real crate (the "search" side: they turn a broken
//! proof/correspondence into a concrete failing input). Nothing here consults the model.
use crate::common::*;
use crate::diffobs::*;
use crate::treeobs::*;
use merkle_search_tree::diff::diff;
use merkle_search_tree::{visitor::Visitor, Node, Page};
use siphasher::sip128::{Hasher128, SipHasher24};
use std::collections::BTreeMap;
use std::hash::Hasher as StdHasher;
use std::panic::{catch_unwind, AssertUnwindSafe};

#[derive(Clone, Debug, PartialEq, Eq)]
pub enum E {
    In { level: u8, hp: bool, hash: Option<[u8; 16]>, keys: Vec<u32> },
    Out { level: u8 },
    Pre(u32),
    Visit(u32, Vec<u8>),
    Post(u32),
}
pub struct Log {
    pub ev: Vec<E>,
    pub budget: usize,
}
impl Log {
    fn step(&mut self, e: E) -> bool {
        self.ev.push(e);
        // saturating: a traversal that wrongly continues after a refusal must not crash the observer
        self.budget = self.budget.saturating_sub(1);
        self.budget > 0
    }
}
impl<'a, const N: usize> Visitor<'a, N, K> for Log {
    fn pre_visit_node(&mut self, n: &'a Node<N, K>) -> bool {
        self.step(E::Pre(n.key().idx))
    }
    fn visit_node(&mut self, n: &'a Node<N, K>) -> bool {
        self.step(E::Visit(n.key().idx, n.value_hash().as_bytes().to_vec()))
    }
    fn post_visit_node(&mut self, n: &'a Node<N, K>) -> bool {
        self.step(E::Post(n.key().idx))
    }
    fn visit_page(&mut self, p: &'a Page<N, K>, hp: bool) -> bool {
        self.step(E::In {
            level: p.level(),
            hp,
            hash: p.hash().map(|h| *h.as_bytes()),
            keys: p.nodes().iter().map(|n| n.key().idx).collect(),
        })
    }
    fn post_visit_page(&mut self, p: &'a Page<N, K>) -> bool {
        self.step(E::Out { level: p.level() })
    }
}
pub fn log<const N: usize>(t: &Tree<N>, budget: usize) -> Vec<E> {
    let mut l = Log { ev: vec![], budget };
    t.in_order_traversal(&mut l);
    l.ev
}
pub fn strip_ev(e: &[E]) -> Vec<E> {
    e.iter()
        .map(|e| match e {
            E::In { level, hp, keys, .. } => E::In { level: *level, hp: *hp, hash: None, keys: keys.clone() },
            x => x.clone(),
        })
        .collect()
}

#[derive(Clone, Debug)]
pub struct PNode {
    pub key: u32,
    pub val: Vec<u8>,
    pub lt: Option<Box<PPage>>,
}
#[derive(Clone, Debug)]
pub struct PPage {
    pub level: u8,
    pub hash: Option<[u8; 16]>,
    pub nodes: Vec<PNode>,
    pub high: Option<Box<PPage>>,
}
/// Parse an event list by the visitor protocol grammar
///   page(hp) ::= In(hp) ( Pre page(false)? Visit Post )* Out page(true)?
/// Err = the protocol (C17 nesting) is violated.
pub fn parse_page(ev: &[E], pos: &mut usize, want_hp: bool) -> Result<PPage, String> {
    let (level, hash, keys) = match ev.get(*pos) {
        Some(E::In { level, hp, hash, keys }) => {
            if *hp != want_hp {
                return Err(format!("event {}: high-page flag {} but expected {}", *pos, hp, want_hp));
            }
            (*level, *hash, keys.clone())
        }
        x => return Err(format!("event {}: expected page entry, got {:?}", *pos, x)),
    };
    *pos += 1;
    let mut nodes = vec![];
    loop {
        match ev.get(*pos) {
            Some(E::Pre(k)) => {
                let k = *k;
                *pos += 1;
                let lt = if let Some(E::In { .. }) = ev.get(*pos) {
                    Some(Box::new(parse_page(ev, pos, false)?))
                } else {
                    None
                };
                let val = match ev.get(*pos) {
                    Some(E::Visit(k2, v)) if *k2 == k => v.clone(),
                    x => return Err(format!("event {}: expected visit of {}, got {:?}", *pos, k, x)),
                };
                *pos += 1;
                match ev.get(*pos) {
                    Some(E::Post(k2)) if *k2 == k => {}
                    x => return Err(format!("event {}: expected post-visit of {}, got {:?}", *pos, k, x)),
                }
                *pos += 1;
                nodes.push(PNode { key: k, val, lt });
            }
            Some(E::Out { level: l2 }) => {
                if *l2 != level {
                    return Err(format!("event {}: page exit level {} != entry level {}", *pos, l2, level));
                }
                *pos += 1;
                break;
            }
            x => return Err(format!("event {}: expected pre-visit or page exit, got {:?}", *pos, x)),
        }
    }
    if nodes.iter().map(|n| n.key).collect::<Vec<_>>() != keys {
        return Err(format!("page nodes() {:?} != visited nodes {:?}", keys, nodes.iter().map(|n| n.key).collect::<Vec<_>>()));
    }
    let high = if let Some(E::In { hp: true, .. }) = ev.get(*pos) {
        Some(Box::new(parse_page(ev, pos, true)?))
    } else {
        None
    };
    Ok(PPage { level, hash, nodes, high })
}
pub fn parse_tree(ev: &[E]) -> Result<PPage, String> {
    let mut pos = 0;
    let p = parse_page(ev, &mut pos, false)?;
    if pos != ev.len() {
        return Err(format!("trailing events after the root page at {}", pos));
    }
    Ok(p)
}
impl PPage {
    pub fn min_key(&self) -> Option<u32> {
        let n = self.nodes.first()?;
        match &n.lt {
            Some(c) => c.min_key().or(Some(n.key)),
            None => Some(n.key),
        }
    }
    pub fn max_key(&self) -> Option<u32> {
        match &self.high {
            Some(h) => h.max_key(),
            None => self.nodes.last().map(|n| n.key),
        }
    }
    pub fn all_keys(&self, out: &mut Vec<u32>) {
        for n in &self.nodes {
            if let Some(c) = &n.lt {
                c.all_keys(out);
            }
            out.push(n.key);
        }
        if let Some(h) = &self.high {
            h.all_keys(out);
        }
    }
    pub fn children(&self) -> Vec<&PPage> {
        let mut v: Vec<&PPage> = self.nodes.iter().filter_map(|n| n.lt.as_deref()).collect();
        if let Some(h) = &self.high {
            v.push(h);
        }
        v
    }
    pub fn depth(&self) -> usize {
        1 + self.children().iter().map(|c| c.depth()).max().unwrap_or(0)
    }
    pub fn pages(&self) -> usize {
        1 + self.children().iter().map(|c| c.pages()).sum::<usize>()
    }
    /// reference digest by the documented construction, computed with the siphasher crate directly
    pub fn ref_hash(&self, keys: &[K]) -> [u8; 16] {
        let mut h = SipHasher24::new();
        for n in &self.nodes {
            if let Some(c) = &n.lt {
                h.write(&c.ref_hash(keys));
            }
            h.write(&keys[n.key as usize].bytes);
            h.write(&n.val);
        }
        if let Some(hp) = &self.high {
            h.write(&hp.ref_hash(keys));
        }
        h.finish128().as_bytes()
    }
    /// expected serialisation: pre-order (page, each key's lower subtree, high page)
    pub fn expected_ranges(&self, keys: &[K], out: &mut Vec<LR>) {
        let mut all = vec![];
        self.all_keys(&mut all);
        out.push(LR { s: *all.iter().min().unwrap(), e: *all.iter().max().unwrap(), h: self.ref_hash(keys) });
        for n in &self.nodes {
            if let Some(c) = &n.lt {
                c.expected_ranges(keys, out);
            }
        }
        if let Some(h) = &self.high {
            h.expected_ranges(keys, out);
        }
    }
    /// C09 shape: child levels strictly lower, keys at their derived level, no empty page
    pub fn check_shape(&self, keys: &[K], base: u8, is_root: bool, out: &mut Vec<String>) {
        if self.nodes.is_empty() && !(is_root && self.high.is_none()) {
            out.push(format!("empty page at level {}", self.level));
        }
        for n in &self.nodes {
            let want = ref_level(&keys[n.key as usize].dig, base as u32);
            if want != self.level as u32 {
                out.push(format!("key {} (derived level {}) sits on a page of level {}", n.key, want, self.level));
            }
        }
        for c in self.children() {
            if c.level >= self.level {
                out.push(format!("child page level {} not below parent level {}", c.level, self.level));
            }
            c.check_shape(keys, base, false, out);
        }
    }
    pub fn check_range_nesting(&self, out: &mut Vec<String>) {
        let (ps, pe) = match (self.min_key(), self.max_key()) {
            (Some(a), Some(b)) => (a, b),
            _ => return,
        };
        let mut all = vec![];
        self.all_keys(&mut all);
        if Some(ps) != all.iter().min().copied() || Some(pe) != all.iter().max().copied() {
            out.push(format!("span chase ({ps},{pe}) != true min/max of subtree"));
        }
        let mut last_end: Option<u32> = None;
        for c in self.children() {
            let mut ck = vec![];
            c.all_keys(&mut ck);
            if ck.is_empty() {
                continue;
            }
            let (cs, ce) = (*ck.iter().min().unwrap(), *ck.iter().max().unwrap());
            if cs < ps || ce > pe {
                out.push(format!("child span ({cs},{ce}) outside parent span ({ps},{pe})"));
            }
            if let Some(l) = last_end {
                if cs <= l {
                    out.push(format!("sibling spans not disjoint ascending: previous end {l}, next start {cs}"));
                }
            }
            last_end = Some(ce);
            c.check_range_nesting(out);
        }
    }
}

pub type Viol = Vec<(&'static str, String)>;

/// all single-tree predicates, evaluated after every op of a history
pub fn oracle_tree<const N: usize>(c: &TreeCase) -> Viol {
    // findings made before a panic are kept: the closure writes into the outer vector
    let mut out: Viol = vec![];
    let r = catch_unwind(AssertUnwindSafe(|| {
        let out = &mut out;
        let mut t = new_tree::<N>(c.base);
        let mut t_dep = if c.base == 16 { Some(new_tree_deprecated::<N>()) } else { None };
        let mut t_alt = new_tree_base_first::<N>(c.base);
        // a replica bootstrapped by cloning the tree half-way through the history must stay interchangeable
        let mut t_clone: Option<Tree<N>> = None;
        // C03: every root hash seen during the history, with the content it stood for
        let mut seen_hash: std::collections::HashMap<[u8; 16], BTreeMap<usize, Vec<u8>>> = Default::default();
        let mut content = BTreeMap::<usize, Vec<u8>>::new();
        for (i, op) in c.ops.iter().enumerate() {
            let at = |m: &str| format!("after op {} ({:?}): {}", i, op, m);
            if i == c.ops.len() / 2 {
                t_clone = Some(t.clone());
            }
            if let Some(cl) = t_clone.as_mut() {
                match op {
                    Op::Hash => {
                        let _ = cl.root_hash();
                    }
                    Op::Upsert(k, v) => cl.upsert(c.keys[*k].clone(), &Val(v.clone())),
                }
            }
            match op {
                Op::Hash => {
                    let h = t.root_hash().clone();
                    if let Some(d) = t_dep.as_mut() {
                        let _ = d.root_hash();
                    }
                    let _ = t_alt.root_hash();
                    if t.root_hash_cached() != Some(&h) {
                        out.push(("C02", at("root_hash_cached() != Some(value just returned)")));
                    }
                    match catch_unwind(AssertUnwindSafe(|| t.serialise_page_ranges().is_none())) {
                        Ok(false) => {}
                        Ok(true) => {
                            out.push(("C02", at("serialise_page_ranges() is None right after root_hash()")));
                            out.push(("C15", at("serialisation after a hash request did not succeed")));
                        }
                        Err(_) => {
                            out.push(("C02", at("serialise_page_ranges() panicked right after root_hash(): the cached root hash was exposed although pages are not hashed")));
                            out.push(("C15", at("serialisation after a hash request panicked")));
                            out.push(("C08", at("a tree that was just hashed cannot be serialised: a diff against a replica with identical content panics instead of returning no ranges")));
                        }
                    }
                }
                Op::Upsert(k, v) => {
                    t.upsert(c.keys[*k].clone(), &Val(v.clone()));
                    if let Some(d) = t_dep.as_mut() {
                        d.upsert(c.keys[*k].clone(), &Val(v.clone()));
                    }
                    t_alt.upsert(c.keys[*k].clone(), &Val(v.clone()));
                    content.insert(*k, v.clone());
                    if t.root_hash_cached().is_some() {
                        out.push(("C02", at("cached root hash still exposed after an upsert")));
                    }
                    match catch_unwind(AssertUnwindSafe(|| t.serialise_page_ranges().is_some())) {
                        Ok(false) => {}
                        Ok(true) => out.push(("C02", at("page ranges still available after an upsert"))),
                        Err(_) => {
                            out.push(("C02", at("serialise_page_ranges() passed its staleness gate after an upsert and panicked on unhashed pages")));
                            out.push(("C15", at("serialise_page_ranges() panicked after an upsert instead of returning None")));
                        }
                    }
                }
            }
            // large cases: the O(n) whole-tree predicates run on a stride and at the end
            if c.final_only && i + 1 != c.ops.len() && i % (1 + c.ops.len() / 12) != 0 {
                continue;
            }
            let ev = log(&t, usize::MAX);
            // C17 nesting + structure
            let st = match parse_tree(&ev) {
                Ok(p) => p,
                Err(m) => {
                    out.push(("C17", at(&format!("visitor protocol violated: {m}"))));
                    continue;
                }
            };
            // C09
            let mut sh = vec![];
            st.check_shape(&c.keys, c.base, true, &mut sh);
            for m in sh {
                out.push(("C09", at(&m)));
            }
            let visited: Vec<(u32, Vec<u8>)> =
                ev.iter().filter_map(|e| if let E::Visit(k, v) = e { Some((*k, v.clone())) } else { None }).collect();
            if !visited.windows(2).all(|w| w[0].0 < w[1].0) {
                out.push(("C09", at("in-order traversal keys not strictly ascending")));
            }
            // C10
            let want: Vec<(u32, Vec<u8>)> = content.iter().map(|(k, v)| (*k as u32, v.clone())).collect();
            let it: Vec<(u32, Vec<u8>)> = match catch_unwind(AssertUnwindSafe(|| {
                t.node_iter().take(4 * (visited.len() + 4)).map(|n| (n.key().idx, n.value_hash().as_bytes().to_vec())).collect::<Vec<_>>()
            })) {
                Ok(v) => v,
                Err(_) => {
                    out.push(("C15", at("node_iter() panicked")));
                    out.push(("C17", at("node_iter() panicked on a tree the in-order traversal visits without problem")));
                    out.push(("C10", at("node_iter() panicked: the stored entries cannot be read back")));
                    continue;
                }
            };
            if it != want {
                out.push(("C10", at(&format!("node_iter content {:?} != map semantics {:?}", it, want))));
            }
            // C17 iter agrees
            if it != visited {
                out.push(("C17", at("node_iter() differs from the in-order traversal's visited nodes")));
            }
            // C17 prefix (bounded cost: all budgets when short, strided otherwise)
            let stride = 1 + ev.len() / 64;
            let mut b = 1;
            while b <= ev.len() {
                let l = log(&t, b);
                if l[..] != ev[..b] {
                    out.push(("C17", at(&format!("stopping at callback {} does not yield that prefix of the full traversal", b))));
                    break;
                }
                b += stride;
            }
            // fresh tree with the same content, sorted order
            let mut f = new_tree::<N>(c.base);
            for (k, v) in &content {
                f.upsert(c.keys[*k].clone(), &Val(v.clone()));
            }
            let evf0 = log(&f, usize::MAX);
            if strip_ev(&ev) != strip_ev(&evf0) {
                out.push(("C01", at("shape differs from a tree freshly built from the same content")));
                out.push(("C09", at("shape is not the canonical one for the key set")));
            }
            let _ = f.root_hash();
            let evf = log(&f, usize::MAX);
            // C02: every cached digest must equal the fresh one at the same position
            if ev.len() == evf.len() {
                for (a, b) in ev.iter().zip(evf.iter()) {
                    if let (E::In { hash: Some(h), .. }, E::In { hash: hf, .. }) = (a, b) {
                        if Some(*h) != *hf {
                            out.push(("C02", at("a cached page hash differs from the freshly built tree's")));
                            break;
                        }
                    }
                }
            }
            // hashed clone: C01 / C11 / C14
            let mut tc = t.clone();
            let h1 = tc.root_hash().clone();
            let h2 = f.root_hash().clone();
            match seen_hash.get(h1.as_bytes()) {
                Some(prev) if *prev != content => {
                    out.push(("C03", at("this root hash was already reported for a different content earlier in the history")));
                }
                Some(_) => {}
                None => {
                    if seen_hash.len() < 4096 {
                        seen_hash.insert(*h1.as_bytes(), content.clone());
                    }
                }
            }
            if h1 != h2 {
                out.push(("C01", at("root hash differs from a freshly built tree with the same content")));
                out.push(("C02", at("root hash differs from a freshly built tree with the same content")));
                // the user-visible consequence: two replicas with identical content keep exchanging ranges
                let dd = catch_unwind(AssertUnwindSafe(|| {
                    diff(tc.serialise_page_ranges().unwrap(), f.serialise_page_ranges().unwrap()).len()
                        + diff(f.serialise_page_ranges().unwrap(), tc.serialise_page_ranges().unwrap()).len()
                }));
                match dd {
                    Ok(0) => {}
                    Ok(_) => {
                        out.push(("C08", at("diff against a freshly built tree with identical content is not empty")));
                        out.push(("C06", at("a replica with this history never reports the root hash of a replica with the same content")));
                    }
                    Err(_) => {
                        out.push(("C08", at("serialising / diffing against a freshly built tree with identical content panicked after a hash request")));
                        out.push(("C15", at("serialise_page_ranges() panicked although the root hash had just been requested")));
                        out.push(("C06", at("a replica with this history cannot be diffed against a replica with the same content")));
                    }
                }
            }
            if ranges_str(&tc) != ranges_str(&f) {
                out.push(("C01", at("page ranges differ from a freshly built tree with the same content")));
                out.push(("C02", at("page ranges differ from a freshly built tree with the same content")));
            }
            let evc = log(&tc, usize::MAX);
            if let Ok(stc) = parse_tree(&evc) {
                if !content.is_empty() {
                    let rh = stc.ref_hash(&c.keys);
                    if rh != *h1.as_bytes() {
                        out.push(("C14", at("root hash != reference SipHash-2-4-128 construction")));
                    }
                    let mut exp = vec![];
                    stc.expected_ranges(&c.keys, &mut exp);
                    let got = tree_ranges_owned(&tc);
                    if got != exp {
                        let bounds_only = got.len() == exp.len() && got.iter().zip(exp.iter()).all(|(a, b)| a.s == b.s && a.e == b.e);
                        out.push(("C11", at(&format!("serialised ranges {} != expected pre-order (min,max,digest) list {}", list_str(&got), list_str(&exp)))));
                        if bounds_only {
                            out.push(("C14", at("a serialised page digest != reference construction")));
                        }
                    }
                    let mut nest = vec![];
                    stc.check_range_nesting(&mut nest);
                    for m in nest {
                        out.push(("C11", at(&m)));
                    }
                } else if tc.serialise_page_ranges().map(|v| v.len()) != Some(0) {
                    out.push(("C11", at("empty tree does not serialise to an empty list")));
                }
            }
            // a clone taken mid-history and fed the same operations must be indistinguishable
            if let Some(cl) = t_clone.as_ref() {
                let mut s1 = String::new();
                let mut s2 = String::new();
                dump_tree(&t, &mut s1);
                dump_tree(cl, &mut s2);
                if s1 != s2 {
                    for p in ["C01", "C05", "C06", "C18"] {
                        out.push((p, at("a clone of the tree taken mid-history, given the same later operations, differs from the original (replicas bootstrapped by clone diverge)")));
                    }
                }
            }
            // C18: the two builder call orders must be interchangeable
            {
                let mut s1 = String::new();
                let mut s2 = String::new();
                dump_tree(&t, &mut s1);
                dump_tree(&t_alt, &mut s2);
                if s1 != s2 {
                    out.push(("C18", at("builder with_level_base().with_hasher() tree differs from with_hasher().with_level_base() tree")));
                }
            }
            // C18: the deprecated constructor must be interchangeable (base 16 only)
            if let Some(d) = t_dep.as_ref() {
                let mut s1 = String::new();
                let mut s2 = String::new();
                dump_tree(&t, &mut s1);
                dump_tree(d, &mut s2);
                if s1 != s2 {
                    out.push(("C18", at("deprecated-constructor tree differs from builder tree")));
                }
            }
        }
    }));
    if r.is_err() {
        out.push(("C15", "a tree operation panicked".into()));
    }
    out
}

// ---------------------------------------------------------------------------------------------
// default configuration: the crate's own SipHasher (default and seeded), the three constructors, and real key
// types (Vec<u8>, String, [u8; 4]); compared among themselves and against the documented level rule
struct DumpB<K> {
    s: String,
    levels_ok: bool,
    hasher: merkle_search_tree::digest::siphash::SipHasher,
    _k: std::marker::PhantomData<K>,
}
impl<'a, K: AsRef<[u8]> + std::hash::Hash> Visitor<'a, 16, K> for DumpB<K> {
    fn visit_node(&mut self, n: &'a Node<16, K>) -> bool {
        use std::fmt::Write;
        write!(self.s, "{}={} ", hex(n.key().as_ref()), hex(n.value_hash().as_bytes())).unwrap();
        true
    }
    fn visit_page(&mut self, p: &'a Page<16, K>, hp: bool) -> bool {
        use merkle_search_tree::digest::Hasher;
        use std::fmt::Write;
        write!(self.s, "I{}:{}:{} ", p.level(), hp, p.hash().map(|h| hex(h.as_bytes())).unwrap_or_default()).unwrap();
        for n in p.nodes() {
            let d = Hasher::<16, K>::hash(&self.hasher, n.key());
            if ref_level(d.as_bytes(), 16) != p.level() as u32 {
                self.levels_ok = false;
            }
        }
        true
    }
    fn post_visit_page(&mut self, _p: &'a Page<16, K>) -> bool {
        self.s.push_str("O ");
        true
    }
}
fn default_cfg_for<K>(c: &TreeCase, kind: &str, mk: impl Fn(usize, &[u8]) -> K) -> Viol
where
    K: Clone + PartialOrd + AsRef<[u8]> + std::hash::Hash,
{
    use merkle_search_tree::builder::Builder;
    use merkle_search_tree::digest::siphash::SipHasher;
    use merkle_search_tree::MerkleSearchTree;
    let mut out: Viol = vec![];
    let seedk = [7u8; 16];
    #[allow(deprecated)]
    let mut trees: Vec<(&str, MerkleSearchTree<K, Vec<u8>>, SipHasher)> = vec![
        ("default()", MerkleSearchTree::default(), SipHasher::default()),
        ("Builder::default().build()", Builder::default().build(), SipHasher::default()),
        ("new_with_hasher(SipHasher::default())", MerkleSearchTree::new_with_hasher(SipHasher::default()), SipHasher::default()),
        ("Builder.with_hasher(seeded)", Builder::default().with_hasher(SipHasher::new(&seedk)).build(), SipHasher::new(&seedk)),
        ("new_with_hasher(seeded)", MerkleSearchTree::new_with_hasher(SipHasher::new(&seedk)), SipHasher::new(&seedk)),
    ];
    for op in &c.ops {
        for (_, t, _) in trees.iter_mut() {
            match op {
                Op::Hash => {
                    let _ = t.root_hash();
                }
                Op::Upsert(k, v) => t.upsert(mk(*k, &c.keys[*k].bytes), v),
            }
        }
    }
    let mut dumps = vec![];
    for (name, t, h) in trees.iter_mut() {
        let rh = t.root_hash().clone();
        let mut d = DumpB::<K> { s: String::new(), levels_ok: true, hasher: h.clone(), _k: Default::default() };
        t.in_order_traversal(&mut d);
        if !d.levels_ok {
            out.push(("C14", format!("{kind} keys, {name}: a key sits on a page whose level is not the level derived from its SipHash digest (base 16)")));
            out.push(("C18", format!("{kind} keys, {name}: level derivation differs from the documented rule under the crate's own hasher")));
        }
        let n1 = t.node_iter().count();
        let asc = {
            let ks: Vec<&K> = t.node_iter().map(|n| n.key()).collect();
            ks.windows(2).all(|w| w[0] < w[1])
        };
        let want = final_content(&c.ops).len();
        if !asc || n1 != want {
            out.push(("C18", format!("{kind} keys, {name}: node_iter yields {n1} keys (expected {want}), ascending={asc}")));
        }
        dumps.push((name.to_string(), d.s, hex(rh.as_bytes())));
    }
    for grp in [&dumps[0..3], &dumps[3..5]] {
        for w in grp.windows(2) {
            if w[0].1 != w[1].1 || w[0].2 != w[1].2 {
                out.push(("C18", format!("{kind} keys: constructors {} and {} give different trees/hashes for the same history", w[0].0, w[1].0)));
            }
        }
    }
    if dumps[0].2 == dumps[3].2 && final_content(&c.ops).len() > 0 {
        out.push(("C18", format!("{kind} keys: seeded and default SipHasher give the same root hash: the seed is ignored")));
    }
    out
}
pub fn oracle_default_cfg(c: &TreeCase) -> Viol {
    let r = catch_unwind(AssertUnwindSafe(|| {
        let mut out = default_cfg_for::<Vec<u8>>(c, "Vec<u8>", |_, b| b.to_vec());
        out.extend(default_cfg_for::<String>(c, "String", |_, b| hex(b)));
        out.extend(default_cfg_for::<[u8; 4]>(c, "[u8; 4]", |i, _| (i as u32).to_be_bytes()));
        out
    }));
    match r {
        Ok(v) => v,
        Err(_) => vec![
            ("C15", "a tree operation panicked under the default configuration (real key types, SipHasher)".into()),
            ("C18", "a tree operation panicked under the default configuration".into()),
        ],
    }
}

fn covered(k: u32, rs: &[(u32, u32)]) -> bool {
    rs.iter().any(|(a, b)| *a <= k && k <= *b)
}
fn wf_ranges(rs: &[(u32, u32)]) -> Option<String> {
    for r in rs {
        if r.0 > r.1 {
            return Some(format!("range {}-{} has start > end", r.0, r.1));
        }
    }
    for w in rs.windows(2) {
        if w[0].1 >= w[1].0 {
            return Some(format!("ranges {}-{} and {}-{} not strictly ascending/disjoint", w[0].0, w[0].1, w[1].0, w[1].1));
        }
    }
    None
}
pub fn final_content(ops: &[Op]) -> BTreeMap<u32, Vec<u8>> {
    let mut m = BTreeMap::new();
    for o in ops {
        if let Op::Upsert(k, v) = o {
            m.insert(*k as u32, v.clone());
        }
    }
    m
}

/// predicates on a pair of real trees
pub fn oracle_pair<const N: usize>(c: &PairCase) -> Viol {
    let mut out: Viol = vec![];
    let r = catch_unwind(AssertUnwindSafe(|| {
        let out = &mut out;
        let mut a = build_tree::<N>(c.base, &c.keys, &c.ops_a);
        let mut b = build_tree::<N>(c.base, &c.keys, &c.ops_b);
        let ha = a.root_hash().clone();
        let hb = b.root_hash().clone();
        let ca = final_content(&c.ops_a);
        let cb = final_content(&c.ops_b);
        let ra = a.serialise_page_ranges().unwrap();
        let rb = b.serialise_page_ranges().unwrap();
        let ab: Vec<(u32, u32)> = diff(ra.clone(), rb.clone()).iter().map(|r| (r.start().idx, r.end().idx)).collect();
        let ba: Vec<(u32, u32)> = diff(rb.clone(), ra.clone()).iter().map(|r| (r.start().idx, r.end().idx)).collect();
        // C03
        if ca != cb && ha == hb {
            out.push(("C03", "different contents, equal root hashes".into()));
        }
        if ca == cb && ha != hb {
            out.push(("C01", "equal contents, different root hashes".into()));
        }
        // C08
        if ca == cb && (!ab.is_empty() || !ba.is_empty()) {
            out.push(("C08", format!("identical contents but diffs {:?} / {:?}", ab, ba)));
        }
        // C04
        if ab.is_empty() && ba.is_empty() && ca != cb {
            out.push(("C04", "both diffs empty but contents differ".into()));
        }
        for (name, d, local, peer) in [("A<-B", &ab, &ca, &cb), ("B<-A", &ba, &cb, &ca)] {
            // C12 on real trees
            if let Some(m) = wf_ranges(d) {
                out.push(("C12", format!("{name}: {m}")));
            }
            if !peer.is_empty() {
                let (pmin, pmax) = (*peer.keys().next().unwrap(), *peer.keys().last().unwrap());
                for r in d.iter() {
                    if r.0 < pmin || r.1 > pmax {
                        out.push(("C12", format!("{name}: range {}-{} outside the peer span {}-{}", r.0, r.1, pmin, pmax)));
                    }
                    if !peer.contains_key(&r.0) {
                        out.push(("C12", format!("{name}: range start {} is not a key the peer holds", r.0)));
                        out.push(("C04", format!("{name}: range start {} is not a key the peer holds", r.0)));
                    }
                    if !peer.contains_key(&r.1) && !local.contains_key(&r.1) {
                        out.push(("C12", format!("{name}: range end {} is a key of neither tree", r.1)));
                    }
                }
            } else if !d.is_empty() {
                out.push(("C08", format!("{name}: diff against an empty peer is not empty")));
            }
            // C07
            let span_ok = local.is_empty()
                || (!peer.is_empty()
                    && *peer.keys().next().unwrap() <= *local.keys().next().unwrap()
                    && *local.keys().last().unwrap() <= *peer.keys().last().unwrap());
            if span_ok {
                for (k, v) in peer.iter() {
                    if local.get(k) != Some(v) && !covered(*k, d) {
                        out.push(("C07", format!("{name}: differing peer key {} not inside any returned range {:?}", k, d)));
                    }
                }
                if local.is_empty() && !peer.is_empty() {
                    let want = vec![(*peer.keys().next().unwrap(), *peer.keys().last().unwrap())];
                    if *d != want {
                        out.push(("C07", format!("{name}: empty local tree got {:?}, expected the whole peer span {:?}", d, want)));
                    }
                }
            }
        }
        // C05 progress (one pull each way on content maps), for peer-wins and max on the digest bytes
        if ca != cb {
            for merge_max in [false, true] {
                let apply = |dst: &BTreeMap<u32, Vec<u8>>, src: &BTreeMap<u32, Vec<u8>>, d: &[(u32, u32)]| {
                    let mut n = dst.clone();
                    for (k, v) in src.iter() {
                        if covered(*k, d) {
                            let nv = match n.get(k) {
                                Some(o) if merge_max => o.clone().max(v.clone()),
                                _ => v.clone(),
                            };
                            n.insert(*k, nv);
                        }
                    }
                    n
                };
                if apply(&ca, &cb, &ab) == ca && apply(&cb, &ca, &ba) == cb {
                    out.push(("C05", format!("contents differ but neither pull direction changes its receiver (merge_max={merge_max})")));
                }
            }
        }
        // C16: a panic on one of the alternative representations is a C16 failure (the borrowed route above ran)
        match catch_unwind(AssertUnwindSafe(|| routes_agree(&a, &b))) {
            Ok(Ok(())) => {}
            Ok(Err(m)) => out.push(("C16", m)),
            Err(_) => {
                out.push(("C16", "diff panicked on an owned / rebuilt representation of page ranges that diff fine when borrowed".into()));
                out.push(("C15", "diff panicked on an owned / rebuilt representation of real trees' page ranges".into()));
            }
        }
    }));
    if r.is_err() {
        out.push(("C15", "a pair operation panicked".into()));
    }
    out
}

/// full two-way sync loop on a pair (C05 rounds + join result), using real trees kept incrementally
pub fn oracle_sync_rounds(c: &PairCase) -> Viol {
    let mut out: Viol = vec![];
    let r = catch_unwind(AssertUnwindSafe(|| {
        let out = &mut out;
        let val = |v: &Vec<u8>| u64::from_le_bytes([v[0], v[1], v[2], v[3], v[4], v[5], v[6], v[7]]);
        for merge_max in [false, true] {
            let mut reps: Vec<Replica> = vec![];
            for ops in [&c.ops_a, &c.ops_b] {
                let mut rp = Replica { store: BTreeMap::new(), tree: new_tree::<16>(c.base) };
                for o in ops.iter() {
                    match o {
                        Op::Upsert(k, v) => {
                            // initial population is a plain store write (no merge): last write wins
                            rp.store.insert(*k, val(v));
                            rp.tree.upsert(c.keys[*k].clone(), &vh(val(v)));
                        }
                        Op::Hash => {
                            let _ = rp.tree.root_hash();
                        }
                    }
                }
                reps.push(rp);
            }
            let (a0, b0) = (reps[0].store.clone(), reps[1].store.clone());
            let allk: std::collections::BTreeSet<usize> = a0.keys().chain(b0.keys()).cloned().collect();
            let dis = allk.iter().filter(|k| a0.get(k) != b0.get(k)).count();
            let mut rounds = 0;
            loop {
                if reps[0].tree.root_hash().clone() == reps[1].tree.root_hash().clone() {
                    break;
                }
                if rounds >= dis {
                    out.push(("C05", format!("not converged after {} two-way rounds (bound = {} disagreeing keys, merge_max={})", rounds, dis, merge_max)));
                    break;
                }
                pull(&mut reps, &c.keys, 0, 1, merge_max);
                pull(&mut reps, &c.keys, 1, 0, merge_max);
                rounds += 1;
            }
            if reps[0].tree.root_hash().clone() == reps[1].tree.root_hash().clone() {
                if reps[0].store != reps[1].store {
                    out.push(("C03", "equal root hashes, different stores".into()));
                }
                if merge_max {
                    let mut j = a0.clone();
                    for (k, v) in &b0 {
                        let e = j.entry(*k).or_insert(*v);
                        *e = (*e).max(*v);
                    }
                    if reps[0].store != j {
                        out.push(("C05", format!("converged store {:?} is not the join {:?} of the initial stores", reps[0].store, j)));
                    }
                }
            }
        }
    }));
    if r.is_err() {
        out.push(("C15", "a sync operation panicked".into()));
    }
    out
}

/// predicates for diff on arbitrary well-formed lists (C12 first half, C13 functional half)
pub fn oracle_list(local: &[LR], peer: &[LR]) -> Viol {
    let mut out: Viol = vec![];
    match run_list_diff(local, peer) {
        None => {
            out.push(("C13", "diff panicked on well-formed lists".into()));
            out.push(("C15", "diff panicked".into()));
        }
        Some(d) => {
            if let Some(m) = wf_ranges(&d) {
                out.push(("C12", m.clone()));
                out.push(("C13", m));
            }
            let bounds: std::collections::BTreeSet<u32> =
                local.iter().chain(peer.iter()).flat_map(|r| [r.s, r.e]).collect();
            for r in &d {
                if !bounds.contains(&r.0) || !bounds.contains(&r.1) {
                    out.push(("C13", format!("range {}-{} has a bound that did not occur in the input", r.0, r.1)));
                }
            }
            if peer.is_empty() && !d.is_empty() {
                out.push(("C08", "diff against an empty peer list is not empty".into()));
            }
        }
    }
    out
}

/// multi-replica schedule followed by a fair quiescent phase (C06)
pub fn oracle_sync(c: &SyncCase) -> Viol {
    let mut out: Viol = vec![];
    let r = catch_unwind(AssertUnwindSafe(|| {
        let out = &mut out;
        let mut reps: Vec<Replica> =
            (0..c.nrep).map(|_| Replica { store: BTreeMap::new(), tree: new_tree::<16>(c.base) }).collect();
        let mut written: BTreeMap<usize, u64> = BTreeMap::new();
        for e in &c.evs {
            match e {
                Ev::Write(r, k, x) => {
                    if *r < c.nrep {
                        reps[*r].write(&c.keys, *k, *x, c.merge_max);
                        let e = written.entry(*k).or_insert(*x);
                        *e = (*e).max(*x);
                    }
                }
                Ev::Hash(r) => {
                    if *r < c.nrep {
                        let _ = reps[*r].tree.root_hash();
                    }
                }
                Ev::Pull(d, s) => {
                    if d != s && *d < c.nrep && *s < c.nrep {
                        pull(&mut reps, &c.keys, *d, *s, c.merge_max);
                    }
                }
            }
            // every replica's incremental tree must equal a fresh build of its store (refinement);
            // large cases: only after pulls and at the end
            if c.final_only && !matches!(e, Ev::Pull(_, _)) {
                continue;
            }
            for (i, rp) in reps.iter().enumerate() {
                let mut f = new_tree::<16>(c.base);
                for (k, v) in &rp.store {
                    f.upsert(c.keys[*k].clone(), &vh(*v));
                }
                let mut tc = rp.tree.clone();
                if tc.root_hash() != f.root_hash() {
                    out.push(("C06", format!("replica {i}: incremental tree's root hash differs from a fresh build of its store")));
                }
            }
        }
        if !c.merge_max {
            return;
        }
        // quiescent phase: all-pairs blocks
        // every changing pull raises at least one entry towards the (finite) join, so nrep * keys * distinct
        // written values blocks always suffice; large cases are capped (a healthy run needs two or three)
        let bound = (4 + c.nrep * c.keys.len() * 4).min(if c.final_only { 12 } else { 400 });
        let mut blocks = 0;
        loop {
            let hs: Vec<_> = reps.iter_mut().map(|r| r.tree.root_hash().clone()).collect();
            if hs.windows(2).all(|w| w[0] == w[1]) {
                break;
            }
            // a tree holding more nodes than its store has keys can never converge: stop at once
            if let Some((i, rp)) = reps.iter().enumerate().find(|(_, rp)| rp.tree.node_iter().take(4 * rp.store.len() + 8).count() > rp.store.len()) {
                out.push(("C06", format!("replica {i}: tree holds more nodes than its store has keys ({} keys): duplicates, cannot converge", rp.store.len())));
                out.push(("C10", format!("replica {i}: tree holds duplicate nodes after a sync schedule")));
                break;
            }
            if blocks > bound {
                out.push(("C06", format!("replicas not converged after {} all-pairs blocks", blocks)));
                break;
            }
            for d in 0..c.nrep {
                for s in 0..c.nrep {
                    if d != s {
                        pull(&mut reps, &c.keys, d, s, true);
                    }
                }
            }
            blocks += 1;
        }
        for (i, rp) in reps.iter().enumerate() {
            if rp.store != written && blocks <= bound {
                out.push(("C06", format!("replica {i} converged to {:?}, not the join of everything written {:?}", rp.store, written)));
            }
        }
    }));
    if r.is_err() {
        out.push(("C15", "a sync operation panicked".into()));
    }
    out
}
