//! mst-verif-harness: drives the real merkle-search-tree crate (public API only).
//!   gen <kind> <params..> [--shard i/n] [--seed s]   write cases to stdout
//!   run                                               cases on stdin -> one observation line per case
//!   cmp <cases> <model-out>                           compare implementation vs model per projection (JSON)
//!   oracle <cases>                                    evaluate property predicates on the implementation (JSON)
//!   deep <n>                                          F2 probe: diff on two n-deep nested chains, 2 MiB stack
mod common;
mod diffobs;
mod gen;
mod oracle;
mod treeobs;
use common::*;
use diffobs::*;
use std::collections::{BTreeMap, HashSet};
use std::io::{BufRead, BufReader, Write};
use treeobs::*;

// ---- watchdog: a case that does not terminate must not hang the whole check ----
static CURRENT_CASE: std::sync::Mutex<Option<(std::time::Instant, String)>> = std::sync::Mutex::new(None);
fn case_begin(line: &str) {
    *CURRENT_CASE.lock().unwrap() = Some((std::time::Instant::now(), line.to_string()));
}
fn case_end() {
    *CURRENT_CASE.lock().unwrap() = None;
}
fn start_watchdog() {
    let limit: u64 = std::env::var("MSTV_CASE_TIMEOUT_S").ok().and_then(|v| v.parse().ok()).unwrap_or(30);
    std::thread::spawn(move || loop {
        std::thread::sleep(std::time::Duration::from_millis(500));
        let cur = CURRENT_CASE.lock().unwrap().clone();
        if let Some((t0, line)) = cur {
            if t0.elapsed().as_secs() >= limit {
                eprintln!("HANG {}", line);
                println!("{{\"hang\":{},\"limit_s\":{}}}", jstr(&line), limit);
                std::process::exit(3);
            }
        }
    });
}

fn observe_tree_w<const N: usize>(c: &TreeCase) -> String {
    observe_tree::<N>(c)
}
fn observe_pair_w<const N: usize>(c: &PairCase) -> String {
    observe_pair::<N>(c)
}
fn oracle_tree_w<const N: usize>(c: &TreeCase) -> oracle::Viol {
    oracle::oracle_tree::<N>(c)
}
fn oracle_pair_w<const N: usize>(c: &PairCase) -> oracle::Viol {
    oracle::oracle_pair::<N>(c)
}

fn level_obs(toks: &[&str]) -> String {
    // the crate's level() is private: observe it through the level of the page a single key lands on
    let base: u8 = toks[1].parse().unwrap();
    let d = unhex(toks[2]);
    fn go<const N: usize>(base: u8, d: &[u8]) -> String {
        let r = std::panic::catch_unwind(|| {
            let mut t = new_tree::<N>(base);
            let k = K { idx: 0, bytes: vec![0], dig: d.to_vec() };
            t.upsert(k, &Val(vec![0u8; N]));
            let mut lvl = None;
            struct V(Option<u8>);
            impl<'a, const N: usize> merkle_search_tree::visitor::Visitor<'a, N, K> for V {
                fn visit_node(&mut self, _n: &'a merkle_search_tree::Node<N, K>) -> bool {
                    true
                }
                fn visit_page(&mut self, p: &'a merkle_search_tree::Page<N, K>, _hp: bool) -> bool {
                    self.0 = Some(p.level());
                    true
                }
            }
            let mut v = V(None);
            t.in_order_traversal(&mut v);
            lvl = lvl.or(v.0);
            lvl
        });
        match r {
            Ok(Some(l)) => l.to_string(),
            _ => "PANIC".into(),
        }
    }
    dispatch_width!(d.len(), go, base, &d)
}

fn observe_line(line: &str) -> String {
    let toks: Vec<&str> = line.split(' ').collect();
    match toks[0] {
        "T" | "Tb" | "Tf" => {
            let c = parse_tree_case(&toks);
            dispatch_width!(c.w, observe_tree_w, &c)
        }
        "P" => {
            let c = parse_pair_case(&toks);
            dispatch_width!(c.w, observe_pair_w, &c)
        }
        "D" => observe_list(&toks),
        "L" => level_obs(&toks),
        "Y" | "Yf" => observe_sync(&parse_sync_case(&toks)),
        k => panic!("unknown case kind {k}"),
    }
}

fn jstr(s: &str) -> String {
    let mut o = String::from("\"");
    for c in s.chars() {
        match c {
            '"' => o.push_str("\\\""),
            '\\' => o.push_str("\\\\"),
            '\n' => o.push_str("\\n"),
            c if (c as u32) < 32 => o.push_str(&format!("\\u{:04x}", c as u32)),
            c => o.push(c),
        }
    }
    o.push('"');
    o
}
fn trunc(s: &str, n: usize) -> String {
    if s.len() <= n {
        s.to_string()
    } else {
        format!("{}...[{} bytes]", &s[..n], s.len())
    }
}
fn fx(s: &str) -> u64 {
    let mut h = 0xcbf29ce484222325u64;
    for b in s.bytes() {
        h ^= b as u64;
        h = h.wrapping_mul(0x100000001b3);
    }
    h
}

/// projections that differ between impl and model observation of one case
fn compare(kind: &str, a: &str, b: &str) -> Vec<&'static str> {
    if a == b {
        return vec![];
    }
    match kind {
        "T" | "Tb" | "Tf" => compare_tree_lines(a, b).into_iter().collect(),
        "P" => {
            let mut out = vec![];
            if a == "PANIC" || b == "PANIC" {
                return vec!["panic", "diff", "ranges"];
            }
            let fa: Vec<&str> = a.split('|').collect();
            let fb: Vec<&str> = b.split('|').collect();
            if fa.len() != fb.len() {
                return vec!["diff", "ranges"];
            }
            let mut ranges_differ = false;
            let mut diffs_differ = false;
            for (x, y) in fa.iter().zip(fb.iter()) {
                if x != y {
                    if x.starts_with('R') {
                        ranges_differ = true;
                    } else {
                        diffs_differ = true;
                    }
                }
            }
            if ranges_differ {
                // the two diffs were computed from different inputs: only the serialisation can be blamed
                out.push("ranges");
            } else if diffs_differ {
                out.push("diff");
            }
            out
        }
        "D" => {
            if a == "PANIC" || b == "PANIC" {
                vec!["difflist", "panic"]
            } else {
                vec!["difflist"]
            }
        }
        "L" => vec!["level"],
        "Y" | "Yf" => {
            if a == "PANIC" || b == "PANIC" {
                return vec!["panic", "store"];
            }
            let mut out: std::collections::BTreeSet<&'static str> = Default::default();
            let (ae, ah) = a.split_once('#').unwrap_or((a, ""));
            let (be, bh) = b.split_once('#').unwrap_or((b, ""));
            if ah != bh {
                out.insert("hash");
            }
            let ea: Vec<&str> = ae.split(';').collect();
            let eb: Vec<&str> = be.split(';').collect();
            if ea.len() != eb.len() {
                return vec!["store", "struct", "cache", "hash"];
            }
            for (x, y) in ea.iter().zip(eb.iter()) {
                if x == y {
                    continue;
                }
                let ra: Vec<&str> = x.split('/').collect();
                let rb: Vec<&str> = y.split('/').collect();
                if ra.len() != rb.len() {
                    return vec!["store", "struct", "cache", "hash"];
                }
                for (p, q) in ra.iter().zip(rb.iter()) {
                    if p == q {
                        continue;
                    }
                    let fp: Vec<&str> = p.split('|').collect();
                    let fq: Vec<&str> = q.split('|').collect();
                    if fp.len() != fq.len() || fp.len() < 3 {
                        return vec!["store", "struct", "cache", "hash"];
                    }
                    if fp[0] != fq[0] {
                        out.insert("store");
                    }
                    // D=..|rc=.. compared like a tree state
                    let ta = format!("{}|{}", fp[1], fp[2]);
                    let tb = format!("{}|{}", fq[1], fq[2]);
                    for pr in compare_tree_lines(&ta, &tb) {
                        match pr {
                            "struct" | "trav" | "content" => {
                                out.insert("struct");
                            }
                            "cache" => {
                                out.insert("cache");
                            }
                            "hash" | "ranges" => {
                                out.insert("hash");
                            }
                            _ => {
                                out.insert("struct");
                            }
                        }
                    }
                }
            }
            if out.is_empty() {
                out.insert("store");
            }
            out.into_iter().collect()
        }
        _ => vec!["unknown"],
    }
}

fn nontrivial(kind: &str, case: &str, obs: &str) -> bool {
    match kind {
        "T" | "Tb" | "Tf" => {
            let last = obs.split('#').next().unwrap_or("").rsplit(';').next().unwrap_or("");
            last.matches(" I").count() + last.matches("=I").count() >= 2
        }
        "P" => obs.contains("AB=") && !(obs.contains("AB=-|") && obs.ends_with("BA=-")),
        "D" => {
            let t: Vec<&str> = case.split(' ').collect();
            t.len() == 3 && t[1] != "-" && t[2] != "-"
        }
        "L" => obs != "0",
        "Y" | "Yf" => case.contains(",p") || case.contains(" p"),
        _ => false,
    }
}

fn cmd_cmp(cases: &str, model: &str) {
    let fc = BufReader::new(std::fs::File::open(cases).expect("cases"));
    let mut fm = BufReader::new(std::fs::File::open(model).expect("model out")).lines();
    let mut n = 0u64;
    let mut by_kind: BTreeMap<String, u64> = BTreeMap::new();
    let mut mism: BTreeMap<&'static str, u64> = BTreeMap::new();
    let mut first: BTreeMap<&'static str, (String, String, String)> = BTreeMap::new();
    let mut seen: HashSet<u64> = HashSet::new();
    let mut nontriv = 0u64;
    let mut samples: Vec<String> = vec![];
    let mut stats: BTreeMap<String, u64> = BTreeMap::new();
    let mut model_short = false;
    for line in fc.lines() {
        let line = line.unwrap();
        if line.is_empty() {
            continue;
        }
        let kind = line.split(' ').next().unwrap().to_string();
        case_begin(&line);
        let a = observe_line(&line);
        case_end();
        let b = match fm.next() {
            Some(Ok(l)) => l,
            _ => {
                model_short = true;
                "<model output missing>".to_string()
            }
        };
        n += 1;
        *by_kind.entry(kind.clone()).or_default() += 1;
        for p in compare(&kind, &a, &b) {
            *mism.entry(p).or_default() += 1;
            first.entry(p).or_insert_with(|| (line.clone(), a.clone(), b.clone()));
        }
        if nontrivial(&kind, &line, &a) && seen.insert(fx(&line)) {
            nontriv += 1;
            if samples.len() < 3 || (n % 9973 == 0 && samples.len() < 6) {
                samples.push(format!("{} => {}", trunc(&line, 300), trunc(&a, 300)));
            }
        }
        // distribution
        match kind.as_str() {
            "T" | "Tb" | "Tf" => {
                let last = a.split('#').next().unwrap_or("").rsplit(';').next().unwrap_or("");
                let d = last.split('|').find(|f| f.starts_with("D=")).or_else(|| last.split('|').nth(1)).unwrap_or("");
                let (pages, depth, highs, nodes) = dump_stats(d.trim_start_matches("D="));
                *stats.entry(format!("tree.depth={}", depth.min(9))).or_default() += 1;
                *stats.entry(format!("tree.pages={}", if pages >= 16 { "16+".into() } else { pages.to_string() })).or_default() += 1;
                if highs > 0 {
                    *stats.entry("tree.with_high_page".into()).or_default() += 1;
                }
                *stats.entry(format!("tree.nodes={}", if nodes >= 32 { "32+".into() } else { nodes.to_string() })).or_default() += 1;
                *stats.entry("tree.hash_ops".into()).or_default() += line.matches(",h").count() as u64 + line.matches(" h,").count() as u64;
                if a.contains("PANIC") {
                    *stats.entry("tree.panic".into()).or_default() += 1;
                }
            }
            "D" | "P" => {
                let cls = if a.contains("PANIC") {
                    "panic"
                } else if kind == "D" {
                    if a == "-" {
                        "empty"
                    } else {
                        "nonempty"
                    }
                } else if a.contains("AB=-|") && a.ends_with("BA=-") {
                    "both-empty"
                } else if a.contains("AB=-|") || a.ends_with("BA=-") {
                    "one-empty"
                } else {
                    "both-nonempty"
                };
                *stats.entry(format!("{}.{}", if kind == "D" { "difflist" } else { "pair" }, cls)).or_default() += 1;
            }
            "L" => *stats.entry(format!("level={}", a)).or_default() += 1,
            _ => {}
        }
    }
    if fm.next().is_some() {
        model_short = true;
    }
    let mut o = String::new();
    o.push_str(&format!("{{\"cases\":{},\"distinct_nontrivial\":{},\"model_output_misaligned\":{},", n, nontriv, model_short));
    o.push_str("\"by_kind\":{");
    o.push_str(&by_kind.iter().map(|(k, v)| format!("{}:{}", jstr(k), v)).collect::<Vec<_>>().join(","));
    o.push_str("},\"mismatch\":{");
    o.push_str(&mism.iter().map(|(k, v)| format!("{}:{}", jstr(k), v)).collect::<Vec<_>>().join(","));
    o.push_str("},\"first\":{");
    o.push_str(
        &first
            .iter()
            .map(|(k, (c, a, b))| format!("{}:{{\"case\":{},\"impl\":{},\"model\":{}}}", jstr(k), jstr(c), jstr(&trunc(a, 4000)), jstr(&trunc(b, 4000))))
            .collect::<Vec<_>>()
            .join(","),
    );
    o.push_str("},\"stats\":{");
    o.push_str(&stats.iter().map(|(k, v)| format!("{}:{}", jstr(k), v)).collect::<Vec<_>>().join(","));
    o.push_str("},\"samples\":[");
    o.push_str(&samples.iter().map(|s| jstr(s)).collect::<Vec<_>>().join(","));
    o.push_str("]}");
    println!("{}", o);
}

fn cmd_oracle(cases: &str) {
    let fc = BufReader::new(std::fs::File::open(cases).expect("cases"));
    let mut n = 0u64;
    let mut viol: BTreeMap<&'static str, u64> = BTreeMap::new();
    let mut first: BTreeMap<&'static str, (String, String)> = BTreeMap::new();
    let mut by_kind: BTreeMap<String, u64> = BTreeMap::new();
    for line in fc.lines() {
        let line = line.unwrap();
        if line.is_empty() {
            continue;
        }
        n += 1;
        let toks: Vec<&str> = line.split(' ').collect();
        *by_kind.entry(toks[0].to_string()).or_default() += 1;
        case_begin(&line);
        let v: oracle::Viol = match toks[0] {
            "T" | "Tb" | "Tf" => {
                let c = parse_tree_case(&toks);
                let mut v = dispatch_width!(c.w, oracle_tree_w, &c);
                if c.w == 16 && !c.final_only && c.keys.len() <= 64 {
                    v.extend(oracle::oracle_default_cfg(&c));
                }
                v
            }
            "P" => {
                let c = parse_pair_case(&toks);
                let mut v = dispatch_width!(c.w, oracle_pair_w, &c);
                if c.w == 16 {
                    v.extend(oracle::oracle_sync_rounds(&c));
                }
                v
            }
            "D" => oracle::oracle_list(&parse_list(toks[1]), &parse_list(toks[2])),
            "Y" | "Yf" => oracle::oracle_sync(&parse_sync_case(&toks)),
            "L" => {
                let got = level_obs(&toks);
                let want = ref_level(&unhex(toks[2]), toks[1].parse().unwrap()).to_string();
                if got != want {
                    vec![
                        ("C14", format!("level {} != reference rule {}", got, want)),
                        ("C18", format!("level {} != reference rule {} for base {}", got, want, toks[1])),
                    ]
                } else {
                    vec![]
                }
            }
            _ => vec![],
        };
        case_end();
        let mut seen_here: HashSet<&'static str> = HashSet::new();
        for (p, m) in v {
            if seen_here.insert(p) {
                *viol.entry(p).or_default() += 1;
            }
            first.entry(p).or_insert_with(|| (line.clone(), m));
        }
    }
    let mut o = String::new();
    o.push_str(&format!("{{\"cases\":{},\"by_kind\":{{", n));
    o.push_str(&by_kind.iter().map(|(k, v)| format!("{}:{}", jstr(k), v)).collect::<Vec<_>>().join(","));
    o.push_str("},\"violations\":{");
    o.push_str(&viol.iter().map(|(k, v)| format!("{}:{}", jstr(k), v)).collect::<Vec<_>>().join(","));
    o.push_str("},\"first\":{");
    o.push_str(&first.iter().map(|(k, (c, m))| format!("{}:{{\"case\":{},\"what\":{}}}", jstr(k), jstr(c), jstr(&trunc(m, 2000)))).collect::<Vec<_>>().join(","));
    o.push_str("}}");
    println!("{}", o);
}

fn cmd_deep(n: u32, stack: usize) {
    let h = std::thread::Builder::new()
        .stack_size(stack)
        .spawn(move || {
            let chain: Vec<LR> = (0..n).map(|i| LR { s: i, e: 2 * n - i, h: [(i % 251) as u8 + 1; 16] }).collect();
            let mut peer = chain.clone();
            for p in peer.iter_mut() {
                p.h[0] ^= 0x80;
            }
            let r = run_list_diff(&chain, &peer);
            println!("DEEP-OK n={} result={}", n, trunc(&pairs_str(&r), 60));
        })
        .unwrap();
    let _ = h.join();
}

fn main() {
    let args: Vec<String> = std::env::args().collect();
    if std::env::var("MSTV_SHOW_PANICS").is_err() {
        std::panic::set_hook(Box::new(|_| {}));
    }
    match args.get(1).map(|s| s.as_str()) {
        Some("gen") => {
            let mut shard = (0u64, 1u64);
            let mut seed = 1u64;
            let mut pos: Vec<&str> = vec![];
            let mut i = 2;
            while i < args.len() {
                match args[i].as_str() {
                    "--shard" => {
                        let (a, b) = args[i + 1].split_once('/').unwrap();
                        shard = (a.parse().unwrap(), b.parse().unwrap());
                        i += 2;
                    }
                    "--seed" => {
                        seed = args[i + 1].parse().unwrap();
                        i += 2;
                    }
                    x => {
                        pos.push(x);
                        i += 1;
                    }
                }
            }
            let stdout = std::io::stdout();
            let mut w = std::io::BufWriter::with_capacity(1 << 20, stdout.lock());
            let mut s = gen::Sink { out: &mut w, idx: 0, shard: shard.0, nshards: shard.1, emitted: 0 };
            let p = |i: usize| -> usize { pos[i].parse().unwrap() };
            match pos[0] {
                "tree-exh" => gen::tree_exh(&mut s, p(1), p(2), p(3), pos.get(4) == Some(&"b")),
                "tree-rand" => gen::tree_rand(&mut s, p(1) as u64, seed, p(2)),
                "tree-stair" => gen::tree_stair(&mut s, p(1) as u64, seed),
                "tree-burst" => gen::tree_burst(&mut s, pos.get(1) == Some(&"big")),
                "tree-flat" => gen::tree_flat(&mut s, p(1) as u64, seed),
                "tree-perm" => gen::tree_perm(&mut s, p(1), p(2), pos.get(3).map(|x| x.contains('h')).unwrap_or(false), pos.get(3).map(|x| x.contains('u')).unwrap_or(false)),
                "pair-exh" => gen::pair_exh(&mut s, p(1), p(2)),
                "pair-rand" => gen::pair_rand(&mut s, p(1) as u64, seed, p(2)),
                "pair-twin" => gen::pair_twin(&mut s, p(1) as u64, seed),
                "pair-comb" => gen::pair_comb(&mut s, p(1) as u64, seed),
                "list-exh" => gen::list_exh(&mut s, p(1) as u32, p(2)),
                "list-rand" => gen::list_rand(&mut s, p(1) as u64, seed),
                "level-exh" => gen::level_exh(&mut s, p(1)),
                "level-rand" => gen::level_rand(&mut s, p(1) as u64, seed),
                "sync-exh" => gen::sync_exh(&mut s, p(1), p(2), p(3), pos[4]),
                "sync-rand" => gen::sync_rand(&mut s, p(1) as u64, seed, p(2)),
                "sync-flat" => gen::sync_flat(&mut s, p(1) as u64, seed),
                k => panic!("unknown generator {k}"),
            }
            w.flush().unwrap();
        }
        Some("run") => {
            start_watchdog();
            let stdin = std::io::stdin();
            let stdout = std::io::stdout();
            let mut w = std::io::BufWriter::with_capacity(1 << 20, stdout.lock());
            for line in stdin.lock().lines() {
                let line = line.unwrap();
                if line.is_empty() {
                    continue;
                }
                case_begin(&line);
                let o = observe_line(&line);
                case_end();
                writeln!(w, "{}", o).unwrap();
            }
        }
        Some("cmp") => {
            start_watchdog();
            cmd_cmp(&args[2], &args[3])
        }
        Some("oracle") => {
            start_watchdog();
            cmd_oracle(&args[2])
        }
        Some("deep") => cmd_deep(args[2].parse().unwrap(), args.get(3).map(|s| s.parse().unwrap()).unwrap_or(2 << 20)),
        _ => {
            eprintln!("usage: gen|run|cmp|oracle|deep");
            std::process::exit(2);
        }
    }
}
