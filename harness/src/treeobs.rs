//! Observation of the real tree through its public API only, and the per-projection comparison of
//! two observation lines (implementation vs. model).
use crate::common::*;
use merkle_search_tree::{builder::Builder, visitor::Visitor, MerkleSearchTree, Node, Page};
use std::collections::BTreeSet;
use std::fmt::Write as FW;
use std::num::NonZeroU8;
use std::panic::{catch_unwind, AssertUnwindSafe};

pub type Tree<const N: usize> = MerkleSearchTree<K, Val, CH, N>;

pub fn new_tree<const N: usize>(base: u8) -> Tree<N> {
    Builder::default().with_hasher(CH).with_level_base(NonZeroU8::new(base).expect("base>0")).build()
}
/// the same configuration through the other builder call order (level base first, then the hasher)
pub fn new_tree_base_first<const N: usize>(base: u8) -> Tree<N> {
    Builder::default().with_level_base(NonZeroU8::new(base).expect("base>0")).with_hasher(CH).build()
}
#[allow(deprecated)]
pub fn new_tree_deprecated<const N: usize>() -> Tree<N> {
    MerkleSearchTree::new_with_hasher(CH)
}

#[derive(Clone, Debug)]
pub struct TreeCase {
    pub base: u8,
    pub w: usize,
    pub keys: Vec<K>,
    pub ops: Vec<Op>,
    pub budgets: bool,
    /// `Tf`: large case - observe hash results and the final state only
    pub final_only: bool,
}
/// `T|Tb <base> <w> <keys> <ops>`
pub fn parse_tree_case(toks: &[&str]) -> TreeCase {
    let w: usize = toks[2].parse().unwrap();
    TreeCase {
        base: toks[1].parse().unwrap(),
        w,
        keys: parse_keys(toks[3], w),
        ops: parse_ops(toks[4], w),
        budgets: toks[0] == "Tb",
        final_only: toks[0] == "Tf",
    }
}

struct Dump<'s> {
    s: &'s mut String,
}
impl<'a, 's, const N: usize> Visitor<'a, N, K> for Dump<'s> {
    fn pre_visit_node(&mut self, _n: &'a Node<N, K>) -> bool {
        self.s.push_str("( ");
        true
    }
    fn visit_node(&mut self, n: &'a Node<N, K>) -> bool {
        write!(self.s, "{}={} ", n.key().idx, hexz(n.value_hash().as_bytes())).unwrap();
        true
    }
    fn post_visit_node(&mut self, _n: &'a Node<N, K>) -> bool {
        self.s.push_str(") ");
        true
    }
    fn visit_page(&mut self, p: &'a Page<N, K>, hp: bool) -> bool {
        write!(
            self.s,
            "I{}:{}:{} ",
            p.level(),
            if hp { "h" } else { "n" },
            p.hash().map(|h| hex(h.as_bytes())).unwrap_or_else(|| "-".into())
        )
        .unwrap();
        true
    }
    fn post_visit_page(&mut self, _p: &'a Page<N, K>) -> bool {
        self.s.push_str("O ");
        true
    }
}
struct Bud {
    s: String,
    left: usize,
}
impl Bud {
    fn step(&mut self, c: char) -> bool {
        self.s.push(c);
        self.left = self.left.saturating_sub(1);
        self.left > 0
    }
}
impl<'a, const N: usize> Visitor<'a, N, K> for Bud {
    fn pre_visit_node(&mut self, _n: &'a Node<N, K>) -> bool {
        self.step('(')
    }
    fn visit_node(&mut self, _n: &'a Node<N, K>) -> bool {
        self.step('v')
    }
    fn post_visit_node(&mut self, _n: &'a Node<N, K>) -> bool {
        self.step(')')
    }
    fn visit_page(&mut self, _p: &'a Page<N, K>, hp: bool) -> bool {
        self.step(if hp { 'H' } else { 'I' })
    }
    fn post_visit_page(&mut self, _p: &'a Page<N, K>) -> bool {
        self.step('O')
    }
}

pub fn dump_tree<const N: usize>(t: &Tree<N>, s: &mut String) {
    let mut d = Dump { s };
    t.in_order_traversal(&mut d);
}
pub fn ranges_str<const N: usize>(t: &Tree<N>) -> String {
    match t.serialise_page_ranges() {
        None => "-".into(),
        Some(l) => {
            let mut s = String::new();
            for r in l {
                write!(s, "{}-{}-{},", r.start().idx, r.end().idx, hex(r.hash().as_bytes())).unwrap();
            }
            s
        }
    }
}
/// state observation after one op (never mutates the tree)
pub fn observe_state<const N: usize>(t: &Tree<N>, s: &mut String) {
    s.push_str("D=");
    dump_tree(t, s);
    match t.root_hash_cached() {
        None => s.push_str("|rc=-"),
        Some(h) => write!(s, "|rc={}", hex(h.as_bytes())).unwrap(),
    }
    write!(s, "|R={}", ranges_str(t)).unwrap();
    s.push_str("|N=");
    // bounded: an iterator that wrongly cycles must not hang the observer
    for n in t.node_iter().take(200_000) {
        write!(s, "{}={},", n.key().idx, hexz(n.value_hash().as_bytes())).unwrap();
    }
}
pub fn apply_op<const N: usize>(t: &mut Tree<N>, keys: &[K], op: &Op, s: &mut String) {
    match op {
        Op::Hash => {
            let h = t.root_hash().clone();
            write!(s, "H={}|", hex(h.as_bytes())).unwrap();
        }
        Op::Upsert(k, v) => t.upsert(keys[*k].clone(), &Val(v.clone())),
    }
}

pub fn observe_tree<const N: usize>(c: &TreeCase) -> String {
    let mut out = String::new();
    let mut t = new_tree::<N>(c.base);
    if c.final_only {
        let r = catch_unwind(AssertUnwindSafe(|| {
            let mut s = String::new();
            for op in c.ops.iter() {
                let mut h = String::new();
                apply_op(&mut t, &c.keys, op, &mut h);
                if !h.is_empty() {
                    s.push_str(h.trim_end_matches('|'));
                    s.push(';');
                }
            }
            observe_state(&t, &mut s);
            s
        }));
        return r.unwrap_or_else(|_| "PANIC".into());
    }
    for (i, op) in c.ops.iter().enumerate() {
        if i > 0 {
            out.push(';');
        }
        let r = catch_unwind(AssertUnwindSafe(|| {
            let mut s = String::new();
            apply_op(&mut t, &c.keys, op, &mut s);
            observe_state(&t, &mut s);
            s
        }));
        match r {
            Ok(s) => out.push_str(&s),
            Err(_) => {
                out.push_str("PANIC");
                return out;
            }
        }
    }
    if c.budgets {
        out.push('#');
        let r = catch_unwind(AssertUnwindSafe(|| {
            let mut s = String::new();
            let mut full = Bud { s: String::new(), left: usize::MAX };
            t.in_order_traversal(&mut full);
            let total = full.s.len();
            for b in 1..=total {
                let mut v = Bud { s: String::new(), left: b };
                t.in_order_traversal(&mut v);
                s.push_str("B:");
                s.push_str(&v.s);
                s.push(' ');
            }
            s
        }));
        match r {
            Ok(s) => out.push_str(&s),
            Err(_) => out.push_str("PANIC"),
        }
    }
    out
}

pub fn with_width<R>(w: usize, f: impl FnOnce(usize) -> R) -> R {
    f(w)
}
#[macro_export]
macro_rules! dispatch_width {
    ($w:expr, $f:ident, $($arg:expr),*) => {
        match $w {
            1 => $f::<1>($($arg),*),
            2 => $f::<2>($($arg),*),
            3 => $f::<3>($($arg),*),
            4 => $f::<4>($($arg),*),
            8 => $f::<8>($($arg),*),
            16 => $f::<16>($($arg),*),
            32 => $f::<32>($($arg),*),
            w => panic!("unsupported digest width {w}"),
        }
    };
}

// ---------------------------------------------------------------------------------------------
// per-projection comparison of two observation lines

pub const TREE_PROJ: [&str; 7] = ["struct", "cache", "hash", "ranges", "content", "trav", "panic"];

fn mask_dump(d: &str) -> (String, Vec<&str>) {
    let mut masked = String::with_capacity(d.len());
    let mut caches = vec![];
    for tok in d.split(' ') {
        if tok.starts_with('I') {
            let mut it = tok.splitn(3, ':');
            let a = it.next().unwrap_or("");
            let b = it.next().unwrap_or("");
            let c = it.next().unwrap_or("");
            masked.push_str(a);
            masked.push(':');
            masked.push_str(b);
            masked.push(' ');
            caches.push(c);
        } else {
            masked.push_str(tok);
            masked.push(' ');
        }
    }
    (masked, caches)
}
fn cmp_opt_hex(a: &str, b: &str, out: &mut BTreeSet<&'static str>) {
    if a == b {
        return;
    }
    if (a == "-") != (b == "-") {
        out.insert("cache");
    } else {
        out.insert("hash");
    }
}
fn cmp_ranges(a: &str, b: &str, out: &mut BTreeSet<&'static str>) {
    if a == b {
        return;
    }
    if (a == "-") != (b == "-") {
        out.insert("cache");
        return;
    }
    let ea: Vec<&str> = a.split(',').collect();
    let eb: Vec<&str> = b.split(',').collect();
    if ea.len() != eb.len() {
        out.insert("ranges");
        return;
    }
    for (x, y) in ea.iter().zip(eb.iter()) {
        if x != y {
            let (xb, xh) = x.rsplit_once('-').unwrap_or((x, ""));
            let (yb, yh) = y.rsplit_once('-').unwrap_or((y, ""));
            if xb != yb {
                out.insert("ranges");
            }
            if xh != yh {
                out.insert("hash");
                out.insert("ranges");
            }
        }
    }
}
/// which projections differ between two observation lines of a tree case
pub fn compare_tree_lines(a: &str, b: &str) -> BTreeSet<&'static str> {
    let mut out = BTreeSet::new();
    if a == b {
        return out;
    }
    let all = |out: &mut BTreeSet<&'static str>| {
        for p in TREE_PROJ {
            out.insert(p);
        }
    };
    let (a_ops, a_b) = a.split_once('#').unwrap_or((a, ""));
    let (b_ops, b_b) = b.split_once('#').unwrap_or((b, ""));
    if a_b != b_b {
        out.insert("trav");
        if a_b == "PANIC" || b_b == "PANIC" {
            out.insert("panic");
        }
    }
    let ao: Vec<&str> = a_ops.split(';').collect();
    let bo: Vec<&str> = b_ops.split(';').collect();
    if ao.len() != bo.len() {
        // one side stopped at a panic: blame the panic, and compare the common prefix as usual
        let (short, _long) = if ao.len() < bo.len() { (&ao, &bo) } else { (&bo, &ao) };
        if short.last() == Some(&"PANIC") {
            out.insert("panic");
        } else {
            all(&mut out);
            return out;
        }
    }
    for (x, y) in ao.iter().zip(bo.iter()) {
        if x == y {
            continue;
        }
        if *x == "PANIC" || *y == "PANIC" {
            out.insert("panic");
            continue;
        }
        let fx: Vec<&str> = x.split('|').collect();
        let fy: Vec<&str> = y.split('|').collect();
        if fx.len() != fy.len() {
            all(&mut out);
            continue;
        }
        for (p, q) in fx.iter().zip(fy.iter()) {
            if p == q {
                continue;
            }
            let (tp, vp) = p.split_once('=').unwrap_or((p, ""));
            let (tq, vq) = q.split_once('=').unwrap_or((q, ""));
            if tp != tq {
                all(&mut out);
                continue;
            }
            match tp {
                "H" => {
                    out.insert("hash");
                }
                "rc" => cmp_opt_hex(vp, vq, &mut out),
                "R" => cmp_ranges(vp, vq, &mut out),
                "N" => {
                    out.insert("content");
                }
                "D" => {
                    let (mp, cp) = mask_dump(vp);
                    let (mq, cq) = mask_dump(vq);
                    if mp != mq {
                        out.insert("struct");
                        out.insert("trav");
                    }
                    if cp.len() == cq.len() {
                        for (c1, c2) in cp.iter().zip(cq.iter()) {
                            cmp_opt_hex(c1, c2, &mut out);
                        }
                    }
                }
                _ => all(&mut out),
            }
        }
    }
    if out.is_empty() {
        all(&mut out);
    }
    out
}

/// shape statistics of a dump (for the evidence's input distribution)
pub fn dump_stats(d: &str) -> (usize, usize, usize, usize) {
    // (pages, max depth, high pages, nodes)
    let (mut pages, mut depth, mut maxd, mut highs, mut nodes) = (0, 0usize, 0, 0, 0);
    // depth: In increments, but a high page is entered after its parent's Out; track with a stack of "open" pages
    let mut stack: Vec<bool> = vec![]; // true = entered via high link
    for tok in d.split(' ') {
        if tok.starts_with('I') {
            pages += 1;
            let hp = tok.split(':').nth(1) == Some("h");
            if hp {
                highs += 1;
            }
            stack.push(hp);
            depth += 1;
            maxd = maxd.max(depth);
        } else if tok == "O" {
            // page body closed; high page (if any) follows as a sibling-at-depth+0 continuation: we count it one deeper
            // close when the next token is not a high In: handled lazily below
            stack.pop();
            depth = depth.saturating_sub(1);
        } else if tok.contains('=') {
            nodes += 1;
        }
    }
    (pages, maxd, highs, nodes)
}
