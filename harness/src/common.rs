//! Shared types: keys with prescribed digests, the prescribing hasher, hex helpers, PRNG, case parsing.
use merkle_search_tree::digest::{Digest, Hasher};
use std::cmp::Ordering;

/// A key: ordered by its rank `idx`; `bytes` are what the tree hashes (AsRef<[u8]>), `dig` is the
/// key digest the case file prescribes (so the crate's own `level()` decides the level).
#[derive(Clone, Debug)]
pub struct K {
    pub idx: u32,
    pub bytes: Vec<u8>,
    pub dig: Vec<u8>,
}
impl PartialEq for K {
    fn eq(&self, o: &Self) -> bool {
        self.idx == o.idx
    }
}
impl Eq for K {}
impl PartialOrd for K {
    fn partial_cmp(&self, o: &Self) -> Option<Ordering> {
        Some(self.idx.cmp(&o.idx))
    }
}
impl Ord for K {
    fn cmp(&self, o: &Self) -> Ordering {
        self.idx.cmp(&o.idx)
    }
}
impl AsRef<[u8]> for K {
    fn as_ref(&self) -> &[u8] {
        &self.bytes
    }
}
/// A value whose digest is prescribed.
#[derive(Clone, Debug, PartialEq, Eq)]
pub struct Val(pub Vec<u8>);

#[derive(Clone, Debug, Default)]
pub struct CH;
impl<const N: usize> Hasher<N, K> for CH {
    fn hash(&self, k: &K) -> Digest<N> {
        let mut d = [0u8; N];
        d.copy_from_slice(&k.dig[..N]);
        Digest::new(d)
    }
}
impl<const N: usize> Hasher<N, Val> for CH {
    fn hash(&self, v: &Val) -> Digest<N> {
        let mut d = [0u8; N];
        d.copy_from_slice(&v.0[..N]);
        Digest::new(d)
    }
}

pub fn hex(b: &[u8]) -> String {
    let mut s = String::with_capacity(b.len() * 2);
    for x in b {
        s.push(char::from_digit((x >> 4) as u32, 16).unwrap());
        s.push(char::from_digit((x & 15) as u32, 16).unwrap());
    }
    s
}
/// hex with trailing zero bytes stripped (canonical for a fixed width)
pub fn hexz(b: &[u8]) -> String {
    let mut n = b.len();
    while n > 0 && b[n - 1] == 0 {
        n -= 1;
    }
    hex(&b[..n])
}
pub fn unhex(s: &str) -> Vec<u8> {
    if s == "-" {
        return vec![];
    }
    let b = s.as_bytes();
    assert!(b.len() % 2 == 0, "odd hex {s}");
    (0..b.len() / 2)
        .map(|i| {
            let h = (b[2 * i] as char).to_digit(16).expect("hex");
            let l = (b[2 * i + 1] as char).to_digit(16).expect("hex");
            (h * 16 + l) as u8
        })
        .collect()
}
pub fn unhex_pad(s: &str, w: usize) -> Vec<u8> {
    let mut v = unhex(s);
    assert!(v.len() <= w, "hex longer than width");
    v.resize(w, 0);
    v
}
pub fn hex_or_dash(b: &[u8]) -> String {
    if b.is_empty() {
        "-".into()
    } else {
        hex(b)
    }
}

/// xorshift64* PRNG: every random choice derives from one state seeded by VERIF_SEED.
pub struct Rng(pub u64);
impl Rng {
    pub fn new(seed: u64) -> Self {
        let mut r = Rng(seed ^ 0x9E3779B97F4A7C15);
        if r.0 == 0 {
            r.0 = 1;
        }
        for _ in 0..4 {
            r.next();
        }
        r
    }
    pub fn next(&mut self) -> u64 {
        let mut x = self.0;
        x ^= x >> 12;
        x ^= x << 25;
        x ^= x >> 27;
        self.0 = x;
        x.wrapping_mul(0x2545F4914F6CDD1D)
    }
    pub fn below(&mut self, n: u64) -> u64 {
        if n == 0 {
            0
        } else {
            self.next() % n
        }
    }
    pub fn chance(&mut self, num: u64, den: u64) -> bool {
        self.below(den) < num
    }
    pub fn pick<'a, T>(&mut self, v: &'a [T]) -> &'a T {
        &v[self.below(v.len() as u64) as usize]
    }
}

#[derive(Clone, Debug)]
pub enum Op {
    Upsert(usize, Vec<u8>),
    Hash,
}

pub fn parse_keys(s: &str, w: usize) -> Vec<K> {
    if s == "-" {
        return vec![];
    }
    s.split(',')
        .enumerate()
        .map(|(i, t)| {
            let (b, d) = t.split_once(':').expect("key bytes:digest");
            K { idx: i as u32, bytes: unhex(b), dig: unhex_pad(d, w) }
        })
        .collect()
}
pub fn parse_ops(s: &str, w: usize) -> Vec<Op> {
    if s == "-" {
        return vec![];
    }
    s.split(',')
        .map(|t| {
            if t == "h" {
                Op::Hash
            } else {
                let t = t.strip_prefix('u').expect("op");
                let (k, v) = t.split_once(':').expect("u<k>:<v>");
                Op::Upsert(k.parse().unwrap(), unhex_pad(v, w))
            }
        })
        .collect()
}

/// digest bytes of width w whose `level` under `base` is `lvl` (for base 2..=127: 2*base is a
/// non-zero multiple that fits a byte only if base <= 127; we use `base` itself as the odd marker).
pub fn digest_for_level(lvl: u32, base: u32, w: usize) -> Vec<u8> {
    let mut d = vec![0u8; w];
    let z = (lvl / 2) as usize;
    assert!(z <= w);
    if z < w {
        if lvl % 2 == 1 {
            assert!(base >= 2, "odd levels need a base with a non-zero multiple");
            d[z] = base as u8;
        } else {
            // a byte that is neither 0 nor a multiple of base
            assert!(base >= 2, "even levels below the digest width need base >= 2");
            let mut b = 1u32;
            while b % base == 0 {
                b += 1;
            }
            d[z] = b as u8;
        }
        for x in d.iter_mut().skip(z + 1) {
            *x = 0xa5;
        }
    } else {
        assert!(lvl % 2 == 0);
    }
    d
}
/// harness-side re-implementation of the documented level rule (oracle; independent of the crate)
pub fn ref_level(d: &[u8], base: u32) -> u32 {
    let mut out = 0;
    for &b in d {
        if b == 0 {
            out += 2;
        } else if (b as u32) % base == 0 {
            return out + 1;
        } else {
            return out;
        }
    }
    out
}
