//! diff() on arbitrary page-range lists (D cases), on pairs of real trees (P cases), and
//! multi-replica sync schedules (Y cases).
use crate::common::*;
use crate::treeobs::*;
use merkle_search_tree::diff::{diff, DiffRange, OwnedPageRange, PageRange, PageRangeSnapshot};
use merkle_search_tree::digest::{Digest, PageDigest};
use std::collections::BTreeMap;
use std::fmt::Write as FW;
use std::panic::{catch_unwind, AssertUnwindSafe};

#[derive(Clone, Debug, PartialEq, Eq)]
pub struct LR {
    pub s: u32,
    pub e: u32,
    pub h: [u8; 16],
}
pub fn parse_list(s: &str) -> Vec<LR> {
    if s == "-" {
        return vec![];
    }
    s.split(',')
        .filter(|t| !t.is_empty())
        .map(|t| {
            let mut it = t.split('-');
            let a = it.next().unwrap().parse().unwrap();
            let b = it.next().unwrap().parse().unwrap();
            let h = unhex_pad(it.next().unwrap(), 16);
            let mut hh = [0u8; 16];
            hh.copy_from_slice(&h);
            LR { s: a, e: b, h: hh }
        })
        .collect()
}
pub fn list_str(l: &[LR]) -> String {
    if l.is_empty() {
        return "-".into();
    }
    l.iter().map(|r| format!("{}-{}-{}", r.s, r.e, hexz(&r.h))).collect::<Vec<_>>().join(",")
}
pub fn mk_key(i: u32) -> K {
    K { idx: i, bytes: vec![], dig: vec![] }
}
pub fn diff_str(d: &[DiffRange<'_, K>]) -> String {
    if d.is_empty() {
        return "-".into();
    }
    let mut s = String::new();
    for r in d {
        write!(s, "{}-{},", r.start().idx, r.end().idx).unwrap();
    }
    s
}
pub fn pd(h: &[u8; 16]) -> PageDigest {
    PageDigest::from(Digest::new(*h))
}

/// run diff on two literal lists; None = panicked
pub fn run_list_diff(local: &[LR], peer: &[LR]) -> Option<Vec<(u32, u32)>> {
    let maxk = local.iter().chain(peer.iter()).map(|r| r.s.max(r.e)).max().unwrap_or(0);
    let arena: Vec<K> = (0..=maxk).map(mk_key).collect();
    catch_unwind(AssertUnwindSafe(|| {
        let l: Vec<PageRange<'_, K>> =
            local.iter().map(|r| PageRange::new(&arena[r.s as usize], &arena[r.e as usize], pd(&r.h))).collect();
        let p: Vec<PageRange<'_, K>> =
            peer.iter().map(|r| PageRange::new(&arena[r.s as usize], &arena[r.e as usize], pd(&r.h))).collect();
        diff(l, p).iter().map(|r| (r.start().idx, r.end().idx)).collect::<Vec<_>>()
    }))
    .ok()
}
pub fn pairs_str(d: &Option<Vec<(u32, u32)>>) -> String {
    match d {
        None => "PANIC".into(),
        Some(v) if v.is_empty() => "-".into(),
        Some(v) => {
            let mut s = String::new();
            for (a, b) in v {
                write!(s, "{}-{},", a, b).unwrap();
            }
            s
        }
    }
}
/// `D <local> <peer>`
pub fn observe_list(toks: &[&str]) -> String {
    let l = parse_list(toks[1]);
    let p = parse_list(toks[2]);
    pairs_str(&run_list_diff(&l, &p))
}

// ------------------------------------------------------------------------------------------
#[derive(Clone, Debug)]
pub struct PairCase {
    pub base: u8,
    pub w: usize,
    pub keys: Vec<K>,
    pub ops_a: Vec<Op>,
    pub ops_b: Vec<Op>,
}
/// `P <base> <w> <keys> <opsA> <opsB>`
pub fn parse_pair_case(toks: &[&str]) -> PairCase {
    let w: usize = toks[2].parse().unwrap();
    PairCase {
        base: toks[1].parse().unwrap(),
        w,
        keys: parse_keys(toks[3], w),
        ops_a: parse_ops(toks[4], w),
        ops_b: parse_ops(toks[5], w),
    }
}
pub fn build_tree<const N: usize>(base: u8, keys: &[K], ops: &[Op]) -> Tree<N> {
    let mut t = new_tree::<N>(base);
    let mut s = String::new();
    for op in ops {
        apply_op(&mut t, keys, op, &mut s);
    }
    t
}
pub fn tree_ranges_owned<const N: usize>(t: &Tree<N>) -> Vec<LR> {
    t.serialise_page_ranges()
        .expect("hashed")
        .iter()
        .map(|r| LR { s: r.start().idx, e: r.end().idx, h: *r.hash().as_bytes() })
        .collect()
}
pub fn observe_pair<const N: usize>(c: &PairCase) -> String {
    let r = catch_unwind(AssertUnwindSafe(|| {
        let mut a = build_tree::<N>(c.base, &c.keys, &c.ops_a);
        let mut b = build_tree::<N>(c.base, &c.keys, &c.ops_b);
        let _ = a.root_hash();
        let _ = b.root_hash();
        let ra = a.serialise_page_ranges().unwrap();
        let rb = b.serialise_page_ranges().unwrap();
        let ab = diff(ra.clone(), rb.clone());
        let ba = diff(rb.clone(), ra.clone());
        format!("RA={}|RB={}|AB={}|BA={}", ranges_str(&a), ranges_str(&b), diff_str(&ab), diff_str(&ba))
    }));
    r.unwrap_or_else(|_| "PANIC".into())
}

// ------------------------------------------------------------------------------------------
// sync schedules
#[derive(Clone, Debug)]
pub enum Ev {
    Write(usize, usize, u64),
    Hash(usize),
    Pull(usize, usize),
}
#[derive(Clone, Debug)]
pub struct SyncCase {
    pub base: u8,
    pub merge_max: bool,
    pub nrep: usize,
    pub keys: Vec<K>,
    pub evs: Vec<Ev>,
    /// `Yf`: large case - observe only after the last event
    pub final_only: bool,
}
/// `Y <base> <max|pw> <nrep> <keys> <events>`; digest width fixed at 16; value digest = LE64(v) ++ 0^8
pub fn parse_sync_case(toks: &[&str]) -> SyncCase {
    let evs = if toks[5] == "-" {
        vec![]
    } else {
        toks[5]
            .split(',')
            .map(|t| {
                let (c, rest) = t.split_at(1);
                let f: Vec<u64> = rest.split(':').map(|x| x.parse().unwrap()).collect();
                match c {
                    "w" => Ev::Write(f[0] as usize, f[1] as usize, f[2]),
                    "h" => Ev::Hash(f[0] as usize),
                    "p" => Ev::Pull(f[0] as usize, f[1] as usize),
                    _ => panic!("bad event {t}"),
                }
            })
            .collect()
    };
    SyncCase {
        base: toks[1].parse().unwrap(),
        merge_max: toks[2] == "max",
        nrep: toks[3].parse().unwrap(),
        keys: parse_keys(toks[4], 16),
        evs,
        final_only: toks[0] == "Yf",
    }
}
pub fn vh(v: u64) -> Val {
    let mut d = vec![0u8; 16];
    d[..8].copy_from_slice(&v.to_le_bytes());
    Val(d)
}
pub struct Replica {
    pub store: BTreeMap<usize, u64>,
    pub tree: Tree<16>,
}
impl Replica {
    pub fn write(&mut self, keys: &[K], k: usize, x: u64, merge_max: bool) {
        let x2 = match self.store.get(&k) {
            Some(o) => {
                if merge_max {
                    (*o).max(x)
                } else {
                    x
                }
            }
            None => x,
        };
        self.tree.upsert(keys[k].clone(), &vh(x2));
        self.store.insert(k, x2);
    }
}
/// dst pulls from src exactly as the property describes: src hashes, serialises, snapshots; dst hashes
/// its own tree in place, diffs, fetches every (k,v) of src inside a returned range, merges, upserts.
pub fn pull(reps: &mut [Replica], keys: &[K], dst: usize, src: usize, merge_max: bool) -> usize {
    let snap: PageRangeSnapshot<K> = {
        let s = &mut reps[src];
        let _ = s.tree.root_hash();
        PageRangeSnapshot::from(s.tree.serialise_page_ranges().unwrap())
    };
    let ranges: Vec<(u32, u32)> = {
        let d = &mut reps[dst];
        let _ = d.tree.root_hash();
        let local = d.tree.serialise_page_ranges().unwrap();
        diff(local, snap.iter()).iter().map(|r| (r.start().idx, r.end().idx)).collect()
    };
    let fetched: Vec<(usize, u64)> = reps[src]
        .store
        .iter()
        .filter(|(k, _)| ranges.iter().any(|(a, b)| *a as usize <= **k && **k <= *b as usize))
        .map(|(k, v)| (*k, *v))
        .collect();
    let n = fetched.len();
    for (k, v) in fetched {
        reps[dst].write(keys, k, v, merge_max);
    }
    n
}
pub fn store_str(s: &BTreeMap<usize, u64>) -> String {
    s.iter().map(|(k, v)| format!("{}={}", k, v)).collect::<Vec<_>>().join(",")
}
pub fn observe_sync(c: &SyncCase) -> String {
    let r = catch_unwind(AssertUnwindSafe(|| {
        let mut out = String::new();
        let mut reps: Vec<Replica> =
            (0..c.nrep).map(|_| Replica { store: BTreeMap::new(), tree: new_tree::<16>(c.base) }).collect();
        for (i, e) in c.evs.iter().enumerate() {
            if i > 0 && !c.final_only {
                out.push(';');
            }
            match e {
                Ev::Write(r, k, x) => {
                    if *r < c.nrep {
                        reps[*r].write(&c.keys, *k, *x, c.merge_max)
                    }
                }
                Ev::Hash(r) => {
                    if *r < c.nrep {
                        let _ = reps[*r].tree.root_hash();
                    }
                }
                Ev::Pull(d, s) => {
                    if d != s && *d < c.nrep && *s < c.nrep {
                        pull(&mut reps, &c.keys, *d, *s, c.merge_max);
                    }
                }
            }
            if c.final_only && i + 1 != c.evs.len() {
                continue;
            }
            for (j, rp) in reps.iter().enumerate() {
                if j > 0 {
                    out.push('/');
                }
                write!(out, "S={}|D=", store_str(&rp.store)).unwrap();
                dump_tree(&rp.tree, &mut out);
                match rp.tree.root_hash_cached() {
                    None => out.push_str("|rc=-"),
                    Some(h) => write!(out, "|rc={}", hex(h.as_bytes())).unwrap(),
                }
            }
        }
        out.push('#');
        for rp in reps.iter_mut() {
            let h = rp.tree.root_hash().clone();
            write!(out, "{} ", hex(h.as_bytes())).unwrap();
        }
        out
    }));
    r.unwrap_or_else(|_| "PANIC".into())
}

/// C16 routes: the four representations of a page-range list must give the same diff in both positions
pub fn routes_agree<const N: usize>(a: &Tree<N>, b: &Tree<N>) -> Result<(), String> {
    let ra = a.serialise_page_ranges().unwrap();
    let rb = b.serialise_page_ranges().unwrap();
    let base = diff_str(&diff(ra.clone(), rb.clone()));
    // rebuilt through the public accessors
    let ra2: Vec<PageRange<'_, K>> = ra.iter().map(|r| PageRange::new(r.start(), r.end(), r.hash().clone())).collect();
    let rb2: Vec<PageRange<'_, K>> = rb.iter().map(|r| PageRange::new(r.start(), r.end(), r.hash().clone())).collect();
    if ra2 != ra || rb2 != rb {
        return Err("rebuilt PageRange != original".into());
    }
    let sa = PageRangeSnapshot::from(ra.clone());
    let sb = PageRangeSnapshot::from(rb.clone());
    let oa: PageRangeSnapshot<K> =
        PageRangeSnapshot::from(ra.iter().cloned().map(OwnedPageRange::from).collect::<Vec<_>>());
    let ob: PageRangeSnapshot<K> = rb
        .iter()
        .map(|r| OwnedPageRange::new(r.start().clone(), r.end().clone(), r.hash().clone()))
        .collect();
    if sa != oa || sb != ob {
        return Err("snapshot from PageRange != snapshot from OwnedPageRange".into());
    }
    if sa.iter().collect::<Vec<_>>() != ra {
        return Err("snapshot.iter() != original ranges".into());
    }
    let variants: Vec<(&str, String)> = vec![
        ("rebuilt/rebuilt", diff_str(&diff(ra2.clone(), rb2.clone()))),
        ("snap/borrowed", diff_str(&diff(sa.iter(), rb.clone()))),
        ("borrowed/snap", diff_str(&diff(ra.clone(), sb.iter()))),
        ("snap/snap", diff_str(&diff(sa.iter(), sb.iter()))),
        ("owned/owned", diff_str(&diff(oa.iter(), ob.iter()))),
        ("owned/rebuilt", diff_str(&diff(oa.iter(), rb2.clone()))),
    ];
    for (n, v) in variants {
        if v != base {
            return Err(format!("route {n}: {v} != borrowed {base}"));
        }
    }
    Ok(())
}
