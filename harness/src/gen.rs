//! Case generators. Every generator is deterministic in (params, seed); `shard i/n` keeps every n-th case.
use crate::common::*;
use std::fmt::Write as FW;
use std::io::Write;

pub struct Sink<'a> {
    pub out: &'a mut dyn Write,
    pub idx: u64,
    pub shard: u64,
    pub nshards: u64,
    pub emitted: u64,
}
impl<'a> Sink<'a> {
    pub fn emit(&mut self, line: &str) {
        if self.idx % self.nshards == self.shard {
            self.out.write_all(line.as_bytes()).unwrap();
            self.out.write_all(b"\n").unwrap();
            self.emitted += 1;
        }
        self.idx += 1;
    }
    /// cheap test so generators can skip building lines for other shards
    pub fn mine(&self) -> bool {
        self.idx % self.nshards == self.shard
    }
    pub fn skip(&mut self) {
        self.idx += 1;
    }
}

fn keys_str(levels: &[u32], base: u32, w: usize) -> String {
    levels
        .iter()
        .enumerate()
        .map(|(i, l)| format!("{}:{}", hex(&[(i / 256) as u8, (i % 256) as u8]), hex(&digest_for_level(*l, base, w))))
        .collect::<Vec<_>>()
        .join(",")
}
const VALS: [&str; 3] = ["01", "02", "03"];

/// all level assignments (nl^n) x all op sequences of length `len` over {upsert(k,v1), upsert(k,v2), hash}
pub fn tree_exh(s: &mut Sink, n: usize, nl: usize, len: usize, budgets: bool) {
    let nops = 2 * n + 1;
    for li in 0..nl.pow(n as u32) {
        let mut lv = vec![0u32; n];
        let mut x = li;
        for l in lv.iter_mut() {
            *l = (x % nl) as u32;
            x /= nl;
        }
        let ks = keys_str(&lv, 16, 16);
        for hi in 0..nops.pow(len as u32) {
            if !s.mine() {
                s.skip();
                continue;
            }
            let mut x = hi;
            let mut ops = String::new();
            for i in 0..len {
                let op = x % nops;
                x /= nops;
                if i > 0 {
                    ops.push(',');
                }
                if op == 2 * n {
                    ops.push('h');
                } else {
                    write!(ops, "u{}:{}", op % n, VALS[op / n]).unwrap();
                }
            }
            s.emit(&format!("{} 16 16 {} {}", if budgets { "Tb" } else { "T" }, ks, ops));
        }
    }
}

/// all level assignments (nl^n) x all insertion orders (n!) of n distinct keys, each inserted once; with
/// `hash` a single hash request is additionally inserted at every position (n+1 variants + the plain one)
pub fn tree_perm(s: &mut Sink, n: usize, nl: usize, hash: bool, final_hash_update: bool) {
    // permutations of 0..n in lexicographic order
    fn perms(n: usize) -> Vec<Vec<usize>> {
        let mut out = vec![];
        let mut p: Vec<usize> = (0..n).collect();
        loop {
            out.push(p.clone());
            // next permutation
            let mut i = n.wrapping_sub(1);
            while i > 0 && p[i - 1] >= p[i] {
                i -= 1;
            }
            if i == 0 || n == 0 {
                break;
            }
            let mut j = n - 1;
            while p[j] <= p[i - 1] {
                j -= 1;
            }
            p.swap(i - 1, j);
            p[i..].reverse();
        }
        out
    }
    let ps = perms(n);
    for li in 0..nl.pow(n as u32) {
        let mut lv = vec![0u32; n];
        let mut x = li;
        for l in lv.iter_mut() {
            *l = (x % nl) as u32;
            x /= nl;
        }
        let ks = keys_str(&lv, 16, 16);
        for p in &ps {
            let variants = if hash { n + 2 } else { 1 };
            for hv in 0..variants {
                if !s.mine() {
                    s.skip();
                    continue;
                }
                let mut ops: Vec<String> = vec![];
                for (i, k) in p.iter().enumerate() {
                    if hash && hv == i + 1 {
                        ops.push("h".into());
                    }
                    ops.push(format!("u{}:01", k));
                }
                if hash && hv == n + 1 {
                    ops.push("h".into());
                }
                if final_hash_update && n > 0 {
                    // re-upsert the first inserted key with a new value after a hash (update path + invalidation)
                    ops.push("h".into());
                    ops.push(format!("u{}:02", p[0]));
                }
                s.emit(&format!("T 16 16 {} {}", ks, ops.join(",")));
            }
        }
    }
}

/// staircases: keys whose levels form long monotone chains (up to 2*width levels nested through lt pointers
/// or high pages), inserted in ascending / descending / shuffled order, plus a few extra keys
pub fn tree_stair(s: &mut Sink, count: u64, seed: u64) {
    let mut r = Rng::new(seed ^ 0x3a3a);
    for i in 0..count {
        let mut cr = Rng::new(r.next());
        if !s.mine() {
            s.skip();
            continue;
        }
        let w = *cr.pick(&[8usize, 16, 16, 32]);
        let maxl = (2 * w as u32).min(40);
        let nl = 2 + cr.below(maxl as u64 - 1) as u32; // number of stair steps
        let up = cr.chance(1, 2); // levels rise with the key (lt chain) or fall (high-page chain)
        let extra = cr.below(4) as usize;
        let n = nl as usize + extra;
        let mut levels: Vec<u32> = (0..nl).map(|j| if up { j } else { nl - 1 - j }).collect();
        for _ in 0..extra {
            let pos = cr.below(levels.len() as u64 + 1) as usize;
            levels.insert(pos, cr.below(nl as u64) as u32);
        }
        let keys: Vec<String> = levels
            .iter()
            .enumerate()
            .map(|(j, l)| format!("{}:{}", hex(&[(j / 256) as u8, (j % 256) as u8]), hex(&digest_for_level(*l, 16, w))))
            .collect();
        let mut order: Vec<usize> = (0..n).collect();
        match i % 3 {
            0 => {}
            1 => order.reverse(),
            _ => {
                for a in (1..n).rev() {
                    let b = cr.below(a as u64 + 1) as usize;
                    order.swap(a, b);
                }
            }
        }
        let mut ops: Vec<String> = vec![];
        for (j, k) in order.iter().enumerate() {
            ops.push(format!("u{}:01", k));
            if cr.chance(1, 6) || j + 1 == n {
                ops.push("h".into());
            }
        }
        ops.push(format!("u{}:02", order[0]));
        s.emit(&format!("T 16 {} {} {}", w, keys.join(","), ops.join(",")));
    }
}
/// wide flat pages: hundreds of keys on one level (pages of several hundred nodes), with re-upserts and
/// overwrites of keys that are already present
pub fn tree_flat(s: &mut Sink, count: u64, seed: u64) {
    let mut r = Rng::new(seed ^ 0x4b4b);
    for _ in 0..count {
        let mut cr = Rng::new(r.next());
        if !s.mine() {
            s.skip();
            continue;
        }
        let n = 200 + cr.below(500) as usize;
        let top = cr.below(3) as u32; // a handful of higher-level keys
        let levels: Vec<u32> = (0..n).map(|_| if cr.chance(1, 150) { 1 + cr.below(top as u64 + 1) as u32 } else { 0 }).collect();
        let keys: Vec<String> = levels
            .iter()
            .enumerate()
            .map(|(j, l)| format!("{}:{}", hex(&[(j / 256) as u8, (j % 256) as u8]), hex(&digest_for_level(*l, 16, 16))))
            .collect();
        let mut order: Vec<usize> = (0..n).collect();
        for a in (1..n).rev() {
            let b = cr.below(a as u64 + 1) as usize;
            order.swap(a, b);
        }
        let mut ops: Vec<String> = order.iter().map(|k| format!("u{}:01", k)).collect();
        ops.push("h".into());
        for _ in 0..(3 + cr.below(12)) {
            let k = cr.below(n as u64);
            ops.push(format!("u{}:{}", k, VALS[cr.below(3) as usize]));
            if cr.chance(1, 4) {
                ops.push("h".into());
            }
        }
        s.emit(&format!("Tf 16 16 {} {}", keys.join(","), ops.join(",")));
    }
}

/// bursts: a hash request, then exactly b upserts (re-upserts and overwrites of a few keys), then a hash
/// request, for burst sizes around powers of two (8-bit and 16-bit counters wrap there)
pub fn tree_burst(s: &mut Sink, big: bool) {
    let mut sizes: Vec<usize> = vec![1, 2, 3, 127, 128, 129, 254, 255, 256, 257, 258, 511, 512, 513, 767, 768, 1023, 1024, 1025];
    if big {
        sizes.extend([65534, 65535, 65536, 65537, 131072]);
    }
    for (si, b) in sizes.iter().enumerate() {
        for variant in 0..3usize {
            if !s.mine() {
                s.skip();
                continue;
            }
            let n = 3 + variant; // number of keys
            let levels: Vec<u32> = (0..n).map(|i| ((i + si) % 3) as u32).collect();
            let ks = keys_str(&levels, 16, 16);
            let mut ops: Vec<String> = vec![];
            if variant != 1 {
                ops.push("h".into()); // hash of the empty tree first
            }
            ops.push("u0:01".into());
            ops.push("h".into());
            for j in 0..*b {
                ops.push(format!("u{}:{}", (j * 7 + variant) % n, VALS[(j / n) % 3]));
            }
            ops.push("h".into());
            ops.push(format!("u{}:03", n - 1));
            ops.push("h".into());
            let tag = if *b > 2000 { "Tf" } else { "T" };
            s.emit(&format!("{} 16 16 {} {}", tag, ks, ops.join(",")));
        }
    }
}

fn rand_bytes(r: &mut Rng, n: usize) -> Vec<u8> {
    (0..n).map(|_| r.below(256) as u8).collect()
}
/// a random digest whose level distribution is deep: geometric number of zero bytes, then a byte that is
/// a multiple of base with probability 1/2
fn rand_digest(r: &mut Rng, base: u32, w: usize, pz: u64) -> Vec<u8> {
    let mut d = rand_bytes(r, w);
    let mut i = 0;
    while i < w && r.chance(pz, 100) {
        d[i] = 0;
        i += 1;
    }
    if i < w {
        if r.chance(1, 2) && base >= 2 && base < 256 {
            let m = 255 / base;
            if m >= 1 {
                d[i] = (base * (1 + r.below(m as u64) as u32)) as u8;
            }
        } else if d[i] == 0 {
            d[i] = 1;
        }
    }
    d
}
pub struct RandTree {
    pub base: u32,
    pub w: usize,
    pub keys: String,
    pub nkeys: usize,
}
pub fn rand_keys(r: &mut Rng, nkeys: usize) -> RandTree {
    let base = match r.below(6) {
        0 => 16,
        1 => 2,
        2 => *r.pick(&[1u32, 3, 4, 7, 255, 128, 17]),
        _ => 1 + r.below(255) as u32,
    };
    let w = *r.pick(&[1usize, 2, 3, 4, 8, 16, 16, 32]);
    let pz = *r.pick(&[10u64, 30, 50]);
    // distinct key byte strings in ascending lexicographic order (variable length, may include the empty key)
    let mut set = std::collections::BTreeSet::new();
    let fixed = r.chance(1, 3);
    let flen = 1 + r.below(6) as usize;
    let mut guard = 0;
    while set.len() < nkeys && guard < nkeys * 50 {
        guard += 1;
        // mostly short keys; one in eight is long (up to ~130 bytes: longer than any internal staging buffer)
        let l = if r.chance(1, 8) {
            30 + r.below(100) as usize
        } else if fixed {
            flen.max(2)
        } else {
            r.below(5) as usize
        };
        set.insert(rand_bytes(r, l));
    }
    let keys: Vec<String> =
        set.iter().map(|b| format!("{}:{}", hex_or_dash(b), hex(&rand_digest(r, base, w, pz)))).collect();
    RandTree { base, w, nkeys: keys.len(), keys: keys.join(",") }
}
fn rand_val(r: &mut Rng, w: usize, small: bool) -> String {
    if small {
        VALS[r.below(3) as usize].to_string()
    } else {
        hex(&rand_bytes(r, w))
    }
}
pub fn rand_ops(r: &mut Rng, nkeys: usize, nops: usize, w: usize, hash_pct: u64) -> String {
    let small = r.chance(1, 2);
    let mode = r.below(4); // 0 random, 1 ascending, 2 descending, 3 overwrite-heavy
    let mut ops = vec![];
    for i in 0..nops {
        if r.chance(hash_pct, 100) {
            ops.push("h".to_string());
            continue;
        }
        let k = match mode {
            1 => i % nkeys,
            2 => nkeys - 1 - (i % nkeys),
            3 => r.below((nkeys as u64 / 3).max(1)) as usize,
            _ => r.below(nkeys as u64) as usize,
        };
        ops.push(format!("u{}:{}", k, rand_val(r, w, small)));
    }
    if ops.is_empty() {
        "-".into()
    } else {
        ops.join(",")
    }
}
pub fn tree_rand(s: &mut Sink, count: u64, seed: u64, maxkeys: usize) {
    let mut r = Rng::new(seed);
    for i in 0..count {
        let mut cr = Rng::new(r.next());
        if !s.mine() {
            s.skip();
            continue;
        }
        let nk = 1 + cr.below(if i % 10 == 0 { maxkeys as u64 } else { 12.min(maxkeys as u64) }) as usize;
        let t = rand_keys(&mut cr, nk);
        let nops = 1 + cr.below(3 * t.nkeys as u64) as usize;
        let hp = *cr.pick(&[0u64, 10, 30]);
        let ops = rand_ops(&mut cr, t.nkeys, nops, t.w, hp);
        let tag = if t.nkeys <= 8 {
            "Tb"
        } else if t.nkeys <= 40 {
            "T"
        } else {
            "Tf"
        };
        s.emit(&format!("{} {} {} {} {}", tag, t.base, t.w, t.keys, ops));
    }
}

/// all level assignments x all pairs of contents over {absent, v1, v2} per key and replica
pub fn pair_exh(s: &mut Sink, n: usize, nl: usize) {
    let nc = 3usize.pow(n as u32);
    for li in 0..nl.pow(n as u32) {
        let mut lv = vec![0u32; n];
        let mut x = li;
        for l in lv.iter_mut() {
            *l = (x % nl) as u32;
            x /= nl;
        }
        let ks = keys_str(&lv, 16, 16);
        let content = |ci: usize| -> String {
            let mut x = ci;
            let mut ops = vec![];
            for k in 0..n {
                let c = x % 3;
                x /= 3;
                if c > 0 {
                    ops.push(format!("u{}:{}", k, VALS[c - 1]));
                }
            }
            if ops.is_empty() {
                "-".into()
            } else {
                ops.join(",")
            }
        };
        for a in 0..nc {
            for b in 0..nc {
                if !s.mine() {
                    s.skip();
                    continue;
                }
                s.emit(&format!("P 16 16 {} {} {}", ks, content(a), content(b)));
            }
        }
    }
}
/// twins: two adjacent keys whose bytes differ only by trailing zero bytes (X and X ++ 00..), on the same
/// level; replica A holds one twin, replica B the other, with the same value; everything else is shared
pub fn pair_twin(s: &mut Sink, count: u64, seed: u64) {
    let mut r = Rng::new(seed ^ 0x6c6c);
    for _ in 0..count {
        let mut cr = Rng::new(r.next());
        if !s.mine() {
            s.skip();
            continue;
        }
        let n = 2 + cr.below(7) as usize;
        let mut set = std::collections::BTreeSet::new();
        while set.len() < n {
            let l = 1 + cr.below(12) as usize;
            let mut b = rand_bytes(&mut cr, l);
            if *b.last().unwrap() == 0 {
                *b.last_mut().unwrap() = 1;
            }
            set.insert(b);
        }
        let mut keys: Vec<Vec<u8>> = set.into_iter().collect();
        let j = cr.below(keys.len() as u64) as usize;
        let mut twin = keys[j].clone();
        twin.extend(std::iter::repeat(0u8).take(1 + cr.below(7) as usize));
        keys.insert(j + 1, twin);
        let base = *cr.pick(&[16u32, 2, 255]);
        let digs: Vec<Vec<u8>> = {
            let mut d: Vec<Vec<u8>> = keys.iter().map(|_| rand_digest(&mut cr, base, 16, 30)).collect();
            d[j + 1] = d[j].clone();
            d
        };
        let ks: Vec<String> = keys.iter().zip(digs.iter()).map(|(k, d)| format!("{}:{}", hex(k), hex(d))).collect();
        let mut a: Vec<String> = vec![];
        let mut b: Vec<String> = vec![];
        for i in 0..keys.len() {
            if i == j {
                a.push(format!("u{}:07", i));
            } else if i == j + 1 {
                b.push(format!("u{}:07", i));
            } else if cr.chance(3, 4) {
                let v = VALS[cr.below(3) as usize];
                a.push(format!("u{}:{}", i, v));
                b.push(format!("u{}:{}", i, v));
            }
        }
        s.emit(&format!("P {} 16 {} {} {}", base, ks.join(","), a.join(","), b.join(",")));
    }
}

/// combs: wide pages with many small child pages (every m-th key one level up), the two replicas identical
/// except for a few values / missing keys: one inconsistent page with many consistent children
pub fn pair_comb(s: &mut Sink, count: u64, seed: u64) {
    let mut r = Rng::new(seed ^ 0x7e7e);
    for _ in 0..count {
        let mut cr = Rng::new(r.next());
        if !s.mine() {
            s.skip();
            continue;
        }
        let n = 8 + cr.below(90) as usize;
        let m = 2 + cr.below(3) as usize;
        let top = cr.chance(1, 3);
        let levels: Vec<u32> = (0..n)
            .map(|i| if top && i % (m * 7) == 3 { 2 } else if i % m == 1 { 1 } else { 0 })
            .collect();
        let ks = keys_str(&levels, 16, 16);
        let mut a: Vec<String> = (0..n).map(|i| format!("u{}:01", i)).collect();
        let mut b = a.clone();
        for _ in 0..(1 + cr.below(3)) {
            let i = cr.below(n as u64) as usize;
            match cr.below(3) {
                0 => b[i] = format!("u{}:02", i),
                1 => a[i] = format!("u{}:03", i),
                _ => {
                    if cr.chance(1, 2) {
                        a[i] = String::new()
                    } else {
                        b[i] = String::new()
                    }
                }
            }
        }
        let j = |v: Vec<String>| v.into_iter().filter(|x| !x.is_empty()).collect::<Vec<_>>().join(",");
        s.emit(&format!("P 16 16 {} {} {}", ks, j(a), j(b)));
    }
}

pub fn pair_rand(s: &mut Sink, count: u64, seed: u64, maxkeys: usize) {
    let mut r = Rng::new(seed ^ 0x5151);
    for i in 0..count {
        let mut cr = Rng::new(r.next());
        if !s.mine() {
            s.skip();
            continue;
        }
        let nk = 1 + cr.below(if i % 10 == 0 { maxkeys as u64 } else { 10.min(maxkeys as u64) }) as usize;
        // the sync-rounds oracle reads values as LE64 and runs on width-16 cases only: keep half of them at 16
        let t = {
            let mut tt = rand_keys(&mut cr, nk);
            if cr.chance(1, 2) {
                while tt.w != 16 {
                    tt = rand_keys(&mut cr, nk);
                }
            }
            tt
        };
        // shared part + per-side part, spans: nested / partial / disjoint / equal
        let mode = cr.below(5);
        let n = t.nkeys;
        let (alo, ahi, blo, bhi) = match mode {
            0 => (0, n, 0, n),
            1 => (n / 4, n - n / 4, 0, n),
            2 => (0, n - n / 3, n / 3, n),
            3 => (0, n / 2, n / 2, n),
            _ => (0, n, 0, n),
        };
        let side = |cr: &mut Rng, lo: usize, hi: usize, shared: &Vec<(usize, String)>| -> String {
            let mut ops: Vec<String> = vec![];
            for (k, v) in shared {
                if *k >= lo && *k < hi {
                    ops.push(format!("u{}:{}", k, v));
                }
            }
            let extra = cr.below(4);
            for _ in 0..extra {
                if hi > lo {
                    let k = lo + cr.below((hi - lo) as u64) as usize;
                    ops.push(format!("u{}:{}", k, VALS[cr.below(3) as usize]));
                }
            }
            // shuffle + sprinkle hashes
            for i in (1..ops.len()).rev() {
                let j = cr.below(i as u64 + 1) as usize;
                ops.swap(i, j);
            }
            let mut o2 = vec![];
            for o in ops {
                if cr.chance(1, 8) {
                    o2.push("h".to_string());
                }
                o2.push(o);
            }
            if o2.is_empty() {
                "-".into()
            } else {
                o2.join(",")
            }
        };
        let mut shared: Vec<(usize, String)> = vec![];
        for k in 0..n {
            if cr.chance(2, 3) {
                shared.push((k, VALS[cr.below(3) as usize].to_string()));
            }
        }
        let a = side(&mut cr, alo, ahi, &shared);
        let b = side(&mut cr, blo, bhi, &shared);
        s.emit(&format!("P {} {} {} {} {}", t.base, t.w, t.keys, a, b));
    }
}

/// all ordered pairs of lists of length <= maxlen over m keys; digests in {0,1}
pub fn list_exh(s: &mut Sink, m: u32, maxlen: usize) {
    let mut items = vec![];
    for a in 0..m {
        for b in a..m {
            for h in 0..2 {
                items.push(format!("{}-{}-{:02x}", a, b, h + 1));
            }
        }
    }
    let mut lists: Vec<String> = vec!["-".into()];
    let mut frontier: Vec<String> = vec![String::new()];
    for _ in 0..maxlen {
        let mut nf = vec![];
        for l in &frontier {
            for it in &items {
                nf.push(if l.is_empty() { it.clone() } else { format!("{},{}", l, it) });
            }
        }
        lists.extend(nf.iter().cloned());
        frontier = nf;
    }
    for a in &lists {
        for b in &lists {
            if !s.mine() {
                s.skip();
                continue;
            }
            s.emit(&format!("D {} {}", a, b));
        }
    }
}
/// digests that differ from a base digest in exactly one byte position (catches truncated comparisons)
fn near_digest(r: &mut Rng, pool: &mut Vec<Vec<u8>>) -> Vec<u8> {
    if pool.is_empty() || r.chance(1, 3) {
        let d = rand_bytes(r, 16);
        pool.push(d.clone());
        return d;
    }
    let mut d = r.pick(pool).clone();
    if r.chance(1, 2) {
        let i = r.below(16) as usize;
        d[i] ^= 1 << r.below(8);
        pool.push(d.clone());
    }
    d
}
fn rand_list(r: &mut Rng, m: u32, len: usize, pool: &mut Vec<Vec<u8>>, nested: bool) -> String {
    if len == 0 {
        return "-".into();
    }
    let mut out = vec![];
    if nested {
        // a plausible pre-order: recursive subdivision
        fn sub(r: &mut Rng, lo: u32, hi: u32, depth: u32, pool: &mut Vec<Vec<u8>>, out: &mut Vec<String>, budget: &mut usize) {
            if *budget == 0 || lo > hi {
                return;
            }
            *budget -= 1;
            out.push(format!("{}-{}-{}", lo, hi, hex(&near_digest(r, pool))));
            if depth == 0 || hi - lo < 1 {
                return;
            }
            let mut a = lo;
            while a < hi && *budget > 0 {
                let span = 1 + r.below((hi - a) as u64 / 2 + 1) as u32;
                let b = (a + span - 1).min(hi - if a == lo { 1 } else { 0 });
                if b < a {
                    break;
                }
                if r.chance(2, 3) {
                    sub(r, a, b, depth - 1, pool, out, budget);
                }
                a = b + 1 + r.below(2) as u32;
            }
        }
        let mut budget = len;
        let lo = r.below(m as u64 / 3 + 1) as u32;
        let hi = m - 1 - r.below(m as u64 / 3 + 1) as u32;
        sub(r, lo, hi.max(lo), 6, pool, &mut out, &mut budget);
    } else {
        for _ in 0..len {
            let a = r.below(m as u64) as u32;
            let b = a + r.below((m - a) as u64) as u32;
            out.push(format!("{}-{}-{}", a, b, hex(&near_digest(r, pool))));
        }
    }
    if out.is_empty() {
        "-".into()
    } else {
        out.join(",")
    }
}
fn mutate_list(r: &mut Rng, l: &str, pool: &mut Vec<Vec<u8>>) -> String {
    if l == "-" {
        return l.into();
    }
    let mut v: Vec<String> = l.split(',').map(|s| s.to_string()).collect();
    for _ in 0..1 + r.below(3) {
        if v.is_empty() {
            break;
        }
        let i = r.below(v.len() as u64) as usize;
        match r.below(5) {
            0 => {
                let j = r.below(v.len() as u64) as usize;
                v.swap(i, j)
            }
            1 => {
                v.truncate(i);
            }
            2 => {
                let x = v[i].clone();
                v.insert(i, x)
            }
            3 => {
                let mut p: Vec<String> = v[i].split('-').map(|s| s.to_string()).collect();
                p[2] = hex(&near_digest(r, pool));
                v[i] = p.join("-");
            }
            _ => {
                v.remove(i);
            }
        }
    }
    if v.is_empty() {
        "-".into()
    } else {
        v.join(",")
    }
}
pub fn list_rand(s: &mut Sink, count: u64, seed: u64) {
    let mut r = Rng::new(seed ^ 0x7171);
    for _ in 0..count {
        let mut cr = Rng::new(r.next());
        if !s.mine() {
            s.skip();
            continue;
        }
        let big = cr.chance(1, 5);
        let m = if big { 40 + cr.below(160) as u32 } else { 2 + cr.below(40) as u32 };
        let mut pool = vec![];
        let nested = cr.chance(3, 4);
        let la = if big { cr.below(90) as usize } else { cr.below(25) as usize };
        let a = rand_list(&mut cr, m, la, &mut pool, nested);
        let b = match cr.below(4) {
            0 => a.clone(),
            1 => mutate_list(&mut cr, &a, &mut pool),
            _ => {
                let lb = if big { cr.below(90) as usize } else { cr.below(25) as usize };
                rand_list(&mut cr, m, lb, &mut pool, nested)
            }
        };
        let (a, b) = if cr.chance(1, 5) { (mutate_list(&mut cr, &a, &mut pool), b) } else { (a, b) };
        s.emit(&format!("D {} {}", a, b));
    }
}

pub fn level_exh(s: &mut Sink, nbytes: usize) {
    for base in 1..=255u32 {
        let total = 256u32.pow(nbytes as u32);
        for d in 0..total {
            if !s.mine() {
                s.skip();
                continue;
            }
            let bytes: Vec<u8> = (0..nbytes).map(|i| ((d >> (8 * (nbytes - 1 - i))) & 255) as u8).collect();
            s.emit(&format!("L {} {}", base, hex(&bytes)));
        }
    }
}
pub fn level_rand(s: &mut Sink, count: u64, seed: u64) {
    let mut r = Rng::new(seed ^ 0x1313);
    for _ in 0..count {
        let base = 1 + r.below(255) as u32;
        let w = *r.pick(&[1usize, 2, 3, 8, 16, 32, 32]);
        let pz = *r.pick(&[30u64, 70, 95]);
        let d = rand_digest(&mut r, base, w, pz);
        s.emit(&format!("L {} {}", base, hex(&d)));
    }
}

/// all schedules of length `len` for `nrep` replicas over `nk` keys x values {1,2}, every level assignment in {0,1}
pub fn sync_exh(s: &mut Sink, nrep: usize, nk: usize, len: usize, merge: &str) {
    let mut evs: Vec<String> = vec![];
    for r in 0..nrep {
        for k in 0..nk {
            for v in 1..=2 {
                evs.push(format!("w{}:{}:{}", r, k, v));
            }
        }
        evs.push(format!("h{}", r));
        for q in 0..nrep {
            if q != r {
                evs.push(format!("p{}:{}", r, q));
            }
        }
    }
    let ne = evs.len();
    for li in 0..2usize.pow(nk as u32) {
        let lv: Vec<u32> = (0..nk).map(|i| ((li >> i) & 1) as u32).collect();
        let ks = keys_str(&lv, 16, 16);
        for hi in 0..ne.pow(len as u32) {
            if !s.mine() {
                s.skip();
                continue;
            }
            let mut x = hi;
            let mut l = vec![];
            for _ in 0..len {
                l.push(evs[x % ne].clone());
                x /= ne;
            }
            s.emit(&format!("Y 16 {} {} {} {}", merge, nrep, ks, l.join(",")));
        }
    }
}
/// replicas whose trees have very wide pages (hundreds of keys on one level): bulk-load, sync, overwrite, sync
pub fn sync_flat(s: &mut Sink, count: u64, seed: u64) {
    let mut r = Rng::new(seed ^ 0x5d5d);
    for _ in 0..count {
        let mut cr = Rng::new(r.next());
        if !s.mine() {
            s.skip();
            continue;
        }
        let n = 260 + cr.below(200) as usize;
        let nrep = 2 + cr.below(2) as usize;
        let levels: Vec<u32> = (0..n).map(|_| if cr.chance(1, 200) { 1 } else { 0 }).collect();
        let ks = keys_str(&levels, 16, 16);
        let mut ev: Vec<String> = vec![];
        // replica 0 holds everything, the others a part
        for k in 0..n {
            ev.push(format!("w0:{}:1", k));
            for q in 1..nrep {
                if cr.chance(1, 3) {
                    ev.push(format!("w{}:{}:1", q, k));
                }
            }
        }
        for q in 1..nrep {
            ev.push(format!("p{}:0", q));
            ev.push(format!("p0:{}", q));
        }
        // overwrites of keys that already exist, then more pulls
        for _ in 0..(2 + cr.below(6)) {
            ev.push(format!("w{}:{}:{}", cr.below(nrep as u64), cr.below(n as u64), 2 + cr.below(3)));
        }
        for q in 1..nrep {
            ev.push(format!("p{}:0", q));
            ev.push(format!("p0:{}", q));
            ev.push(format!("p{}:0", q));
        }
        s.emit(&format!("Yf 16 max {} {} {}", nrep, ks, ev.join(",")));
    }
}

pub fn sync_rand(s: &mut Sink, count: u64, seed: u64, maxkeys: usize) {
    let mut r = Rng::new(seed ^ 0x9191);
    for i in 0..count {
        let mut cr = Rng::new(r.next());
        if !s.mine() {
            s.skip();
            continue;
        }
        let nrep = 2 + cr.below(4) as usize;
        let nk = 1 + cr.below(if i % 8 == 0 { maxkeys as u64 } else { 8 }) as usize;
        let t = {
            let mut tt = rand_keys(&mut cr, nk);
            while tt.w != 16 {
                tt = rand_keys(&mut cr, nk);
            }
            tt
        };
        let len = 1 + cr.below(6 * t.nkeys as u64 + 10) as usize;
        let mut l = vec![];
        for _ in 0..len {
            let a = cr.below(nrep as u64);
            match cr.below(10) {
                0..=4 => l.push(format!("w{}:{}:{}", a, cr.below(t.nkeys as u64), 1 + cr.below(5))),
                5 => l.push(format!("h{}", a)),
                _ => {
                    let b = (a + 1 + cr.below(nrep as u64 - 1)) % nrep as u64;
                    l.push(format!("p{}:{}", a, b))
                }
            }
        }
        let merge = if cr.chance(3, 4) { "max" } else { "pw" };
        let tag = if t.nkeys > 40 { "Yf" } else { "Y" };
        s.emit(&format!("{} {} {} {} {} {}", tag, t.base, merge, nrep, t.keys, l.join(",")));
    }
}
